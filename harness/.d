-O1: c06_channel.cpp /repo/include/boost/gil.hpp \
 /repo/include/boost/gil/algorithm.hpp \
 /repo/include/boost/gil/metafunctions.hpp \
 /repo/include/boost/gil/channel.hpp \
 /repo/include/boost/gil/utilities.hpp \
 /repo/include/boost/gil/detail/mp11.hpp \
 /repo/include/boost/gil/dynamic_step.hpp \
 /repo/include/boost/gil/concepts/dynamic_step.hpp \
 /repo/include/boost/gil/concepts/fwd.hpp \
 /repo/include/boost/gil/concepts/concept_check.hpp \
 /repo/include/boost/gil/concepts.hpp \
 /repo/include/boost/gil/concepts/channel.hpp \
 /repo/include/boost/gil/concepts/basic.hpp \
 /repo/include/boost/gil/concepts/color.hpp \
 /repo/include/boost/gil/concepts/color_base.hpp \
 /repo/include/boost/gil/concepts/image.hpp \
 /repo/include/boost/gil/concepts/image_view.hpp \
 /repo/include/boost/gil/concepts/pixel.hpp \
 /repo/include/boost/gil/concepts/pixel_based.hpp \
 /repo/include/boost/gil/concepts/detail/type_traits.hpp \
 /repo/include/boost/gil/concepts/pixel_dereference.hpp \
 /repo/include/boost/gil/concepts/pixel_iterator.hpp \
 /repo/include/boost/gil/concepts/pixel_locator.hpp \
 /repo/include/boost/gil/concepts/point.hpp \
 /repo/include/boost/gil/concepts/detail/utility.hpp \
 /repo/include/boost/gil/pixel_iterator.hpp \
 /repo/include/boost/gil/pixel.hpp /repo/include/boost/gil/color_base.hpp \
 /repo/include/boost/gil/color_base_algorithm.hpp \
 /repo/include/boost/gil/pixel_numeric_operations.hpp \
 /repo/include/boost/gil/channel_numeric_operations.hpp \
 /repo/include/boost/gil/image.hpp /repo/include/boost/gil/image_view.hpp \
 /repo/include/boost/gil/iterator_from_2d.hpp \
 /repo/include/boost/gil/locator.hpp \
 /repo/include/boost/gil/step_iterator.hpp \
 /repo/include/boost/gil/pixel_iterator_adaptor.hpp \
 /repo/include/boost/gil/point.hpp \
 /repo/include/boost/gil/detail/std_common_type.hpp \
 /repo/include/boost/gil/bit_aligned_pixel_iterator.hpp \
 /repo/include/boost/gil/bit_aligned_pixel_reference.hpp \
 /repo/include/boost/gil/image_view_factory.hpp \
 /repo/include/boost/gil/color_convert.hpp \
 /repo/include/boost/gil/channel_algorithm.hpp \
 /repo/include/boost/gil/promote_integral.hpp \
 /repo/include/boost/gil/typedefs.hpp /repo/include/boost/gil/cmyk.hpp \
 /repo/include/boost/gil/device_n.hpp /repo/include/boost/gil/gray.hpp \
 /repo/include/boost/gil/rgb.hpp \
 /repo/include/boost/gil/planar_pixel_iterator.hpp \
 /repo/include/boost/gil/rgba.hpp \
 /repo/include/boost/gil/detail/is_channel_integral.hpp \
 /repo/include/boost/gil/detail/type_traits.hpp \
 /repo/include/boost/gil/histogram.hpp \
 /repo/include/boost/gil/packed_pixel.hpp \
 /repo/include/boost/gil/planar_pixel_reference.hpp \
 /repo/include/boost/gil/position_iterator.hpp \
 /repo/include/boost/gil/premultiply.hpp \
 /repo/include/boost/gil/extension/rasterization/circle.hpp \
 /repo/include/boost/gil/detail/math.hpp \
 /repo/include/boost/gil/image_processing/kernel.hpp \
 /repo/include/boost/gil/extension/rasterization/apply_rasterizer.hpp \
 /repo/include/boost/gil/extension/rasterization/ellipse.hpp \
 /repo/include/boost/gil/extension/rasterization/line.hpp \
 /repo/include/boost/gil/virtual_locator.hpp \
 /repo/include/boost/gil/image_processing/adaptive_histogram_equalization.hpp \
 /repo/include/boost/gil/image_processing/histogram_equalization.hpp \
 /repo/include/boost/gil/extension/image_processing/diffusion.hpp \
 /repo/include/boost/gil/image_processing/filter.hpp \
 /repo/include/boost/gil/image_processing/convolve.hpp \
 /repo/include/boost/gil/image_processing/harris.hpp \
 /repo/include/boost/gil/image_processing/hessian.hpp \
 /repo/include/boost/gil/image_processing/histogram_matching.hpp \
 /repo/include/boost/gil/extension/image_processing/hough_parameter.hpp \
 /repo/include/boost/gil/extension/image_processing/hough_transform.hpp \
 /repo/include/boost/gil/image_processing/morphology.hpp \
 /repo/include/boost/gil/image_processing/threshold.hpp \
 /repo/include/boost/gil/image_processing/numeric.hpp \
 /repo/include/boost/gil/image_processing/scaling.hpp lib/trace.hpp
/repo/include/boost/gil.hpp:
/repo/include/boost/gil/algorithm.hpp:
/repo/include/boost/gil/metafunctions.hpp:
/repo/include/boost/gil/channel.hpp:
/repo/include/boost/gil/utilities.hpp:
/repo/include/boost/gil/detail/mp11.hpp:
/repo/include/boost/gil/dynamic_step.hpp:
/repo/include/boost/gil/concepts/dynamic_step.hpp:
/repo/include/boost/gil/concepts/fwd.hpp:
/repo/include/boost/gil/concepts/concept_check.hpp:
/repo/include/boost/gil/concepts.hpp:
/repo/include/boost/gil/concepts/channel.hpp:
/repo/include/boost/gil/concepts/basic.hpp:
/repo/include/boost/gil/concepts/color.hpp:
/repo/include/boost/gil/concepts/color_base.hpp:
/repo/include/boost/gil/concepts/image.hpp:
/repo/include/boost/gil/concepts/image_view.hpp:
/repo/include/boost/gil/concepts/pixel.hpp:
/repo/include/boost/gil/concepts/pixel_based.hpp:
/repo/include/boost/gil/concepts/detail/type_traits.hpp:
/repo/include/boost/gil/concepts/pixel_dereference.hpp:
/repo/include/boost/gil/concepts/pixel_iterator.hpp:
/repo/include/boost/gil/concepts/pixel_locator.hpp:
/repo/include/boost/gil/concepts/point.hpp:
/repo/include/boost/gil/concepts/detail/utility.hpp:
/repo/include/boost/gil/pixel_iterator.hpp:
/repo/include/boost/gil/pixel.hpp:
/repo/include/boost/gil/color_base.hpp:
/repo/include/boost/gil/color_base_algorithm.hpp:
/repo/include/boost/gil/pixel_numeric_operations.hpp:
/repo/include/boost/gil/channel_numeric_operations.hpp:
/repo/include/boost/gil/image.hpp:
/repo/include/boost/gil/image_view.hpp:
/repo/include/boost/gil/iterator_from_2d.hpp:
/repo/include/boost/gil/locator.hpp:
/repo/include/boost/gil/step_iterator.hpp:
/repo/include/boost/gil/pixel_iterator_adaptor.hpp:
/repo/include/boost/gil/point.hpp:
/repo/include/boost/gil/detail/std_common_type.hpp:
/repo/include/boost/gil/bit_aligned_pixel_iterator.hpp:
/repo/include/boost/gil/bit_aligned_pixel_reference.hpp:
/repo/include/boost/gil/image_view_factory.hpp:
/repo/include/boost/gil/color_convert.hpp:
/repo/include/boost/gil/channel_algorithm.hpp:
/repo/include/boost/gil/promote_integral.hpp:
/repo/include/boost/gil/typedefs.hpp:
/repo/include/boost/gil/cmyk.hpp:
/repo/include/boost/gil/device_n.hpp:
/repo/include/boost/gil/gray.hpp:
/repo/include/boost/gil/rgb.hpp:
/repo/include/boost/gil/planar_pixel_iterator.hpp:
/repo/include/boost/gil/rgba.hpp:
/repo/include/boost/gil/detail/is_channel_integral.hpp:
/repo/include/boost/gil/detail/type_traits.hpp:
/repo/include/boost/gil/histogram.hpp:
/repo/include/boost/gil/packed_pixel.hpp:
/repo/include/boost/gil/planar_pixel_reference.hpp:
/repo/include/boost/gil/position_iterator.hpp:
/repo/include/boost/gil/premultiply.hpp:
/repo/include/boost/gil/extension/rasterization/circle.hpp:
/repo/include/boost/gil/detail/math.hpp:
/repo/include/boost/gil/image_processing/kernel.hpp:
/repo/include/boost/gil/extension/rasterization/apply_rasterizer.hpp:
/repo/include/boost/gil/extension/rasterization/ellipse.hpp:
/repo/include/boost/gil/extension/rasterization/line.hpp:
/repo/include/boost/gil/virtual_locator.hpp:
/repo/include/boost/gil/image_processing/adaptive_histogram_equalization.hpp:
/repo/include/boost/gil/image_processing/histogram_equalization.hpp:
/repo/include/boost/gil/extension/image_processing/diffusion.hpp:
/repo/include/boost/gil/image_processing/filter.hpp:
/repo/include/boost/gil/image_processing/convolve.hpp:
/repo/include/boost/gil/image_processing/harris.hpp:
/repo/include/boost/gil/image_processing/hessian.hpp:
/repo/include/boost/gil/image_processing/histogram_matching.hpp:
/repo/include/boost/gil/extension/image_processing/hough_parameter.hpp:
/repo/include/boost/gil/extension/image_processing/hough_transform.hpp:
/repo/include/boost/gil/image_processing/morphology.hpp:
/repo/include/boost/gil/image_processing/threshold.hpp:
/repo/include/boost/gil/image_processing/numeric.hpp:
/repo/include/boost/gil/image_processing/scaling.hpp:
lib/trace.hpp:
