// C01 / C02 / C03 conformance driver.
// For every pixel organisation x image shape x alignment it creates real images through a tracking
// allocator (and views over guard-paged caller buffers), derives views by every composition of the
// view factories up to a depth, and logs for every view the memory address (bit offset relative to
// the owning block) of every pixel, reached through every navigation path, plus the byte-level
// effect of writing single pixels.  Validated by Trace_Views.tla.
#include <boost/gil.hpp>
#include <boost/mp11.hpp>
#include "lib/trace.hpp"
#include "lib/guard_buf.hpp"
#include "lib/track_alloc.hpp"

namespace gil = boost::gil;
namespace mp = boost::mp11;
using vt::J;

static vt::Args* A;
static int g_depth = 0; static bool g_laws = true;
static bool NAV = false;          // log navigation paths (C03) instead of pokes
static int g_next_id = 0;
static const unsigned char* g_base = nullptr;   // owning block
static size_t g_size = 0;
static int g_idx = 0;
static bool mine() { return (g_idx++ % A->nshards) == A->shard; }

// ---- address projection: bit offset of the start of a pixel / of channel K, relative to g_base ----
template <class T, class L> long long bitaddr(gil::pixel<T, L> const& p) { return ((const unsigned char*)&p - g_base) * 8ll; }
template <class T, class L> long long bitaddr(gil::pixel<T, L>& p) { return ((const unsigned char*)&p - g_base) * 8ll; }
template <class C, class CS> long long bitaddr(gil::planar_pixel_reference<C, CS> const& p) { return ((const unsigned char*)&gil::at_c<0>(p) - g_base) * 8ll; }
template <class B, class C, class L> long long bitaddr(gil::packed_pixel<B, C, L> const& p) { return ((const unsigned char*)&p - g_base) * 8ll; }
template <class B, class C, class L, bool M> long long bitaddr(gil::bit_aligned_pixel_reference<B, C, L, M> const& p) {
    return (p.bit_range().current_byte() - g_base) * 8ll + p.bit_range().bit_offset();
}
template <int K, class Ref> long long chanaddr(Ref const& r) { return ((const unsigned char*)&gil::at_c<K>(r) - g_base) * 8ll; }

template <class View> struct has_chan_addr : std::integral_constant<bool, false> {};

// ---- kinds -------------------------------------------------------------------------------------
struct KindInfo { const char* name; int psz; int upb; int planes; int nch; int chbits; bool chan_addr; bool exact_poke; };
template <class Img> struct Kind;
#define KIND(IMG, NAME, PSZ, UPB, PLANES, NCH, CHBITS, CHADDR, EXACT) \
    template <> struct Kind<IMG> { static constexpr bool chaddr = CHADDR; static KindInfo info() { return {NAME, PSZ, UPB, PLANES, NCH, CHBITS, CHADDR, EXACT}; } };
using TA = vt::track_alloc<unsigned char>;
using gray8_img = gil::image<gil::gray8_pixel_t, false, TA>;
using rgb8_img = gil::image<gil::rgb8_pixel_t, false, TA>;
using bgra8_img = gil::image<gil::bgra8_pixel_t, false, TA>;
using rgb16_img = gil::image<gil::rgb16_pixel_t, false, TA>;
using rgb32f_img = gil::image<gil::rgb32f_pixel_t, false, TA>;
using rgb8p_img = gil::image<gil::rgb8_pixel_t, true, TA>;
using cmyk16p_img = gil::image<gil::cmyk16_pixel_t, true, TA>;
using rgb565_img = gil::packed_image3_type<uint16_t, 5, 6, 5, gil::rgb_layout_t, TA>::type;
using g1_img = gil::bit_aligned_image1_type<1, gil::gray_layout_t, TA>::type;
using g2_img = gil::bit_aligned_image1_type<2, gil::gray_layout_t, TA>::type;
using g4_img = gil::bit_aligned_image1_type<4, gil::gray_layout_t, TA>::type;
using b121_img = gil::bit_aligned_image3_type<1, 2, 1, gil::bgr_layout_t, TA>::type;
using r222_img = gil::bit_aligned_image3_type<2, 2, 2, gil::rgb_layout_t, TA>::type;
using g7_img = gil::bit_aligned_image1_type<7, gil::gray_layout_t, TA>::type;
using r444_img = gil::bit_aligned_image3_type<4, 4, 4, gil::rgb_layout_t, TA>::type;
using r565b_img = gil::bit_aligned_image3_type<5, 6, 5, gil::rgb_layout_t, TA>::type;
//    image        name        psz upb planes nch chbits chaddr exact
KIND(gray8_img,   "gray8",      1, 1, 1, 1, 8,  true,  true)
KIND(rgb8_img,    "rgb8",       3, 1, 1, 3, 8,  true,  true)
KIND(bgra8_img,   "bgra8",      4, 1, 1, 4, 8,  true,  true)
KIND(rgb16_img,   "rgb16",      6, 1, 1, 3, 16, true,  true)
KIND(rgb32f_img,  "rgb32f",    12, 1, 1, 3, 32, true,  false)
KIND(rgb8p_img,   "rgb8_planar", 1, 1, 3, 3, 8, true,  true)
KIND(cmyk16p_img, "cmyk16_planar", 2, 1, 4, 4, 16, true, true)
KIND(rgb565_img,  "rgb565_packed", 2, 1, 1, 3, 0, false, true)
KIND(g1_img,      "gray1_bits", 1, 8, 1, 1, 0, false, true)
KIND(g2_img,      "gray2_bits", 2, 8, 1, 1, 0, false, true)
KIND(g4_img,      "gray4_bits", 4, 8, 1, 1, 0, false, true)
KIND(b121_img,    "bgr121_bits", 4, 8, 1, 3, 0, false, true)
KIND(r222_img,    "rgb222_bits", 6, 8, 1, 3, 0, false, true)
KIND(g7_img,      "gray7_bits", 7, 8, 1, 1, 0, false, true)
KIND(r444_img,    "rgb444_bits", 12, 8, 1, 3, 0, false, true)
KIND(r565b_img,   "rgb565_bits", 16, 8, 1, 3, 0, false, true)

// ---- per-view logging ---------------------------------------------------------------------------
template <class View> std::vector<long long> map_of(View const& v) {
    std::vector<long long> m;
    for (int y = 0; y < v.height(); ++y) for (int x = 0; x < v.width(); ++x) m.push_back(bitaddr(v(x, y)));
    return m;
}
template <class View, int NCH> std::string chanmaps(View const& v, std::true_type) {
    std::vector<std::string> per;
    mp::mp_for_each<mp::mp_iota_c<NCH>>([&](auto K) {
        std::vector<long long> m;
        for (int y = 0; y < v.height(); ++y) for (int x = 0; x < v.width(); ++x) m.push_back(chanaddr<decltype(K)::value>(v(x, y)));
        per.push_back(vt::jarr(m));
    });
    return vt::jarr_raw(per);
}
template <class View, int NCH> std::string chanmaps(View const&, std::false_type) { return "[]"; }

// complement every channel of a pixel (all bits of an unsigned integral channel flip)
struct inv_channel { template <class C> void operator()(C& c) const { c = gil::channel_invert(c); } template <class C> void operator()(C const& c) const { c = gil::channel_invert(c); } };
struct bump_channel { template <class C> void operator()(C& c) const { c = (c == 0.25f) ? 0.5f : 0.25f; } };

template <class View> std::string pokes(View const& v, bool exact) {
    // for every pixel: write it through the view, xor the owning block with its previous contents
    std::vector<std::string> per;
    std::vector<unsigned char> before(g_size);
    unsigned char* blk = const_cast<unsigned char*>(g_base);
    for (int y = 0; y < v.height(); ++y) for (int x = 0; x < v.width(); ++x) {
        memcpy(before.data(), blk, g_size);
        { auto&& ref = v(x, y); if (exact) gil::static_for_each(ref, inv_channel()); else gil::static_for_each(ref, bump_channel()); }
        std::string s = "["; bool first = true;
        for (size_t i = 0; i < g_size; ++i) if (blk[i] != before[i]) { if (!first) s += ','; first = false; s += "[" + std::to_string(i) + "," + std::to_string(blk[i] ^ before[i]) + "]"; }
        per.push_back(s + "]");
    }
    return vt::jarr_raw(per);
}

// navigation paths (C03): the address reached through every accessor
template <class View> void nav_paths(J& j, View const& v) {
    int w = (int)v.width(), h = (int)v.height(); long n = (long)w * h;
    std::vector<long long> row, col, it1, at, rb, xy, xat, yat, rit, locm, cache, axis;
    for (int y = 0; y < h; ++y) for (int x = 0; x < w; ++x) {
        long i = (long)y * w + x;
        row.push_back(bitaddr(v.row_begin(y)[x]));
        col.push_back(bitaddr(v.col_begin(x)[y]));
        it1.push_back(bitaddr(v.begin()[i]));
        at.push_back(bitaddr(*v.at(x, y)));
        rb.push_back(bitaddr(v.rbegin()[n - 1 - i]));
        xy.push_back(bitaddr(*v.xy_at(x, y)));
        xat.push_back(bitaddr(*v.x_at(x, y)));
        yat.push_back(bitaddr(*v.y_at(x, y)));
        { auto it = v.begin(); it += i; rit.push_back(bitaddr(*it)); }
        // locator started at the opposite corner, moved by a 2-D offset
        { auto loc = v.xy_at(w - 1, h - 1); loc += typename View::point_t(x - (w - 1), y - (h - 1)); locm.push_back(bitaddr(*loc)); }
        // cached location relative to pixel (0,0)
        { auto loc = v.xy_at(0, 0); auto cl = loc.cache_location(x, y); cache.push_back(bitaddr(loc[cl])); }
        // axis iterators from (0,0): x increments then y increments
        { auto loc = v.xy_at(0, 0); for (int k = 0; k < x; ++k) ++loc.x(); for (int k = 0; k < y; ++k) ++loc.y(); axis.push_back(bitaddr(*loc)); }
    }
    j.arr("p_row", row).arr("p_col", col).arr("p_it1d", it1).arr("p_at", at).arr("p_rbegin", rb).arr("p_xy", xy)
     .arr("p_xat", xat).arr("p_yat", yat).arr("p_itadv", rit).arr("p_locmove", locm).arr("p_cache", cache).arr("p_axis", axis);
    j.num("size1d", (long long)(v.end() - v.begin())).boolean("is1d", v.is_1d_traversable());
    // is_1d_traversable <=> stepping the x iterator past the row end lands on the next row's first pixel
    if (h >= 2 && w >= 1) { auto it = v.row_begin(0); it += w; j.num("rowend_next", bitaddr(*it)).num("row1_first", bitaddr(v.row_begin(1)[0])); }
}

// 1-D iterator / step iterator laws: every start, every (n, m) in a window
template <class View> void iter_laws(int id, View const& v) {
    int w = (int)v.width(), h = (int)v.height(); long n = (long)w * h;
    if (n == 0) return;
    int win = w + 2;
    std::vector<long long> m = map_of(v);
    for (long i = 0; i <= n; i += (n > 12 ? 3 : 1)) {
        std::vector<std::string> rows;
        for (int a = -win; a <= win; ++a) for (int b : {-w - 1, -1, 0, 1, 2, w, w + 1}) {
            long p1 = i + a, p2 = i + a + b;
            if (p1 < 0 || p1 > n || p2 < 0 || p2 > n) continue;
            auto it0 = v.begin() + i; auto it1 = it0 + a; auto it2 = it1 + b; auto it12 = it0 + (a + b);
            auto itb = it1; itb -= a;
            auto inc = it1; bool canpp = p1 < n; if (canpp) { ++inc; --inc; }
            long long d10 = it1 - it0, d01 = it0 - it1;
            J r; r.num("a", a).num("b", b).num("x1", it1.x_pos()).num("y1", it1.y_pos()).num("x2", it2.x_pos()).num("y2", it2.y_pos())
                .boolean("assoc", it2 == it12).boolean("back", itb == it0).boolean("incdec", inc == it1).num("d10", d10).num("d01", d01)
                .boolean("lt", it0 < it1).boolean("gt", it0 > it1).boolean("le", it0 <= it1).boolean("eq", it0 == it1)
                .num("addr2", p2 < n ? bitaddr(*it2) : -1);
            rows.push_back(r.done());
        }
        J("ItLaw").num("id", id).num("i", i).num("w", w).num("h", h).raw("rows", vt::jarr_raw(rows)).emit();
    }
    // x / y step iterators of the view: (it+n)-it == n, ordering, ++/--
    for (int y = 0; y < h; ++y) {
        std::vector<std::string> rows;
        for (int a = 0; a <= w; ++a) for (int b = 0; b <= w; ++b) {
            auto i0 = v.row_begin(y) + a; auto i1 = v.row_begin(y) + b;
            J r; r.num("a", a).num("b", b).num("d", (long long)(i1 - i0)).boolean("lt", i0 < i1).boolean("eq", i0 == i1).num("addr", b < w ? bitaddr(*i1) : -1);
            rows.push_back(r.done());
        }
        J("XItLaw").num("id", id).num("y", y).raw("rows", vt::jarr_raw(rows)).emit();
    }
    for (int x = 0; x < w; ++x) {
        std::vector<std::string> rows;
        for (int a = 0; a <= h; ++a) for (int b = 0; b <= h; ++b) {
            auto i0 = v.col_begin(x) + a; auto i1 = v.col_begin(x) + b;
            J r; r.num("a", a).num("b", b).num("d", (long long)(i1 - i0)).boolean("lt", i0 < i1).boolean("eq", i0 == i1).num("addr", b < h ? bitaddr(*i1) : -1);
            rows.push_back(r.done());
        }
        J("YItLaw").num("id", id).num("x", x).raw("rows", vt::jarr_raw(rows)).emit();
    }
}

template <class View> void touch_all(View const& v) {
    // read and write every pixel through the pixel algorithms (observed by ASan / guard pages)
    typename View::value_type acc{};
    gil::for_each_pixel(v, [&](typename View::reference p) { acc = p; p = acc; });
    for (auto it = v.begin(); it != v.end(); ++it) { acc = *it; *it = acc; }
    for (int y = 0; y < v.height(); ++y) for (auto it = v.row_begin(y); it != v.row_end(y); ++it) { acc = *it; }
    for (int x = 0; x < v.width(); ++x) for (auto it = v.col_begin(x); it != v.col_end(x); ++it) { acc = *it; }
    // ... and backwards: decrementing iterators, reverse iterators
    for (auto it = v.end(); it != v.begin();) { --it; acc = *it; *it = acc; }
    for (auto it = v.rbegin(); it != v.rend(); ++it) { acc = *it; }
    for (int y = 0; y < v.height(); ++y) for (auto it = v.row_end(y); it != v.row_begin(y);) { --it; acc = *it; *it = acc; }
    for (int x = 0; x < v.width(); ++x) for (auto it = v.col_end(x); it != v.col_begin(x);) { it--; acc = *it; }
    // random-access jumps backwards that land on the first pixel of a row, from the end and from every row start
    if (v.width() > 0 && v.height() > 0) {
        long w = (long)v.width(), n = w * (long)v.height();
        for (long k = 1; k <= (long)v.height(); ++k) { auto it = v.end(); it -= k * w; acc = *it; *it = acc; auto jt = v.end() - k * w; acc = *jt; }
        for (long i = 0; i < n; ++i) for (long j : {0L, (i / w) * w, i > 0 ? i - 1 : 0L}) { auto it = (v.begin() + i) + (j - i); acc = *it; }
    }
    (void)acc;
}

template <class K, class View>
int log_view(View const& v, int src, const char* op, std::vector<long long> args, int nch_of_view, bool chan_addr_ok) {
    int id = g_next_id++;
    KindInfo ki = K::info();
    J j("View"); j.num("id", id).num("src", src).str("op", op).arr("args", args).num("w", v.width()).num("h", v.height());
    auto m = map_of(v);
    j.arr("map", m);
    constexpr int NCH = gil::num_channels<View>::value;
    if (chan_addr_ok && ki.chan_addr) j.raw("cm", chanmaps<View, NCH>(v, std::integral_constant<bool, true>()));
    else j.raw("cm", "[]");
    j.num("nch", nch_of_view);
    if (NAV) { if (v.width() > 0 && v.height() > 0) nav_paths(j, v); }
    else if (v.width() * v.height() <= 30) j.raw("pokes", pokes(v, ki.exact_poke));
    j.emit();
    if (NAV && g_laws && g_depth <= 1) iter_laws(id, v);
    else touch_all(v);
    return id;
}

template <bool B> struct chan_addr_tag {};

// ---- composition of view factories ----------------------------------------------------------------
static bool g_light = false;     // light exploration: rotations/flips and a few sub-views only
template <class K, int D, int MAXD, bool CHADDR, class View>
void explore(View const& v, int id, vt::Rng& rng) {
    if constexpr (D < MAXD) {
        int w = (int)v.width(), h = (int)v.height();
        constexpr int NCH = gil::num_channels<View>::value;
        auto next = [&](auto const& nv, const char* op, std::vector<long long> args) {
            g_depth = D + 1;
            int nid = log_view<K>(nv, id, op, args, NCH, CHADDR);
            explore<K, D + 1, MAXD, CHADDR>(nv, nid, rng);
        };
        next(gil::flipped_up_down_view(v), "flipUD", {});
        next(gil::flipped_left_right_view(v), "flipLR", {});
        next(gil::transposed_view(v), "transposed", {});
        next(gil::rotated90cw_view(v), "rot90cw", {});
        next(gil::rotated90ccw_view(v), "rot90ccw", {});
        next(gil::rotated180_view(v), "rot180", {});
        // sub-images: all rectangles at depth 0 of small roots, a seeded selection deeper
        std::vector<std::array<int, 4>> rects;
        if (D == 0 && w * h <= 12 && !g_light) { for (int x0 = 0; x0 <= w; ++x0) for (int y0 = 0; y0 <= h; ++y0) for (int w1 = 0; x0 + w1 <= w; ++w1) for (int h1 = 0; y0 + h1 <= h; ++h1) if (!(w1 == w && h1 == h)) rects.push_back({x0, y0, w1, h1}); }
        else { for (int k = 0; k < 3; ++k) { int x0 = rng.range(0, w), y0 = rng.range(0, h); rects.push_back({x0, y0, rng.range(0, w - x0), rng.range(0, h - y0)}); } rects.push_back({0, 0, w, h}); if (w > 0 && h > 0) rects.push_back({w - 1, h - 1, 1, 1}); }
        int cnt = 0;
        for (auto r : rects) {
            auto sv = gil::subimage_view(v, r[0], r[1], r[2], r[3]);
            g_depth = D + 1;
            int nid = log_view<K>(sv, id, "subimage", {r[0], r[1], r[2], r[3]}, NCH, CHADDR);
            if (cnt++ < 4) explore<K, D + 1, MAXD, CHADDR>(sv, nid, rng);
        }
        for (int sx = 1; sx <= 3; ++sx) for (int sy = 1; sy <= 3; ++sy) {
            if ((D > 0 || g_light) && !(sx == sy || sx == 1 || sy == 1)) continue;
            if (g_light && sx + sy != 4 && sx + sy != 3) continue;
            auto sv = gil::subsampled_view(v, sx, sy);
            g_depth = D + 1;
            int nid = log_view<K>(sv, id, "subsampled", {sx, sy}, NCH, CHADDR);
            if (sx + sy == 3 || (sx == 2 && sy == 2)) explore<K, D + 1, MAXD, CHADDR>(sv, nid, rng);
        }
        if constexpr (CHADDR && NCH > 1) {
            for (int c = 0; c < NCH; ++c) {
                auto cv = gil::nth_channel_view(v, c);
                g_depth = D + 1;
                int nid = log_view<K>(cv, id, "nthch", {c}, 1, true);
                if (c == NCH - 1) explore<K, D + 1, MAXD, true>(cv, nid, rng);
            }
            { auto cv = gil::kth_channel_view<1>(v); log_view<K>(cv, id, "kthch", {1}, 1, true); }
        }
        // the only channel of a single-channel view (also of stepped / flipped / transposed ones reached at depth > 0)
        if constexpr (CHADDR && NCH == 1) {
            g_depth = D + 1;
            { auto cv = gil::nth_channel_view(v, 0); log_view<K>(cv, id, "nthch", {0}, 1, true); }
            { auto cv = gil::kth_channel_view<0>(v); log_view<K>(cv, id, "kthch", {0}, 1, true); }
        }
    }
}

template <class K> void emit_root(const char* how, int w, int h, int align, const void* first_pixel_hint) {
    KindInfo ki = K::info();
    (void)first_pixel_hint;
    J("Root").str("kind", ki.name).str("how", how).num("w", w).num("h", h).num("align", align).num("size", (long long)g_size)
        .num("psz", ki.psz).num("upb", ki.upb).num("planes", ki.planes).num("nch", ki.nch).num("chbits", ki.chbits)
        .num("addrmod", align > 0 ? (long long)((uintptr_t)g_base % (uintptr_t)align) : 0).emit();
}

template <class Img> bool bind_block(Img& img) {
    // find the allocation the image's first pixel lives in
    g_base = nullptr; g_size = 0;
    if (img.width() == 0 || img.height() == 0) { return false; }
    const unsigned char* base0 = nullptr;
    {   // address of pixel (0,0) without g_base
        const unsigned char* save = g_base; g_base = nullptr;
        long long b = bitaddr(gil::view(img)(0, 0)); base0 = (const unsigned char*)(uintptr_t)(b / 8); g_base = save;
    }
    auto* blk = vt::world().find_containing(base0);
    if (!blk) return false;
    g_base = (const unsigned char*)blk->first; g_size = blk->second.size;
    return true;
}

template <class Img, int MAXD> void one_image(Img& img, const char* how, int align, vt::Rng& rng, bool light = true) {
    using K = Kind<Img>;
    g_light = light; g_depth = 0;
    g_laws = std::string(how) == "create" || std::string(how) == "recreate_realign_grow";
    g_next_id = 0;
    int w = (int)img.width(), h = (int)img.height();
    bool bound = bind_block(img);
    if (!bound) { static unsigned char dummy[8]; g_base = dummy; g_size = 0; }
    emit_root<K>(how, w, h, align, nullptr);
    // fill with a pattern so that pokes have something to flip
    if (bound) { unsigned char* b = const_cast<unsigned char*>(g_base); for (size_t i = 0; i < g_size; ++i) b[i] = (unsigned char)(i * 37 + 11); }
    auto v = gil::view(img);
    constexpr bool chaddr = !std::is_same<std::integral_constant<int, 0>, std::integral_constant<int, 1>>::value;
    int id = log_view<K>(v, -1, "root", {}, gil::num_channels<typename Img::view_t>::value, K::chaddr);
    explore<K, 0, MAXD, K::chaddr>(v, id, rng);
    (void)chaddr;
}

template <class Img, int MAXD> void kind_images() {
    using K = Kind<Img>;
    KindInfo ki = K::info();
    int N = A->thorough() ? 5 : 4;
    std::vector<int> aligns = A->thorough() ? std::vector<int>{0, 1, 2, 3, 4, 5, 6, 7, 8, 12, 16, 32} : std::vector<int>{0, 1, 3, 4, 12, 16};      // (alignments need not be powers of two)
    for (int w = 0; w <= N; ++w) for (int h = 0; h <= N; ++h) for (int al : aligns) {
        if (al > 1 && al % (int)alignof(typename Img::value_type) != 0) continue;      // a row alignment that misaligns the channel type itself is the caller's error
        if (!mine()) continue;
        if (!A->thorough() && al != 0 && (w + h) % 2 == 1 && w * h > 4) continue;      // quick: thin out aligned shapes
        J("Try").str("kind", ki.name).num("w", w).num("h", h).num("align", al).emit();
        vt::isolated([&] {
            vt::Rng rng(A->seed * 7 + w * 31 + h * 17 + al);
            vt::world().reset();
            {   // created
                Img img(w, h, (std::size_t)al);
                one_image<Img, MAXD>(img, "create", al, rng, MAXD < 2 || al != 0);
                // copy constructed, assigned into a smaller one, recreated (grow / shrink / realign)
                { Img cp(img); one_image<Img, 1>(cp, "copy", al, rng); }
                { Img as(1, 1); as = img; one_image<Img, 1>(as, "assign", al, rng); }
                { Img rc(w, h, (std::size_t)al); rc.recreate(w + 1, h + 2, (std::size_t)al); one_image<Img, 1>(rc, "recreate_grow", al, rng);
                  rc.recreate(w, h, (std::size_t)al); one_image<Img, 1>(rc, "recreate_shrink", al, rng);
                  int al2 = al == 0 ? 8 : al >= 16 ? 4 : al * 2;
                  rc.recreate(w, h, (std::size_t)al2); one_image<Img, 1>(rc, "recreate_realign", al2, rng);
                  rc.recreate(w + 2, h + 1, (std::size_t)al2); one_image<Img, 1>(rc, "recreate_realign_grow", al2, rng); }
                // the overloads that take a fill value (and the point_t spellings)
                { typename Img::value_type fv{}; int al2 = al == 0 ? 16 : al >= 16 ? (alignof(typename Img::value_type) == 1 ? 3 : 4) : al * 2;
                  Img rf(w + 1, h + 1, (std::size_t)al); rf.recreate(w, h, fv, (std::size_t)al2); one_image<Img, 1>(rf, "recreatefill_realign_shrink", al2, rng);
                  rf.recreate(typename Img::point_t(w + 1, h + 2), fv, (std::size_t)al2); one_image<Img, 1>(rf, "recreatefill_grow", al2, rng);
                  rf.recreate(typename Img::point_t(w, h), fv, (std::size_t)al); one_image<Img, 1>(rf, "recreatefill_shrink", al, rng);
                  Img rg(w, h, (std::size_t)al); rg.recreate(w, h, fv, (std::size_t)al2); one_image<Img, 1>(rg, "recreatefill_realign", al2, rng);
                  Img ra(w + 1, h, (std::size_t)al); ra.recreate(w, h + 1, (std::size_t)al2, typename Img::allocator_type()); one_image<Img, 1>(ra, "recreatealloc_realign", al2, rng);
                  ra.recreate(w + 1, h + 1, fv, (std::size_t)al, typename Img::allocator_type()); one_image<Img, 1>(ra, "recreatefillalloc_grow", al, rng); }
            }
        });
    }
}

// views over caller supplied buffers of exactly h x rowbytes, flush against inaccessible pages
template <class Pixel, class K, int MAXD> void caller_buffer(const char* kname) {
    int N = A->thorough() ? 5 : 4;
    for (int w = 0; w <= N; ++w) for (int h = 0; h <= N; ++h) for (int pad : {0, 4}) for (auto where : {vt::GuardBuf::AtEnd, vt::GuardBuf::AtStart}) {
        if (!mine()) continue;
        J("Try").str("kind", kname).num("w", w).num("h", h).num("align", -1 - pad).emit();
        vt::isolated([&] {
            vt::Rng rng(A->seed * 13 + w * 5 + h);
            size_t rowbytes = (size_t)w * sizeof(Pixel) + (size_t)pad;
            vt::GuardBuf gb(rowbytes * h, where);
            g_base = gb.data; g_size = rowbytes * h; g_next_id = 0;
            for (size_t i = 0; i < g_size; ++i) gb.data[i] = (unsigned char)(i * 29 + 3);
            KindInfo ki = K::info();
            J("Root").str("kind", kname).str("how", where == vt::GuardBuf::AtEnd ? "interleaved_view/end" : "interleaved_view/start").num("w", w).num("h", h).num("align", 0).num("size", (long long)g_size)
                .num("psz", ki.psz).num("upb", 1).num("planes", 1).num("nch", ki.nch).num("chbits", ki.chbits).num("addrmod", 0).emit();
            auto v = gil::interleaved_view(w, h, (Pixel*)gb.data, rowbytes);
            g_light = MAXD < 2 || pad != 0; g_depth = 0; g_laws = true;
            int id = log_view<K>(v, -1, "root", {}, gil::num_channels<Pixel>::value, true);
            explore<K, 0, MAXD, true>(v, id, rng);
        });
    }
}
template <int MAXD> void caller_planar() {
    using K = Kind<rgb8p_img>;
    int N = A->thorough() ? 5 : 4;
    for (int w = 0; w <= N; ++w) for (int h = 0; h <= N; ++h) for (int pad : {0, 2}) {
        if (!mine()) continue;
        J("Try").str("kind", "rgb8_planar_caller").num("w", w).num("h", h).num("align", -1 - pad).emit();
        vt::isolated([&] {
            vt::Rng rng(A->seed * 17 + w * 5 + h);
            size_t rowbytes = (size_t)w + (size_t)pad;
            // three planes in one exact buffer (the end of the last plane is flush against the guard page)
            vt::GuardBuf gb(rowbytes * h * 3, vt::GuardBuf::AtEnd);
            g_base = gb.data; g_size = rowbytes * h * 3; g_next_id = 0;
            for (size_t i = 0; i < g_size; ++i) gb.data[i] = (unsigned char)(i * 29 + 3);
            J("Root").str("kind", "rgb8_planar").str("how", "planar_rgb_view").num("w", w).num("h", h).num("align", 0).num("size", (long long)g_size)
                .num("psz", 1).num("upb", 1).num("planes", 3).num("nch", 3).num("chbits", 8).num("addrmod", 0).emit();
            auto v = gil::planar_rgb_view(w, h, gb.data, gb.data + rowbytes * h, gb.data + 2 * rowbytes * h, rowbytes);
            g_light = true; g_depth = 0; g_laws = true;
            int id = log_view<K>(v, -1, "root", {}, 3, true);
            explore<K, 0, MAXD, true>(v, id, rng);
        });
    }
}

int main(int argc, char** argv) {
    vt::Args args(argc, argv); A = &args;
    NAV = !args.rest.empty() && args.rest[0] == "nav";
    vt::install_handlers();
    vt::T().open(args.out.c_str());
    kind_images<gray8_img, 2>();
    kind_images<rgb8_img, 2>();
    kind_images<bgra8_img, 1>();
    kind_images<rgb16_img, 1>();
    kind_images<rgb32f_img, 1>();
    kind_images<rgb8p_img, 2>();
    kind_images<cmyk16p_img, 1>();
    kind_images<rgb565_img, 1>();
    kind_images<g1_img, 2>();
    kind_images<g2_img, 1>();
    kind_images<g4_img, 1>();
    kind_images<b121_img, 1>();
    kind_images<r222_img, 2>();
    kind_images<g7_img, 1>();
    kind_images<r444_img, 1>();
    kind_images<r565b_img, 1>();
    caller_buffer<gil::rgb8_pixel_t, Kind<rgb8_img>, 2>("rgb8_caller");
    caller_buffer<gil::gray8_pixel_t, Kind<gray8_img>, 1>("gray8_caller");
    caller_buffer<gil::rgb16_pixel_t, Kind<rgb16_img>, 1>("rgb16_caller");
    caller_planar<1>();
    J("End").num("events", vt::T().events).emit();
    vt::T().close();
    return 0;
}
