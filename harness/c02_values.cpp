// C02 / C03 by VALUE: view kinds that have no pixel addresses (virtual_2d_locator, dereference adaptors).
// The pixel of the base view at (x,y) carries the value Gen(x,y) = 7 + x + 100 y, so the pixel reached through
// any chain of view factories and through any navigation path identifies its base coordinates.
//   kind "virtual" : image_view over virtual_2d_locator<coord_fn>            (virtual_locator.hpp, position_iterator.hpp)
//   kind "ccv"     : color_converted_view<gray16>(rgb16 image, red_cc)      (dereference_iterator_adaptor over a memory locator)
//   kind "virtcc"  : color_converted_view<gray32>(virtual view, widen_cc)   (deref_compose on a virtual locator: add_deref)
// One VView event per (kind, base shape, chain of up to 2 (thorough: 3) factories): dimensions, values through every
// accessor of C03, 1-D iterator law outcomes.
#include <boost/gil.hpp>
#include <boost/gil/virtual_locator.hpp>
#include "lib/trace.hpp"
namespace gil = boost::gil;
using vt::J;

static vt::Args* A = nullptr;
static long g_case = 0;
static int MAXDEPTH = 2;

struct coord_fn {
    using point_t = gil::point_t;
    using const_t = coord_fn;
    using value_type = gil::gray16_pixel_t;
    using reference = value_type;
    using const_reference = value_type;
    using argument_type = point_t;
    using result_type = reference;
    static constexpr bool is_mutable = false;
    result_type operator()(point_t const& p) const { return value_type((std::uint16_t)(7 + p.x + 100 * p.y)); }
};
using vloc_t = gil::virtual_2d_locator<coord_fn, false>;
using vview_t = gil::image_view<vloc_t>;

struct red_cc {      // rgb16 -> gray16: the red channel (so the converted pixel still carries Gen(x,y))
    template <class S, class D> void operator()(S const& s, D& d) const { gil::at_c<0>(d) = gil::semantic_at_c<0>(s); }
};
struct widen_cc {    // gray16 -> gray32: value + 100000 (distinguishes the adaptor from its source)
    template <class S, class D> void operator()(S const& s, D& d) const { gil::at_c<0>(d) = (std::uint32_t)gil::at_c<0>(s) + 100000u; }
};

template <class V> static long val(typename V::reference const& p) { return (long)gil::at_c<0>(typename V::value_type(p)); }
template <class V, class P> static long valp(P const& p) { return (long)gil::at_c<0>(typename V::value_type(p)); }

static std::string opj(const char* n, std::vector<long> a = {}) { return J().str("op", n).arr("args", a).done(); }

template <class V> static void emit_view(const char* kind, int w, int h, std::vector<std::string> const& ops, V const& v) {
    if ((g_case++ % A->nshards) != A->shard) return;
    int vw = (int)v.width(), vh = (int)v.height(); long n = (long)vw * vh;
    J e("VView");
    e.str("kind", kind).num("w", w).num("h", h).raw("ops", vt::jarr_raw(ops)).num("rw", vw).num("rh", vh).num("size", (long long)v.size())
     .num("size1d", (long long)(v.end() - v.begin())).boolean("is1d", v.is_1d_traversable());
    std::vector<long> xy, row, col, it1, at, rb, xyat, xat, yat, itadv, locm, cache, axis, loop;
    for (int y = 0; y < vh; ++y) for (int x = 0; x < vw; ++x) {
        long i = (long)y * vw + x;
        xy.push_back(valp<V>(v(x, y)));
        row.push_back(valp<V>(v.row_begin(y)[x]));
        col.push_back(valp<V>(v.col_begin(x)[y]));
        it1.push_back(valp<V>(v.begin()[i]));
        at.push_back(valp<V>(*v.at(x, y)));
        rb.push_back(valp<V>(v.rbegin()[n - 1 - i]));
        xyat.push_back(valp<V>(*v.xy_at(x, y)));
        xat.push_back(valp<V>(*v.x_at(x, y)));
        yat.push_back(valp<V>(*v.y_at(x, y)));
        { auto it = v.begin(); it += i; itadv.push_back(valp<V>(*it)); }
        { auto loc = v.xy_at(vw - 1, vh - 1); loc += typename V::point_t(x - (vw - 1), y - (vh - 1)); locm.push_back(valp<V>(*loc)); }
        { auto loc = v.xy_at(0, 0); auto cl = loc.cache_location(x, y); cache.push_back(valp<V>(loc[cl])); }
        { auto loc = v.xy_at(0, 0); for (int k = 0; k < x; ++k) ++loc.x(); for (int k = 0; k < y; ++k) ++loc.y(); axis.push_back(valp<V>(*loc)); }
    }
    for (auto it = v.begin(); it != v.end(); ++it) loop.push_back(valp<V>(*it));
    // the same view arriving by ASSIGNMENT into an existing object (views are values: the copy must see the same pixels)
    std::vector<long> assigned, assigned_it;
    {
        V w2; w2 = v;
        V w3(v); w3 = w2;
        for (int y = 0; y < vh; ++y) for (int x = 0; x < vw; ++x) assigned.push_back(valp<V>(w2(x, y)));
        auto xit = w3.row_begin(0); (void)xit;
        for (int y = 0; y < vh; ++y) { auto r = v.row_begin(0); r = w3.row_begin(y); for (int x = 0; x < vw; ++x) assigned_it.push_back(valp<V>(r[x])); }
    }
    e.arr("p_xy", xy).arr("p_row", row).arr("p_col", col).arr("p_it1d", it1).arr("p_at", at).arr("p_rbegin", rb).arr("p_xyat", xyat).arr("p_xat", xat)
     .arr("p_yat", yat).arr("p_itadv", itadv).arr("p_locmove", locm).arr("p_cache", cache).arr("p_axis", axis).arr("p_loop", loop).arr("p_assigned", assigned).arr("p_assigned_it", assigned_it);
    // random-access laws of the 1-D iterator: every start i, offsets a then b (staying inside [0,n])
    long bad_assoc = 0, bad_back = 0, bad_dist = 0, bad_order = 0, bad_incdec = 0, nlaw = 0;
    for (long i = 0; i <= n; ++i) for (long a = -vw - 1; a <= vw + 1; ++a) for (long b : {(long)-vw, -1L, 0L, 1L, (long)vw}) {
        long p1 = i + a, p2 = i + a + b;
        if (p1 < 0 || p1 > n || p2 < 0 || p2 > n) continue;
        ++nlaw;
        auto it0 = v.begin() + i; auto it1x = it0 + a; auto it2 = it1x + b; auto it12 = it0 + (a + b);
        if (!(it2 == it12)) ++bad_assoc;
        auto itb = it1x; itb -= a; if (!(itb == it0)) ++bad_back;
        if ((it1x - it0) != a || (it0 - it1x) != -a) ++bad_dist;
        if ((it0 < it1x) != (a > 0) || (it0 > it1x) != (a < 0) || (it0 == it1x) != (a == 0) || (it0 <= it1x) != (a >= 0)) ++bad_order;
        if (p1 < n) { auto inc = it1x; ++inc; --inc; if (!(inc == it1x)) ++bad_incdec; }
    }
    e.num("nlaw", nlaw).num("bad_assoc", bad_assoc).num("bad_back", bad_back).num("bad_dist", bad_dist).num("bad_order", bad_order).num("bad_incdec", bad_incdec);
    // x / y axis iterators of the view
    long bad_axis = 0;
    for (int y = 0; y < vh; ++y) for (int a = 0; a <= vw; ++a) for (int b = 0; b <= vw; ++b) {
        auto i0 = v.row_begin(y) + a; auto i1 = v.row_begin(y) + b;
        if ((i1 - i0) != (b - a) || (i0 == i1) != (a == b)) ++bad_axis;
    }
    for (int x = 0; x < vw; ++x) for (int a = 0; a <= vh; ++a) for (int b = 0; b <= vh; ++b) {
        auto i0 = v.col_begin(x) + a; auto i1 = v.col_begin(x) + b;
        if ((i1 - i0) != (b - a) || (i0 == i1) != (a == b)) ++bad_axis;
    }
    e.num("bad_axis", bad_axis);
    e.emit();
}

template <class V> static void expand(const char* kind, int w, int h, std::vector<std::string> ops, V const& v, int depth) {
    emit_view(kind, w, h, ops, v);
    if (depth >= MAXDEPTH) return;
    auto with = [&](std::string o) { auto r = ops; r.push_back(o); return r; };
    int vw = (int)v.width(), vh = (int)v.height();
    expand(kind, w, h, with(opj("flipUD")), gil::flipped_up_down_view(v), depth + 1);
    expand(kind, w, h, with(opj("flipLR")), gil::flipped_left_right_view(v), depth + 1);
    expand(kind, w, h, with(opj("transposed")), gil::transposed_view(v), depth + 1);
    expand(kind, w, h, with(opj("rot90cw")), gil::rotated90cw_view(v), depth + 1);
    expand(kind, w, h, with(opj("rot90ccw")), gil::rotated90ccw_view(v), depth + 1);
    expand(kind, w, h, with(opj("rot180")), gil::rotated180_view(v), depth + 1);
    expand(kind, w, h, with(opj("subsampled", {2, 1})), gil::subsampled_view(v, 2, 1), depth + 1);
    expand(kind, w, h, with(opj("subsampled", {1, 2})), gil::subsampled_view(v, 1, 2), depth + 1);
    if (depth == 0) expand(kind, w, h, with(opj("subsampled", {2, 3})), gil::subsampled_view(v, gil::point_t(2, 3)), depth + 1);
    if (vw >= 2 && vh >= 2) expand(kind, w, h, with(opj("subimage", {1, 1, vw - 1, vh - 1})), gil::subimage_view(v, 1, 1, vw - 1, vh - 1), depth + 1);
    if (vw >= 1 && vh >= 1) expand(kind, w, h, with(opj("subimage", {0, 0, vw - 1, vh})), gil::subimage_view(v, gil::point_t(0, 0), gil::point_t(vw - 1, vh)), depth + 1);
    if (vw >= 1 && vh >= 2 && depth == 0) expand(kind, w, h, with(opj("subimage", {0, 1, vw, vh - 1})), gil::subimage_view(v, 0, 1, vw, vh - 1), depth + 1);
}

int main(int argc, char** argv) {
    vt::Args args(argc, argv); A = &args;
    vt::install_handlers();
    vt::T().open(args.out.c_str());
    MAXDEPTH = args.thorough() ? 3 : 2;
    int W = args.thorough() ? 4 : 4, H = args.thorough() ? 4 : 3;
    for (int w = 0; w <= W; ++w) for (int h = 0; h <= H; ++h) {
        if (w * h == 0 && w + h > 2) continue;
        vt::isolated([&] {
            vview_t v(gil::point_t(w, h), vloc_t(gil::point_t(0, 0), gil::point_t(1, 1), coord_fn()));
            expand("virtual", w, h, {}, v, 0);
        }, 120);
        vt::isolated([&] {
            gil::rgb16_image_t img(w, h);
            for (int y = 0; y < h; ++y) for (int x = 0; x < w; ++x) gil::view(img)(x, y) = gil::rgb16_pixel_t((std::uint16_t)(7 + x + 100 * y), 1, 2);
            expand("ccv", w, h, {}, gil::color_converted_view<gil::gray16_pixel_t>(gil::const_view(img), red_cc()), 0);
        }, 120);
        vt::isolated([&] {
            vview_t v(gil::point_t(w, h), vloc_t(gil::point_t(0, 0), gil::point_t(1, 1), coord_fn()));
            expand("virtcc", w, h, {}, gil::color_converted_view<gil::gray32_pixel_t>(v, widen_cc()), 0);
        }, 120);
    }
    J("End").num("events", vt::T().events).emit();
    vt::T().close();
    return 0;
}
