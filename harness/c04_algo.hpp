// C04 conformance driver templates: pixel algorithms over pairs of views of every organisation / shape.
// One event per algorithm call with the complete source and destination buffers before/after and, for
// every pixel of each view, the bit fields (position, width) of its channels in colour order.  The
// per-pixel loop and the frame condition are evaluated by TLC (Trace_PixelAlgo.tla).
#pragma once
#include <boost/gil.hpp>
#include <boost/mp11.hpp>
#include <vector>
#include <string>
#include "lib/trace.hpp"

namespace gil = boost::gil;
namespace mp = boost::mp11;
using vt::J;

namespace c04 {

// ---- field projection: for a pixel reference, the list of (bitpos, nbits) of its channels in SEMANTIC order,
//      positions relative to `base`; channels wider than 16 bits are split into 16-bit fields (little endian)
struct Fields { std::vector<long long> pos; std::vector<int> n; };

template <class Ch> struct chan_bits { static constexpr int value = int(sizeof(Ch) * 8); };
template <class B, int F, int N, bool M> struct chan_bits<gil::packed_channel_reference<B, F, N, M>> { static constexpr int value = N; };
template <class B, int N, bool M> struct chan_bits<gil::packed_dynamic_channel_reference<B, N, M>> { static constexpr int value = N; };
template <class B, int F, int N, bool M> struct chan_bits<const gil::packed_channel_reference<B, F, N, M>> { static constexpr int value = N; };
template <class B, int N, bool M> struct chan_bits<const gil::packed_dynamic_channel_reference<B, N, M>> { static constexpr int value = N; };

template <class Ch> long long chan_pos(Ch const& c, const unsigned char* base) { return ((const unsigned char*)&c - base) * 8ll; }
template <class B, int F, int N, bool M> long long chan_pos(gil::packed_channel_reference<B, F, N, M> const& c, const unsigned char* base) {
    return ((const unsigned char*)(&c) - base) * 8ll + F;
}
template <class B, int N, bool M> long long chan_pos(gil::packed_dynamic_channel_reference<B, N, M> const& c, const unsigned char* base) {
    return ((const unsigned char*)(&c) - base) * 8ll + (long long)c.first_bit();
}

template <class Ref> void add_fields(Ref const& r, const unsigned char* base, std::vector<long long>& out) {
    using P = typename std::remove_cv<typename std::remove_reference<Ref>::type>::type;
    mp::mp_for_each<mp::mp_iota_c<gil::num_channels<P>::value>>([&](auto K) {
        auto&& ch = gil::semantic_at_c<decltype(K)::value>(r);
        using Ch = typename std::remove_reference<decltype(ch)>::type;
        long long p = chan_pos(ch, base); int n = chan_bits<typename std::remove_cv<Ch>::type>::value;
        for (int o = 0; o < n; o += 16) { out.push_back(p + o); out.push_back(n - o < 16 ? n - o : 16); }
    });
}
// storage bits of a pixel that belong to no channel (unused bits of a packed_pixel's bit field): [pos, n] or empty
template <class Ref> void add_spare(Ref const&, const unsigned char*, std::vector<long long>&) {}
template <class B, class C, class L> void add_spare(gil::packed_pixel<B, C, L> const& p, const unsigned char* base, std::vector<long long>& out) {
    std::vector<long long> f; add_fields(p, base, f); long long used = 0; for (size_t i = 1; i < f.size(); i += 2) used += f[i];
    long long start = ((const unsigned char*)&p - base) * 8ll;
    for (long long o = used; o < (long long)sizeof(B) * 8; o += 16) { out.push_back(start + o); out.push_back(std::min<long long>(16, (long long)sizeof(B) * 8 - o)); }
}
template <class View> std::string spare_of(View const& v, const unsigned char* base) {
    std::vector<std::string> per;
    for (int y = 0; y < v.height(); ++y) for (int x = 0; x < v.width(); ++x) { std::vector<long long> f; add_spare(v(x, y), base, f); per.push_back(vt::jarr(f)); }
    return vt::jarr_raw(per);
}
template <class View> std::string fields_of(View const& v, const unsigned char* base) {
    // [[pos,n,pos,n,...] per pixel] in row-major order
    std::vector<std::string> per;
    for (int y = 0; y < v.height(); ++y) for (int x = 0; x < v.width(); ++x) { std::vector<long long> f; add_fields(v(x, y), base, f); per.push_back(vt::jarr(f)); }
    return vt::jarr_raw(per);
}
template <class P> std::string value_fields(P const& p) {
    // field VALUES of a pixel value in semantic order, split like the fields above
    std::vector<long long> out;
    mp::mp_for_each<mp::mp_iota_c<gil::num_channels<P>::value>>([&](auto K) {
        auto&& ch = gil::semantic_at_c<decltype(K)::value>(p);
        using Ch = typename std::remove_cv<typename std::remove_reference<decltype(ch)>::type>::type;
        int n = chan_bits<Ch>::value;
        unsigned long long bits = 0;
        if constexpr (std::is_same<Ch, gil::float32_t>::value || std::is_floating_point<Ch>::value) { float f = (float)ch; uint32_t u; memcpy(&u, &f, 4); bits = u; }
        else bits = (unsigned long long)(long long)ch & (n >= 64 ? ~0ull : ((1ull << n) - 1));
        for (int o = 0; o < n; o += 16) out.push_back((long long)((bits >> o) & 0xffff) & ((n - o) >= 16 ? 0xffff : ((1 << (n - o)) - 1)));
    });
    return vt::jarr(out);
}

// ---- buffers --------------------------------------------------------------------------------------
struct Buf {
    std::vector<unsigned char> bytes;
    unsigned char* data() { return bytes.data() + 16; }        // 16 canary bytes each side
    size_t size() const { return bytes.size() - 32; }
    explicit Buf(size_t n) : bytes(n + 32) {}
    void randomize(vt::Rng& r) { for (auto& b : bytes) b = (unsigned char)r.next(); }
    std::vector<unsigned char> snap() const { return bytes; }
};

// ---- view construction over a raw buffer, per organisation --------------------------------------
// Org<Tag> provides: native view type, make(w, h, rowunits pad, buffer) and required size
template <class Pixel, bool Planar> struct OrgMem {
    using view_t = typename gil::view_type_from_pixel<Pixel, Planar>::type;
    static constexpr bool bit = false;
    using ch_t = typename std::conditional<Planar, gil::channel_type<Pixel>, mp::mp_identity<unsigned char>>::type::type;   // only planar organisations need it
    static constexpr int nch = gil::num_channels<Pixel>::value;
    static size_t rowbytes(int w, int pad) { return (size_t)w * (Planar ? sizeof(ch_t) : sizeof(Pixel)) + (size_t)pad * (Planar ? sizeof(ch_t) : alignof(Pixel)); }
    static size_t need(int w, int h, int pad) { return rowbytes(w, pad) * h * (Planar ? nch : 1) + sizeof(Pixel); }
    static view_t make(int w, int h, int pad, unsigned char* d) {
        if constexpr (!Planar) return gil::interleaved_view(w, h, (Pixel*)d, rowbytes(w, pad));
        else {
            size_t rb = rowbytes(w, pad), plane = rb * h;
            static_assert(nch == 3, "planar organisations of the C04 driver are 3-channel");
            return gil::planar_rgb_view(w, h, (ch_t*)d, (ch_t*)(d + plane), (ch_t*)(d + 2 * plane), rb);
        }
    }
};
template <class Image> struct OrgBits {      // bit aligned image type: view over raw bytes with bit rows
    using view_t = typename Image::view_t;
    static constexpr bool bit = true;
    using ref_t = typename view_t::reference;
    static constexpr int psz = ref_t::bit_size;
    static size_t rowbits(int w, int pad) { return (size_t)w * psz + (size_t)pad * 3; }     // pad in odd bit units: rows start at any bit offset
    static size_t need(int w, int h, int pad) { return (rowbits(w, pad) * h + 7) / 8 + 9; }
    static view_t make(int w, int h, int pad, unsigned char* d) {
        using it_t = typename view_t::x_iterator;
        return view_t(w, h, typename view_t::locator(it_t(d, 0), rowbits(w, pad)));
    }
};

// shapes: how a view of logical size (w,h) is carved out of a larger native view
enum Shape { CONTIG, PADDED, SUBVIEW, FLIPLR, FLIPUD, SUBSAMPLED, TRANSPOSED, ROT90 };
inline const char* shape_name(Shape s) { static const char* n[] = {"contiguous", "padded", "subview", "flipLR", "flipUD", "subsampled", "transposed", "rot90cw"}; return n[s]; }

template <class Org> struct Shaped {
    using V = typename Org::view_t;
    using Vs = typename gil::dynamic_xy_step_type<V>::type;
    using Vt = typename gil::dynamic_xy_step_transposed_type<V>::type;
    static size_t need(Shape s, int w, int h) {
        switch (s) { case CONTIG: return Org::need(w, h, 0); case PADDED: return Org::need(w, h, 2); case SUBVIEW: return Org::need(w + 3, h + 2, 1);
                     case SUBSAMPLED: return Org::need(2 * w + 1, 2 * h + 1, 1); case TRANSPOSED: case ROT90: return Org::need(h, w, 1); default: return Org::need(w, h, 1); }
    }
    static V native(Shape s, int w, int h, unsigned char* d) {
        switch (s) { case CONTIG: return Org::make(w, h, 0, d); case PADDED: return Org::make(w, h, 2, d);
                     default: return gil::subimage_view(Org::make(w + 3, h + 2, 1, d), 2, 1, w, h); }
    }
    static Vs stepped(Shape s, int w, int h, unsigned char* d) {
        switch (s) { case FLIPLR: return gil::flipped_left_right_view(gil::subsampled_view(Org::make(w, h, 1, d), 1, 1));
                     case FLIPUD: return gil::flipped_up_down_view(gil::subsampled_view(Org::make(w, h, 1, d), 1, 1));
                     default: return gil::subsampled_view(Org::make(2 * w, 2 * h, 1, d), 2, 2); }
    }
    static Vt transposed(Shape s, int w, int h, unsigned char* d) {
        return s == TRANSPOSED ? gil::transposed_view(Org::make(h, w, 1, d)) : gil::rotated90cw_view(Org::make(h, w, 1, d));
    }
};

// ---- functors -----------------------------------------------------------------------------------
struct inv_ch { template <class C> void operator()(C& c) const { c = gil::channel_invert(c); } template <class C> void operator()(C const& c) const { c = gil::channel_invert(c); } };

static vt::Args* A = nullptr;

template <class VS, class VD>
void emit(const char* algo, const char* cname, const char* sshape, const char* dshape, VS const& sv, VD const& dv, Buf& sb, Buf& db,
          std::vector<unsigned char> const& dbefore, std::vector<unsigned char> const& sbefore, J& extra) {
    J j("Algo"); j.str("algo", algo).str("case", cname).str("sshape", sshape).str("dshape", dshape).num("w", dv.width()).num("h", dv.height());
    j.raw("sf", fields_of(sv, sb.bytes.data())).raw("df", fields_of(dv, db.bytes.data()));
    j.arr("src", sbefore).arr("src_after", sb.bytes).arr("dst", dbefore).arr("dst_after", db.bytes);
    std::string e = extra.done();                       // merge the extra fields
    std::string s = j.done(); s.pop_back();
    if (e.size() > 2) s += "," + e.substr(1); else s += "}";
    vt::T().line(s);
}


// integral = every channel is an unsigned integral bit field (invert is a bit flip); false for float organisations
template <class V> struct integral_view
    : std::integral_constant<bool, !std::is_same<typename std::remove_cv<typename std::remove_reference<typename gil::kth_element_type<typename V::value_type, 0>::type>::type>::type, gil::float32_t>::value> {};

template <class Ref> long long first_pos(Ref const& r, const unsigned char* base) { std::vector<long long> f; add_fields(r, base, f); return f.empty() ? -1 : f[0]; }

struct xor_ch { template <class A, class B, class C> void operator()(A const& a, B const& b, C& c) const { c = (unsigned long long)a ^ (unsigned long long)b; } };

// view classes
struct ClsN {}; struct ClsS {}; struct ClsT {};
template <class Org, class Cls> struct ViewOf;
template <class Org> struct ViewOf<Org, ClsN> { using type = typename Shaped<Org>::V; static std::vector<Shape> shapes() { return {CONTIG, PADDED, SUBVIEW}; }
    static type make(Shape s, int w, int h, unsigned char* d) { return Shaped<Org>::native(s, w, h, d); } };
template <class Org> struct ViewOf<Org, ClsS> { using type = typename Shaped<Org>::Vs; static std::vector<Shape> shapes() { return {FLIPLR, FLIPUD, SUBSAMPLED}; }
    static type make(Shape s, int w, int h, unsigned char* d) { return Shaped<Org>::stepped(s, w, h, d); } };
template <class Org> struct ViewOf<Org, ClsT> { using type = typename Shaped<Org>::Vt; static std::vector<Shape> shapes() { return {TRANSPOSED, ROT90}; }
    static type make(Shape s, int w, int h, unsigned char* d) { return Shaped<Org>::transposed(s, w, h, d); } };

// G: 1 = copy / copy_and_convert / generate / fill, 2 = for_each / transform (+ position variants), 3 = equal_pixels
template <class OrgS, class OrgD, class CS, class CD, int G>
void run_case(const char* cname) {
    using VS = typename ViewOf<OrgS, CS>::type; using VD = typename ViewOf<OrgD, CD>::type;
    using PD = typename VD::value_type;
    constexpr bool integral = integral_view<VD>::value && integral_view<VS>::value;
    vt::Rng rng(A->seed * 1315423911ull + std::hash<std::string>()(cname) + G);
    std::vector<std::pair<int,int>> sizes;
    for (int w : {0, 1, 2, 3, 4}) for (int h : {0, 1, 2, 3}) { if (A->thorough() || (w + h) % 2 == 0 || w * h <= 2) sizes.push_back({w, h}); }
    if (A->thorough()) { sizes.push_back({5, 4}); sizes.push_back({7, 2}); sizes.push_back({8, 1}); }
    for (auto wh : sizes) for (Shape ss : ViewOf<OrgS, CS>::shapes()) for (Shape ds : ViewOf<OrgD, CD>::shapes()) {
        int w = wh.first, h = wh.second;
        Buf sb(Shaped<OrgS>::need(ss, w, h)), db(Shaped<OrgD>::need(ds, w, h));
        VS sv = ViewOf<OrgS, CS>::make(ss, w, h, sb.data()); VD dv = ViewOf<OrgD, CD>::make(ds, w, h, db.data());
        auto run = [&](const char* algo, auto body) {
            sb.randomize(rng); db.randomize(rng);
            if (!integral) { for (size_t i = 3; i < sb.bytes.size(); i += 4) sb.bytes[i] &= 0x3F; for (size_t i = 3; i < db.bytes.size(); i += 4) db.bytes[i] &= 0x3F; }   // finite positive floats only
            auto s0 = sb.snap(), d0 = db.snap();
            J extra; extra.boolean("integral", integral);
            body(extra, s0, d0);
            J j("Algo"); j.str("algo", algo).str("case", cname).str("sshape", shape_name(ss)).str("dshape", shape_name(ds)).num("w", w).num("h", h);
            j.raw("sf", fields_of(sv, sb.bytes.data())).raw("df", fields_of(dv, db.bytes.data())).raw("dspare", spare_of(dv, db.bytes.data()));
            j.arr("src", s0).arr("src_after", sb.bytes).arr("dst", d0).arr("dst_after", db.bytes);
            std::string e = extra.done(), str = j.done(); str.pop_back(); str += "," + e.substr(1);
            vt::T().line(str);
        };
        if constexpr (G == 1) {
            run("copy", [&](J&, auto&, auto&) { gil::copy_pixels(sv, dv); });
            run("copy_and_convert", [&](J&, auto&, auto&) { gil::copy_and_convert_pixels(sv, dv); });
            run("generate", [&](J& x, auto&, auto&) { auto it = sv.begin(); long calls = 0; gil::generate_pixels(dv, [&]() { PD p(*it); ++it; ++calls; return p; }); x.num("ncalls", calls); });
            run("fill", [&](J& x, auto&, auto&) { PD val = PD(); if (w * h > 0) val = PD(sv(w - 1, h - 1)); x.raw("val", value_fields(val)); gil::fill_pixels(dv, val); });
            // the fill value may be any compatible pixel: here of the source organisation's value type (other channel order / packing)
            run("fill", [&](J& x, auto&, auto&) { using PS = typename VS::value_type; PS val = PS(); if (w * h > 0) val = PS(sv(w - 1, h - 1)); x.raw("val", value_fields(val)); gil::fill_pixels(dv, val); });
        } else if constexpr (G == 2) {
            run("for_each", [&](J& x, auto&, auto&) { std::vector<long long> calls;
                gil::for_each_pixel(dv, [&](typename VD::reference p) { calls.push_back(first_pos(p, db.bytes.data())); if (integral) gil::static_for_each(p, inv_ch()); }); x.arr("calls", calls); });
            run("for_each_position", [&](J& x, auto&, auto&) { std::vector<long long> calls;
                gil::for_each_pixel_position(dv, [&](typename VD::xy_locator loc) { calls.push_back(first_pos(*loc, db.bytes.data())); if (integral) gil::static_for_each(*loc, inv_ch()); }); x.arr("calls", calls); });
            run("transform1", [&](J& x, auto&, auto&) { std::vector<long long> calls;
                gil::transform_pixels(sv, dv, [&](typename VS::const_t::reference p) { calls.push_back(first_pos(p, sb.bytes.data())); PD r(p); if (integral) gil::static_for_each(r, inv_ch()); return r; }); x.arr("scalls", calls); });
            run("transform_positions1", [&](J& x, auto&, auto&) { std::vector<long long> calls;
                gil::transform_pixel_positions(sv, dv, [&](typename VS::xy_locator loc) { calls.push_back(first_pos(*loc, sb.bytes.data())); PD r(*loc); if (integral) gil::static_for_each(r, inv_ch()); return r; }); x.arr("scalls", calls); });
            if constexpr (integral) {
                run("transform2", [&](J& x, auto&, auto&) { std::vector<long long> calls;
                    gil::transform_pixels(sv, dv, dv, [&](typename VS::const_t::reference a, typename VD::const_t::reference b) { calls.push_back(first_pos(a, sb.bytes.data())); PD pa(a), pb(b), r; gil::static_transform(pa, pb, r, [](auto const& u, auto const& v) { return (decltype((unsigned long long)u ^ 0ull))((unsigned long long)u ^ (unsigned long long)v); }); return r; }); x.arr("scalls", calls); });
                run("transform_positions2", [&](J& x, auto&, auto&) { std::vector<long long> calls;
                    gil::transform_pixel_positions(sv, dv, dv, [&](typename VS::xy_locator a, typename VD::xy_locator b) { calls.push_back(first_pos(*a, sb.bytes.data())); PD pa(*a), pb(*b), r; gil::static_transform(pa, pb, r, [](auto const& u, auto const& v) { return (decltype((unsigned long long)u ^ 0ull))((unsigned long long)u ^ (unsigned long long)v); }); return r; }); x.arr("scalls", calls); });
            }
        } else {
            auto loopcopy = [&]() { for (int y = 0; y < h; ++y) for (int x = 0; x < w; ++x) { auto&& d = dv(x, y); gil::static_copy(PD(sv(x, y)), d); } };
            run("equal", [&](J& x, auto&, auto&) { x.boolean("ret", gil::equal_pixels(sv, dv)); });
            run("equal", [&](J& x, auto&, auto& d0) { loopcopy(); d0 = db.snap(); x.boolean("ret", gil::equal_pixels(sv, dv)); });
            // a single differing pixel at every position
            for (int py = 0; py < h; ++py) for (int px = 0; px < w; ++px)
                run("equal", [&](J& x, auto&, auto& d0) { loopcopy(); { auto&& d = dv(px, py); PD t(d); gil::static_for_each(t, inv_ch()); gil::static_copy(t, d); if (!integral) { PD z = PD(); if (PD(sv(px, py)) == z) { } } }
                    d0 = db.snap(); x.boolean("ret", gil::equal_pixels(sv, dv)); x.num("px", px).num("py", py); });
        }
    }
}
} // namespace c04
