#!/usr/bin/env python3
"""Case table of the C04 driver: (name, OrgS, OrgD, ClsS, ClsD, group).  Used by the runner to generate compile probes and the
driver translation units (so that one uninstantiable template combination is an observed event, not a build failure)."""
ORGS = {
 'gray8':   'c04::OrgMem<gil::gray8_pixel_t,false>',
 'rgb8':    'c04::OrgMem<gil::rgb8_pixel_t,false>',
 'bgr8':    'c04::OrgMem<gil::bgr8_pixel_t,false>',
 'rgb8p':   'c04::OrgMem<gil::rgb8_pixel_t,true>',
 'rgb16':   'c04::OrgMem<gil::rgb16_pixel_t,false>',
 'rgb16p':  'c04::OrgMem<gil::rgb16_pixel_t,true>',
 'rgb32f':  'c04::OrgMem<gil::rgb32f_pixel_t,false>',
 'rgb32fp': 'c04::OrgMem<gil::rgb32f_pixel_t,true>',
 'rgba8':   'c04::OrgMem<gil::rgba8_pixel_t,false>',
 'abgr8':   'c04::OrgMem<gil::abgr8_pixel_t,false>',
 'p565':    'c04::OrgMem<gil::packed_pixel_type<uint16_t, boost::mp11::mp_list_c<unsigned,5,6,5>, gil::rgb_layout_t>::type,false>',
 'p555':    'c04::OrgMem<gil::packed_pixel_type<uint16_t, boost::mp11::mp_list_c<unsigned,5,5,5>, gil::rgb_layout_t>::type,false>',
 'b565':    'c04::OrgBits<gil::bit_aligned_image3_type<5,6,5,gil::rgb_layout_t>::type>',
 'b1':      'c04::OrgBits<gil::bit_aligned_image1_type<1,gil::gray_layout_t>::type>',
 'b2':      'c04::OrgBits<gil::bit_aligned_image1_type<2,gil::gray_layout_t>::type>',
 'b222':    'c04::OrgBits<gil::bit_aligned_image3_type<2,2,2,gil::rgb_layout_t>::type>',
 'b121':    'c04::OrgBits<gil::bit_aligned_image3_type<1,2,1,gil::bgr_layout_t>::type>',
}
PAIRS = [('gray8','gray8'), ('rgb8','rgb8'), ('rgb8','bgr8'), ('bgr8','rgb8'), ('rgb8','rgb8p'), ('rgb8p','rgb8'), ('rgb8p','rgb8p'), ('bgr8','rgb8p'),
         ('rgb16','rgb16'), ('rgb16','rgb16p'), ('rgb16p','rgb16'), ('rgb16p','rgb16p'), ('rgb32f','rgb32f'), ('rgb32f','rgb32fp'), ('rgb32fp','rgb32fp'),
         ('rgba8','abgr8'), ('abgr8','rgba8'), ('rgba8','rgba8'),
         ('p565','p565'), ('p555','p555'), ('p565','b565'), ('b565','p565'), ('b565','b565'), ('b1','b1'), ('b2','b2'), ('b222','b222'), ('b121','b121')]
FULLCLS = {('gray8','gray8'), ('rgb8','rgb8'), ('rgb8','rgb8p'), ('rgb8p','rgb8'), ('rgb8p','rgb8p'), ('rgb16p','rgb16p'), ('p565','p565'), ('b565','b565'), ('b1','b1'), ('b222','b222'), ('rgb8','bgr8')}
CLSPAIRS = [('N','N'), ('N','S'), ('S','N'), ('S','S'), ('N','T'), ('T','N')]
GROUPS = {1: 'copy/copy_and_convert/generate/fill', 2: 'for_each/for_each_position/transform(1,2 sources)/transform_positions', 3: 'equal_pixels'}

def cases():
    out = []
    for (s, d) in PAIRS:
        for (cs, cd) in CLSPAIRS:
            if (cs, cd) != ('N', 'N') and (s, d) not in FULLCLS:
                continue
            for g in (1, 2, 3):
                name = '%s:%s->%s:%s/g%d' % (s, cs, d, cd, g)
                out.append((name, ORGS[s], ORGS[d], 'c04::Cls' + cs, 'c04::Cls' + cd, g))
    return out

if __name__ == '__main__':
    print(len(cases()))
