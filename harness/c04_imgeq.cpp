// C04: image equality (operator== / operator!=) equals "same dimensions and the obvious loop finds no differing pixel",
// for every pair of shapes up to a bound (including empty and equal-area shapes) and several organisations.
#include <boost/gil.hpp>
#include <cmath>
#include "lib/trace.hpp"
namespace gil = boost::gil;
using vt::J;
static vt::Args* A;
static long g_idx = 0;
static bool mine() { return (g_idx++ % A->nshards) == A->shard; }

template <class C> long long cmax() { if constexpr (std::is_same<C, gil::float32_t>::value) return 100; else return (long long)gil::channel_traits<C>::max_value(); }
template <class C> void cset(C& c, long long v) { if constexpr (std::is_same<C, gil::float32_t>::value) c = (float)v / 128.0f; else c = (C)v; }
template <class C> long cget(C const& c) { if constexpr (std::is_same<C, gil::float32_t>::value) return (long)std::lround((float)c * 128.0f); else return (long)c; }
template <class View> std::vector<long> flat(View const& v) {
    std::vector<long> r;
    for (int y = 0; y < v.height(); ++y) for (int x = 0; x < v.width(); ++x) { typename View::value_type p(v(x, y)); gil::static_for_each(p, [&](auto const& c) { r.push_back(cget(c)); }); }
    return r;
}
template <class Img> void paint(Img& img, std::vector<int> const& seq, int offset) {
    size_t i = 0; auto v = gil::view(img);
    for (int y = 0; y < v.height(); ++y) for (int x = 0; x < v.width(); ++x) {
        typename Img::value_type p; gil::static_for_each(p, [&](auto& c) { using C = typename std::remove_reference<decltype(c)>::type; cset(c, (seq[i % seq.size()] + offset) % (cmax<C>() + 1)); ++i; });
        v(x, y) = p; }
}
template <class Img> void pairs(const char* type) {
    static const int dims[][2] = {{0, 0}, {0, 2}, {2, 0}, {1, 1}, {1, 2}, {2, 1}, {2, 2}, {1, 4}, {4, 1}, {2, 3}, {3, 2}, {1, 6}, {6, 1}};
    vt::Rng rng(A->seed * 3 + 17);
    std::vector<int> seq; for (int i = 0; i < 64; ++i) seq.push_back(1 + (int)rng.below(200));
    for (auto& a : dims) for (auto& b : dims) {
        if (!mine()) continue;
        for (int variant = 0; variant < 3; ++variant) {         // 0: same row-major sequence, 1: one value differs at the end, 2: unrelated contents
            Img x(a[0], a[1]), y(b[0], b[1]);
            paint(x, seq, 0); paint(y, seq, variant == 2 ? 7 : 0);
            if (variant == 1 && y.width() * y.height() > 0) { auto v = gil::view(y); auto p = typename Img::value_type(v(v.width() - 1, v.height() - 1)); gil::static_for_each(p, [&](auto& c) { cset(c, cget(c) == 1 ? 2 : 1); }); v(v.width() - 1, v.height() - 1) = p; }
            bool eq = (x == y), ne = (x != y);
            J("ImgEq").str("type", type).num("w1", a[0]).num("h1", a[1]).num("w2", b[0]).num("h2", b[1]).num("variant", variant)
                .arr("p1", flat(gil::const_view(x))).arr("p2", flat(gil::const_view(y))).boolean("eq", eq).boolean("ne", ne).emit();
        }
    }
}
int main(int argc, char** argv) {
    vt::Args args(argc, argv); A = &args; vt::install_handlers(); vt::T().open(args.out.c_str());
    vt::isolated([&] { pairs<gil::gray8_image_t>("gray8"); pairs<gil::rgb8_image_t>("rgb8"); pairs<gil::rgb8_planar_image_t>("rgb8_planar"); }, 300);
    vt::isolated([&] { pairs<gil::rgb16_image_t>("rgb16"); pairs<gil::rgba8_planar_image_t>("rgba8_planar"); pairs<gil::gray32f_image_t>("gray32f"); }, 300);
    J("End").num("events", vt::T().events).emit(); vt::T().close(); return 0;
}
