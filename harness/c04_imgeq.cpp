// C04: image equality (operator== / operator!=) equals "same dimensions and the obvious loop finds no differing pixel",
// for every pair of shapes up to a bound (including empty and equal-area shapes) and several organisations.
#include <boost/gil.hpp>
#include <cmath>
#include "lib/trace.hpp"
namespace gil = boost::gil;
using vt::J;
static vt::Args* A;
static long g_idx = 0;
static bool mine() { return (g_idx++ % A->nshards) == A->shard; }

template <class C> long long cmax() { if constexpr (std::is_same<C, gil::float32_t>::value) return 100; else return (long long)gil::channel_traits<C>::max_value(); }
template <class C> void cset(C& c, long long v) { if constexpr (std::is_same<C, gil::float32_t>::value) c = (float)v / 128.0f; else c = (C)v; }
template <class C> long cget(C const& c) { if constexpr (std::is_same<C, gil::float32_t>::value) return (long)std::lround((float)c * 128.0f); else return (long)c; }
template <class View> std::vector<long> flat(View const& v) {
    std::vector<long> r;
    for (int y = 0; y < v.height(); ++y) for (int x = 0; x < v.width(); ++x) { typename View::value_type p(v(x, y)); gil::static_for_each(p, [&](auto const& c) { r.push_back(cget(c)); }); }
    return r;
}
template <class Img> void paint(Img& img, std::vector<int> const& seq, int offset) {
    size_t i = 0; auto v = gil::view(img);
    for (int y = 0; y < v.height(); ++y) for (int x = 0; x < v.width(); ++x) {
        typename Img::value_type p; gil::static_for_each(p, [&](auto& c) { using C = typename std::remove_reference<decltype(c)>::type; cset(c, (seq[i % seq.size()] + offset) % (cmax<C>() + 1)); ++i; });
        v(x, y) = p; }
}
template <class Img> void pairs(const char* type) {
    static const int dims[][2] = {{0, 0}, {0, 2}, {2, 0}, {1, 1}, {1, 2}, {2, 1}, {2, 2}, {1, 4}, {4, 1}, {2, 3}, {3, 2}, {1, 6}, {6, 1}};
    vt::Rng rng(A->seed * 3 + 17);
    std::vector<int> seq; for (int i = 0; i < 64; ++i) seq.push_back(1 + (int)rng.below(200));
    for (auto& a : dims) for (auto& b : dims) {
        if (!mine()) continue;
        for (int variant = 0; variant < 3; ++variant) {         // 0: same row-major sequence, 1: one value differs at the end, 2: unrelated contents
            Img x(a[0], a[1]), y(b[0], b[1]);
            paint(x, seq, 0); paint(y, seq, variant == 2 ? 7 : 0);
            if (variant == 1 && y.width() * y.height() > 0) { auto v = gil::view(y); auto p = typename Img::value_type(v(v.width() - 1, v.height() - 1)); gil::static_for_each(p, [&](auto& c) { cset(c, cget(c) == 1 ? 2 : 1); }); v(v.width() - 1, v.height() - 1) = p; }
            bool eq = (x == y), ne = (x != y);
            J("ImgEq").str("type", type).num("w1", a[0]).num("h1", a[1]).num("w2", b[0]).num("h2", b[1]).num("variant", variant)
                .arr("p1", flat(gil::const_view(x))).arr("p2", flat(gil::const_view(y))).boolean("eq", eq).boolean("ne", ne).emit();
        }
    }
}
// ---- functors that carry state BY VALUE: the algorithms equal the row-major loop run with ONE functor object, whether or not the view is 1-D traversable ----
struct SGen { int n = 0; gil::gray8_pixel_t operator()() { return gil::gray8_pixel_t((std::uint8_t)(n++)); } };
struct SEach { int n = 0; void operator()(gil::gray8_pixel_t& p) { p[0] = (std::uint8_t)(p[0] + n++); } };
struct STr1 { int n = 0; gil::gray8_pixel_t operator()(gil::gray8_pixel_t const& a) { return gil::gray8_pixel_t((std::uint8_t)(a[0] + n++)); } };
struct STr2 { int n = 0; gil::gray8_pixel_t operator()(gil::gray8_pixel_t const& a, gil::gray8_pixel_t const& b) { return gil::gray8_pixel_t((std::uint8_t)(a[0] + 2 * b[0] + n++)); } };
static void stateful() {
    vt::Rng rng(A->seed * 5 + 29);
    for (int w = 0; w <= 4; ++w) for (int h = 0; h <= 3; ++h) for (int shape = 0; shape < 3; ++shape) {
        if (!mine()) continue;
        // shape 0: contiguous image; 1: sub-view of a larger image; 2: rows padded by alignment
        auto mk = [&](gil::gray8_image_t& img) { if (shape == 0) img.recreate(w, h); else if (shape == 1) img.recreate(w + 2, h + 2); else img.recreate(w, h, 8);
                                                 for (auto& p : gil::view(img)) p[0] = (std::uint8_t)rng.below(100); };
        auto vw = [&](gil::gray8_image_t& img) { return shape == 1 ? gil::subimage_view(gil::view(img), 1, 1, w, h) : gil::subimage_view(gil::view(img), 0, 0, w, h); };
        const char* sn = shape == 0 ? "contiguous" : shape == 1 ? "subview" : "padded";
        { gil::gray8_image_t d; mk(d); auto v = vw(d); gil::generate_pixels(v, SGen());
          J("Stateful").str("algo", "generate").str("shape", sn).num("w", w).num("h", h).arr("s1", std::vector<long>{}).arr("s2", std::vector<long>{}).arr("out", flat(v)).num("retn", -1).emit(); }
        { gil::gray8_image_t d; mk(d); auto v = vw(d); auto before = flat(v); auto r = gil::for_each_pixel(v, SEach());
          J("Stateful").str("algo", "for_each").str("shape", sn).num("w", w).num("h", h).arr("s1", before).arr("s2", std::vector<long>{}).arr("out", flat(v)).num("retn", r.n).emit(); }
        { gil::gray8_image_t a, d; mk(a); mk(d); auto va = vw(a); auto v = vw(d); auto r = gil::transform_pixels(va, v, STr1());
          J("Stateful").str("algo", "transform1").str("shape", sn).num("w", w).num("h", h).arr("s1", flat(va)).arr("s2", std::vector<long>{}).arr("out", flat(v)).num("retn", r.n).emit(); }
        { gil::gray8_image_t a, b, d; mk(a); mk(b); mk(d); auto va = vw(a); auto vb = vw(b); auto v = vw(d); auto r = gil::transform_pixels(va, vb, v, STr2());
          J("Stateful").str("algo", "transform2").str("shape", sn).num("w", w).num("h", h).arr("s1", flat(va)).arr("s2", flat(vb)).arr("out", flat(v)).num("retn", r.n).emit(); }
    }
}
// ---- equal_pixels of two views of ONE type that start at the same pixel and have the same size but walk the storage with different steps ----
static void shared_origin() {
    vt::Rng rng(A->seed * 7 + 31);
    for (int w = 1; w <= 3; ++w) for (int h = 1; h <= 3; ++h) for (int variant = 0; variant < 2; ++variant) {
        if (!mine()) continue;
        gil::gray8_image_t img(3 * w + 3, 3 * h + 3);
        for (auto& p : gil::view(img)) p[0] = variant == 0 ? (std::uint8_t)(1 + rng.below(200)) : (std::uint8_t)77;      // variant 1: constant image, the two walks see equal pixels
        auto v2 = gil::subimage_view(gil::subsampled_view(gil::const_view(img), 2, 2), 0, 0, w, h);
        auto v3 = gil::subimage_view(gil::subsampled_view(gil::const_view(img), 3, 3), 0, 0, w, h);
        auto vx = gil::subimage_view(gil::subsampled_view(gil::const_view(img), 3, 2), 0, 0, w, h);
        J("PixEq").str("how", "steps 2,2 vs 3,3").num("w", w).num("h", h).arr("p1", flat(v2)).arr("p2", flat(v3)).boolean("ret", gil::equal_pixels(v2, v3)).emit();
        J("PixEq").str("how", "steps 2,2 vs 3,2").num("w", w).num("h", h).arr("p1", flat(v2)).arr("p2", flat(vx)).boolean("ret", gil::equal_pixels(v2, vx)).emit();
        J("PixEq").str("how", "same view").num("w", w).num("h", h).arr("p1", flat(v2)).arr("p2", flat(v2)).boolean("ret", gil::equal_pixels(v2, v2)).emit();
    }
}
int main(int argc, char** argv) {
    vt::Args args(argc, argv); A = &args; vt::install_handlers(); vt::T().open(args.out.c_str());
    vt::isolated([&] { pairs<gil::gray8_image_t>("gray8"); pairs<gil::rgb8_image_t>("rgb8"); pairs<gil::rgb8_planar_image_t>("rgb8_planar"); }, 300);
    vt::isolated([&] { pairs<gil::rgb16_image_t>("rgb16"); pairs<gil::rgba8_planar_image_t>("rgba8_planar"); pairs<gil::gray32f_image_t>("gray32f"); }, 300);
    vt::isolated([&] { stateful(); shared_origin(); }, 300);
    J("End").num("events", vt::T().events).emit(); vt::T().close(); return 0;
}
