// C05 conformance driver: construction / assignment / equality between compatible pixels of every model
// and layout, channel access (at_c, semantic_at_c, get_color, operator[]), and the static_* color base
// algorithms.  Physical channel values are read from raw memory, independently of the accessors under
// test.  Validated by Trace_ColorBase.tla.
#include <boost/gil.hpp>
#include <boost/mp11.hpp>
#include <algorithm>
#include "lib/trace.hpp"

namespace gil = boost::gil;
namespace mp = boost::mp11;
using vt::J;
static vt::Args* A;
static int g_idx = 0;
static bool mine() { return (g_idx++ % A->nshards) == A->shard; }

template <class P> std::vector<long long> mapping_of() {
    std::vector<long long> m;
    using map_t = typename gil::channel_mapping_type<P>::type;
    mp::mp_for_each<map_t>([&](auto I) { m.push_back(decltype(I)::value); });
    return m;
}

// ---- models: a holder owning storage, exposing the pixel object `ref()`, raw physical access -------------
template <class L> struct MPixel {                         // pixel<uint8_t, L> value
    using pix_t = gil::pixel<uint8_t, L>; using obj_t = pix_t; using value_t = pix_t;
    static constexpr int n = gil::num_channels<pix_t>::value; static constexpr int maxv = 255;
    pix_t p; pix_t& ref() { return p; }
    static std::string name() { std::string s = "pixel8<"; for (auto v : mapping_of<pix_t>()) s += char('0' + v); return s + ">"; }
    void set(const std::vector<long long>& v) { for (int k = 0; k < n; ++k) reinterpret_cast<uint8_t*>(&p)[k] = (uint8_t)v[k]; }
    std::vector<long long> get() const { std::vector<long long> v; for (int k = 0; k < n; ++k) v.push_back(reinterpret_cast<const uint8_t*>(&p)[k]); return v; }
};
template <class L> struct MPixel16 {                       // pixel<uint16_t, L> value (compatible with nothing 8-bit: own family)
    using pix_t = gil::pixel<uint16_t, L>; using obj_t = pix_t; using value_t = pix_t;
    static constexpr int n = gil::num_channels<pix_t>::value; static constexpr int maxv = 65535;
    pix_t p; pix_t& ref() { return p; }
    static std::string name() { std::string s = "pixel16<"; for (auto v : mapping_of<pix_t>()) s += char('0' + v); return s + ">"; }
    void set(const std::vector<long long>& v) { for (int k = 0; k < n; ++k) reinterpret_cast<uint16_t*>(&p)[k] = (uint16_t)v[k]; }
    std::vector<long long> get() const { std::vector<long long> v; for (int k = 0; k < n; ++k) v.push_back(reinterpret_cast<const uint16_t*>(&p)[k]); return v; }
};
template <class CS, int N> struct MPlanarBase { uint8_t c[N]; };
template <class CS> struct MPlanar3 : MPlanarBase<CS, 3> {            // planar_pixel_reference over three separate bytes
    using obj_t = gil::planar_pixel_reference<uint8_t&, CS>; using value_t = gil::pixel<uint8_t, gil::layout<CS>>;
    static constexpr int n = 3; static constexpr int maxv = 255;
    obj_t r; MPlanar3() : r(this->c[0], this->c[1], this->c[2]) {} MPlanar3(const MPlanar3&) = delete;
    obj_t& ref() { return r; }
    static std::string name() { return "planar_ref3"; }
    void set(const std::vector<long long>& v) { for (int k = 0; k < 3; ++k) this->c[k] = (uint8_t)v[k]; }
    std::vector<long long> get() const { return {this->c[0], this->c[1], this->c[2]}; }
};
template <class CS> struct MPlanar4 : MPlanarBase<CS, 4> {
    using obj_t = gil::planar_pixel_reference<uint8_t&, CS>; using value_t = gil::pixel<uint8_t, gil::layout<CS>>;
    static constexpr int n = 4; static constexpr int maxv = 255;
    obj_t r; MPlanar4() : r(this->c[0], this->c[1], this->c[2], this->c[3]) {} MPlanar4(const MPlanar4&) = delete;
    obj_t& ref() { return r; }
    static std::string name() { return "planar_ref4"; }
    void set(const std::vector<long long>& v) { for (int k = 0; k < 4; ++k) this->c[k] = (uint8_t)v[k]; }
    std::vector<long long> get() const { return {this->c[0], this->c[1], this->c[2], this->c[3]}; }
};
template <class BF, class L, unsigned... Cs> struct MPacked {          // packed_pixel value; physical k = k-th bit range from bit 0
    using pix_t = typename gil::packed_pixel_type<BF, mp::mp_list_c<unsigned, Cs...>, L>::type; using obj_t = pix_t; using value_t = pix_t;
    static constexpr int n = sizeof...(Cs); static constexpr int maxv = 15;
    pix_t p; pix_t& ref() { return p; }
    static std::vector<int> cs() { return {int(Cs)...}; }
    static std::string name() { std::string s = "packed<"; for (int c : cs()) s += std::to_string(c); s += ":"; for (auto v : mapping_of<pix_t>()) s += char('0' + v); return s + ">"; }
    bool spare_ones = false;       // value of the bit field's unused bits written by set()
    void set(const std::vector<long long>& v) { BF b = spare_ones ? (BF)~(BF)0 : (BF)0; int sh = 0; for (int k = 0; k < n; ++k) { BF m = (BF)(((1u << cs()[k]) - 1) << sh); b = (BF)((b & ~m) | (((BF)v[k] << sh) & m)); sh += cs()[k]; } p._bitfield = b; }
    std::vector<long long> get() const { std::vector<long long> v; int sh = 0; for (int k = 0; k < n; ++k) { v.push_back((p._bitfield >> sh) & ((1u << cs()[k]) - 1)); sh += cs()[k]; } return v; }
};
template <class BF, class L, int... Cs> struct MBits {                 // bit_aligned_pixel_reference at bit offset 3 of a byte buffer
    using obj_t = gil::bit_aligned_pixel_reference<BF, mp::mp_list_c<int, Cs...>, L, true>; using value_t = typename obj_t::value_type;
    static constexpr int n = sizeof...(Cs); static constexpr int maxv = (1 << std::min({Cs...})) - 1;
    unsigned char buf[8]; obj_t r; MBits() : buf{0xAA, 0x55, 0xAA, 0x55, 0xAA, 0x55, 0xAA, 0x55}, r(buf, 3) {} MBits(const MBits&) = delete;
    obj_t& ref() { return r; }
    static std::vector<int> cs() { return {Cs...}; }
    static std::string name() { std::string s = "bit_aligned_ref<"; for (int c : cs()) s += std::to_string(c); s += ":"; for (auto v : mapping_of<obj_t>()) s += char('0' + v); return s + ">"; }
    uint64_t word() const { uint64_t w = 0; memcpy(&w, buf, 8); return w; }
    void set(const std::vector<long long>& v) { uint64_t w = word(); int sh = 3; for (int k = 0; k < n; ++k) { uint64_t m = ((1ull << cs()[k]) - 1) << sh; w = (w & ~m) | (((uint64_t)v[k] << sh) & m); sh += cs()[k]; } memcpy(buf, &w, 8); }
    std::vector<long long> get() const { std::vector<long long> v; uint64_t w = word(); int sh = 3; for (int k = 0; k < n; ++k) { v.push_back((long long)((w >> sh) & ((1ull << cs()[k]) - 1))); sh += cs()[k]; } return v; }
};

template <class M> std::vector<long long> distinct_vals(int base) { std::vector<long long> v; for (int k = 0; k < M::n; ++k) v.push_back((base + 3 * k + 1) % (M::maxv + 1)); return v; }

template <class M> auto set_spare_impl(M& m, int) -> decltype(m.spare_ones = true, void()) { m.spare_ones = true; }
template <class M> void set_spare_impl(M&, long) {}
template <class M> void set_spare(M& m) { set_spare_impl(m, 0); }
template <class T> struct is_value_model : std::is_same<typename T::obj_t, typename T::value_t> {};

// ---- events --------------------------------------------------------------------------------------------
template <class S, class D> void assign_pair() {
    if (!mine()) return;
    for (int rep = 0; rep < 3; ++rep) {
        S s; D d;
        auto sv = distinct_vals<S>(1 + 5 * rep); s.set(sv); d.set(distinct_vals<D>(7 + rep));
        // assignment
        d.ref() = s.ref();
        bool eq = d.ref() == s.ref(), ne = d.ref() != s.ref();
        auto after = d.get();
        // perturb one physical channel of dst: must no longer be equal
        auto pert = after; pert[rep % D::n] = (pert[rep % D::n] + 1) % (D::maxv + 1); D d2; d2.set(pert);
        bool eqp = d2.ref() == s.ref();
        // two objects of the destination type holding the same colours compare equal, whatever their unused bits hold
        D d4; set_spare(d4); d4.set(distinct_vals<D>(3)); d4.ref() = s.ref(); bool eqs = (d.ref() == d4.ref()) && !(d.ref() != d4.ref());
        J("Assign").str("how", "assign").boolean("eq_same", eqs).str("src", S::name()).str("dst", D::name()).arr("smap", mapping_of<typename S::obj_t>()).arr("dmap", mapping_of<typename D::obj_t>())
            .arr("sphys", s.get()).arr("after", after).boolean("eq", eq).boolean("ne", ne).boolean("eq_perturbed", eqp).emit();
        // converting construction of D's value type from the source object
        if constexpr (is_value_model<D>::value) {
            typename D::value_t v(s.ref());
            D d3; d3.p = v;
            J("Assign").str("how", "construct").str("src", S::name()).str("dst", D::name()).arr("smap", mapping_of<typename S::obj_t>()).arr("dmap", mapping_of<typename D::obj_t>())
                .arr("sphys", s.get()).arr("after", d3.get()).boolean("eq", d3.ref() == s.ref()).boolean("ne", d3.ref() != s.ref()).boolean("eq_perturbed", false).emit();
        }
    }
}

// assignment between two bit-aligned references INTO THE SAME BUFFER (pixels that share a byte, pixels in different bytes): rows are shifted and
// sorted this way.  Reported as an Assign event of the reference type onto itself, plus the pixels that must not change.
template <class BF, class L, int... Cs> void neighbours() {
    if (!mine()) return;
    using obj_t = gil::bit_aligned_pixel_reference<BF, mp::mp_list_c<int, Cs...>, L, true>;
    const std::vector<int> cs = {Cs...}; int bits = 0; for (int c : cs) bits += c; const int n = (int)cs.size(); const int NP = 6;
    std::string name = "bit_aligned_ref<"; for (int c : cs) name += std::to_string(c); name += ":"; for (auto v : mapping_of<obj_t>()) name += char('0' + v); name += ">";
    auto getb = [&](unsigned char const* b, int pos, int wd) { long long v = 0; for (int i = 0; i < wd; ++i) v |= (long long)((b[(pos + i) / 8] >> ((pos + i) % 8)) & 1) << i; return v; };
    auto putb = [&](unsigned char* b, int pos, int wd, long long v) { for (int i = 0; i < wd; ++i) { b[(pos + i) / 8] = (unsigned char)((b[(pos + i) / 8] & ~(1u << ((pos + i) % 8))) | (((v >> i) & 1) << ((pos + i) % 8))); } };
    auto pix = [&](unsigned char const* b, int i) { std::vector<long long> v; int pos = i * bits; for (int k = 0; k < n; ++k) { v.push_back(getb(b, pos, cs[k])); pos += cs[k]; } return v; };
    for (int i = 0; i < NP; ++i) for (int j = 0; j < NP; ++j) { if (i == j) continue;
        unsigned char buf[16]; for (int q = 0; q < 16; ++q) buf[q] = (unsigned char)(0x5A ^ (q * 37));
        for (int q = 0; q < NP; ++q) { int pos = q * bits; for (int k = 0; k < n; ++k) { putb(buf, pos, cs[k], (q * 3 + k * 5 + 1) % (1 << cs[k])); pos += cs[k]; } }
        unsigned char before[16]; memcpy(before, buf, 16);
        obj_t ri(buf + (i * bits) / 8, (i * bits) % 8), rj(buf + (j * bits) / 8, (j * bits) % 8);
        ri = rj;
        bool eq = ri == rj, ne = ri != rj; bool others = true;
        for (int q = 0; q < NP; ++q) if (q != i && pix(buf, q) != pix(before, q)) others = false;
        for (int b = NP * bits; b < 128; ++b) if (getb(buf, b, 1) != getb(before, b, 1)) others = false;
        J("Assign").str("how", "neighbour").str("src", name).str("dst", name + (((i * bits) / 8 == (j * bits) / 8) ? "/same-byte" : "/other-byte")).arr("smap", mapping_of<obj_t>()).arr("dmap", mapping_of<obj_t>())
            .arr("sphys", pix(before, j)).arr("after", pix(buf, i)).boolean("eq", eq).boolean("ne", ne).boolean("eq_perturbed", false).boolean("others_kept", others).emit();
    }
}

template <class M> void access_model() {
    if (!mine()) return;
    M m; m.set(distinct_vals<M>(2));
    std::vector<long long> atc, sem;
    mp::mp_for_each<mp::mp_iota_c<M::n>>([&](auto K) { atc.push_back((long long)(unsigned long long)gil::at_c<decltype(K)::value>(m.ref())); sem.push_back((long long)(unsigned long long)gil::semantic_at_c<decltype(K)::value>(m.ref())); });
    J j("Access"); j.str("model", M::name()).arr("map", mapping_of<typename M::obj_t>()).arr("phys", m.get()).arr("atc", atc).arr("sem", sem);
    {   // the value type the library associates with the K-th physical / K-th semantic channel: their largest values (widths of heterogeneous packed pixels)
        std::vector<long long> pmax, smax;
        mp::mp_for_each<mp::mp_iota_c<M::n>>([&](auto K) { constexpr int k = decltype(K)::value; using O = typename M::obj_t;
            pmax.push_back((long long)(unsigned long long)gil::channel_traits<typename gil::kth_element_type<O, k>::type>::max_value());
            smax.push_back((long long)(unsigned long long)gil::channel_traits<typename gil::kth_semantic_element_type<O, k>::type>::max_value()); });
        j.arr("phys_max", pmax).arr("sem_max", smax);
    }
    using cs_t = typename gil::color_space_type<typename M::obj_t>::type;
    if constexpr (std::is_same<cs_t, gil::rgb_t>::value) {
        std::vector<long long> nm = {(long long)(unsigned long long)gil::get_color(m.ref(), gil::red_t()), (long long)(unsigned long long)gil::get_color(m.ref(), gil::green_t()), (long long)(unsigned long long)gil::get_color(m.ref(), gil::blue_t())};
        j.arr("named", nm);
    } else if constexpr (std::is_same<cs_t, gil::rgba_t>::value) {
        std::vector<long long> nm = {(long long)(unsigned long long)gil::get_color(m.ref(), gil::red_t()), (long long)(unsigned long long)gil::get_color(m.ref(), gil::green_t()), (long long)(unsigned long long)gil::get_color(m.ref(), gil::blue_t()), (long long)(unsigned long long)gil::get_color(m.ref(), gil::alpha_t())};
        j.arr("named", nm);
    }
    j.emit();
}
template <class L> void index_model() {      // operator[] of homogeneous pixel values
    if (!mine()) return;
    MPixel<L> m; m.set(distinct_vals<MPixel<L>>(4));
    std::vector<long long> idx, atc, sem;
    for (int k = 0; k < MPixel<L>::n; ++k) idx.push_back(m.p[k]);
    mp::mp_for_each<mp::mp_iota_c<MPixel<L>::n>>([&](auto K) { atc.push_back(gil::at_c<decltype(K)::value>(m.p)); sem.push_back(gil::semantic_at_c<decltype(K)::value>(m.p)); });
    J("Access").str("model", MPixel<L>::name() + "[]").arr("map", mapping_of<typename MPixel<L>::pix_t>()).arr("phys", m.get()).arr("atc", atc).arr("sem", sem).arr("index", idx).emit();
}

template <class L1, class L2, class L3> void static_ops() {
    if (!mine()) return;
    using P1 = gil::pixel<uint16_t, L1>; using P2 = gil::pixel<uint16_t, L2>; using P3 = gil::pixel<uint16_t, L3>;
    MPixel16<L1> a; MPixel16<L2> b; MPixel16<L3> c;
    std::string models = MPixel16<L1>::name() + "," + MPixel16<L2>::name() + "," + MPixel16<L3>::name();
    auto m1 = mapping_of<P1>(), m2 = mapping_of<P2>(), m3 = mapping_of<P3>();
    a.set(distinct_vals<MPixel16<L1>>(10)); b.set(distinct_vals<MPixel16<L2>>(100)); c.set(distinct_vals<MPixel16<L3>>(1000));
    { std::vector<long long> vis; gil::static_for_each(a.p, [&](uint16_t& x) { vis.push_back(x); });
      J("Static").str("op", "for_each1").str("models", models).arr("map1", m1).arr("p1", a.get()).arr("visits", vis).emit(); }
    // a functor that keeps its state BY VALUE: static_for_each returns it after the visits (as std::for_each does), for every
    // const / mutable combination of 1, 2 and 3 colour bases
    { struct Cnt { int n = 0; long sum = 0; void operator()(uint16_t const& x) { ++n; sum += x; } void operator()(uint16_t const& x, uint16_t const& y) { ++n; sum += x + y; }
                   void operator()(uint16_t const& x, uint16_t const& y, uint16_t const& z) { ++n; sum += x + y + z; } };
      P1 const& ca = a.p; P2 const& cb = b.p; P3 const& cc = c.p; std::vector<long> counts, sums;
      auto rec = [&](Cnt r) { counts.push_back(r.n); sums.push_back(r.sum); };
      rec(gil::static_for_each(a.p, Cnt())); rec(gil::static_for_each(ca, Cnt()));
      rec(gil::static_for_each(a.p, b.p, Cnt())); rec(gil::static_for_each(ca, b.p, Cnt())); rec(gil::static_for_each(a.p, cb, Cnt())); rec(gil::static_for_each(ca, cb, Cnt()));
      rec(gil::static_for_each(a.p, b.p, c.p, Cnt())); rec(gil::static_for_each(ca, b.p, c.p, Cnt())); rec(gil::static_for_each(a.p, cb, c.p, Cnt())); rec(gil::static_for_each(a.p, b.p, cc, Cnt()));
      rec(gil::static_for_each(ca, cb, c.p, Cnt())); rec(gil::static_for_each(ca, b.p, cc, Cnt())); rec(gil::static_for_each(a.p, cb, cc, Cnt())); rec(gil::static_for_each(ca, cb, cc, Cnt()));
      J("Static").str("op", "for_each_ret").str("models", models).arr("map1", m1).arr("p1", a.get()).arr("p2", b.get()).arr("p3", c.get()).arr("counts", counts).arr("sums", sums).emit(); }
    { std::vector<std::string> vis; gil::static_for_each(a.p, b.p, [&](uint16_t& x, uint16_t& y) { vis.push_back("[" + std::to_string(x) + "," + std::to_string(y) + "]"); });
      J("Static").str("op", "for_each2").str("models", models).arr("map1", m1).arr("map2", m2).arr("p1", a.get()).arr("p2", b.get()).raw("visits", vt::jarr_raw(vis)).emit(); }
    { MPixel16<L2> o; o.set(distinct_vals<MPixel16<L2>>(0)); gil::static_transform(a.p, o.p, [](uint16_t x) { return uint16_t(x + 1); });
      J("Static").str("op", "transform1").str("models", models).arr("map1", m1).arr("map2", m2).arr("p1", a.get()).arr("p2", b.get()).arr("out", o.get()).emit(); }
    { MPixel16<L3> o; o.set(distinct_vals<MPixel16<L3>>(0)); gil::static_transform(a.p, b.p, o.p, [](uint16_t x, uint16_t y) { return uint16_t(x + 2 * y); });
      J("Static").str("op", "transform2").str("models", models).arr("map1", m1).arr("map2", m2).arr("map3", m3).arr("p1", a.get()).arr("p2", b.get()).arr("out", o.get()).emit(); }
    { MPixel16<L2> o; o.set(distinct_vals<MPixel16<L2>>(0)); gil::static_copy(a.p, o.p);
      J("Static").str("op", "copy").str("models", models).arr("map1", m1).arr("map2", m2).arr("p1", a.get()).arr("p2", b.get()).arr("out", o.get()).emit(); }
    { MPixel16<L2> o; gil::static_copy(a.p, o.p); bool r1 = gil::static_equal(a.p, o.p);
      J("Static").str("op", "equal").str("models", models).arr("map1", m1).arr("map2", m2).arr("p1", a.get()).arr("p2", o.get()).boolean("ret", r1).emit();
      bool r2 = gil::static_equal(a.p, b.p);
      J("Static").str("op", "equal").str("models", models).arr("map1", m1).arr("map2", m2).arr("p1", a.get()).arr("p2", b.get()).boolean("ret", r2).emit();
      // same multiset of values, different colours: a value-wise comparison in memory order would be fooled
      MPixel16<L2> q; auto av = a.get(); q.set(av); bool r3 = gil::static_equal(a.p, q.p);
      J("Static").str("op", "equal").str("models", models).arr("map1", m1).arr("map2", m2).arr("p1", a.get()).arr("p2", q.get()).boolean("ret", r3).emit(); }
    { MPixel16<L1> o; o.set(distinct_vals<MPixel16<L1>>(0)); gil::static_fill(o.p, uint16_t(77));
      J("Static").str("op", "fill").str("models", models).arr("map1", m1).arr("p1", a.get()).arr("out", o.get()).num("val", 77).emit(); }
    { MPixel16<L1> o; o.set(distinct_vals<MPixel16<L1>>(0)); int cnt = 0; gil::static_generate(o.p, [&]() { return uint16_t(++cnt); });
      J("Static").str("op", "generate").str("models", models).arr("map1", m1).arr("p1", a.get()).arr("out", o.get()).emit(); }
    { J("Static").str("op", "min").str("models", models).arr("map1", m1).arr("p1", a.get()).num("ret", gil::static_min(a.p)).emit();
      J("Static").str("op", "max").str("models", models).arr("map1", m1).arr("p1", a.get()).num("ret", gil::static_max(a.p)).emit(); }
    // every channel in turn holds the unique minimum / maximum; through a mutable and through a const pixel
    for (int k = 0; k < MPixel16<L1>::n; ++k) {
        MPixel16<L1> r; std::vector<long long> v; for (int j = 0; j < MPixel16<L1>::n; ++j) v.push_back(100 + 10 * ((j + k) % MPixel16<L1>::n)); r.set(v);
        typename MPixel16<L1>::pix_t const& cp = r.p;
        J("Static").str("op", "min").str("models", models).arr("map1", m1).arr("p1", r.get()).num("ret", gil::static_min(r.p)).emit();
        J("Static").str("op", "max").str("models", models).arr("map1", m1).arr("p1", r.get()).num("ret", gil::static_max(r.p)).emit();
        J("Static").str("op", "min").str("models", models + "/const").arr("map1", m1).arr("p1", r.get()).num("ret", gil::static_min(cp)).emit();
        J("Static").str("op", "max").str("models", models + "/const").arr("map1", m1).arr("p1", r.get()).num("ret", gil::static_max(cp)).emit();
    }
}

// ---- layouts -------------------------------------------------------------------------------------------
template <int... I> using rgbL = gil::layout<gil::rgb_t, mp::mp_list_c<int, I...>>;
template <int... I> using rgbaL = gil::layout<gil::rgba_t, mp::mp_list_c<int, I...>>;
using RGB6 = mp::mp_list<rgbL<0,1,2>, rgbL<0,2,1>, rgbL<1,0,2>, rgbL<1,2,0>, rgbL<2,0,1>, rgbL<2,1,0>>;
using RGBA24 = mp::mp_list<rgbaL<0,1,2,3>, rgbaL<0,1,3,2>, rgbaL<0,2,1,3>, rgbaL<0,2,3,1>, rgbaL<0,3,1,2>, rgbaL<0,3,2,1>,
                           rgbaL<1,0,2,3>, rgbaL<1,0,3,2>, rgbaL<1,2,0,3>, rgbaL<1,2,3,0>, rgbaL<1,3,0,2>, rgbaL<1,3,2,0>,
                           rgbaL<2,0,1,3>, rgbaL<2,0,3,1>, rgbaL<2,1,0,3>, rgbaL<2,1,3,0>, rgbaL<2,3,0,1>, rgbaL<2,3,1,0>,
                           rgbaL<3,0,1,2>, rgbaL<3,0,2,1>, rgbaL<3,1,0,2>, rgbaL<3,1,2,0>, rgbaL<3,2,0,1>, rgbaL<3,2,1,0>>;
using RGBA4 = mp::mp_list<gil::rgba_layout_t, gil::bgra_layout_t, gil::argb_layout_t, gil::abgr_layout_t>;
using RGBA_Q = mp::mp_list<gil::rgba_layout_t, gil::bgra_layout_t, gil::argb_layout_t, gil::abgr_layout_t, rgbaL<1,2,3,0>, rgbaL<2,3,0,1>, rgbaL<1,3,0,2>, rgbaL<3,1,2,0>>;

template <class L1, class L2, class F> void for_pairs(F f) {
    mp::mp_for_each<mp::mp_transform<mp::mp_identity, L1>>([&](auto a) { mp::mp_for_each<mp::mp_transform<mp::mp_identity, L2>>([&](auto b) { f(a, b); }); });
}

int main(int argc, char** argv) {
    vt::Args args(argc, argv); A = &args; vt::install_handlers(); vt::T().open(args.out.c_str());
    // pixel values: every ordered pair of the 6 rgb layouts; rgba: (8 | 24) x 4 provided, both directions
    for_pairs<RGB6, RGB6>([&](auto a, auto b) { assign_pair<MPixel<typename decltype(a)::type>, MPixel<typename decltype(b)::type>>(); });
#ifdef C05_THOROUGH
    using RGBA_ALL = RGBA24;
#else
    using RGBA_ALL = RGBA_Q;
#endif
    for_pairs<RGBA_ALL, RGBA4>([&](auto a, auto b) { assign_pair<MPixel<typename decltype(a)::type>, MPixel<typename decltype(b)::type>>(); assign_pair<MPixel<typename decltype(b)::type>, MPixel<typename decltype(a)::type>>(); });
    assign_pair<MPixel<gil::gray_layout_t>, MPixel<gil::gray_layout_t>>();
    assign_pair<MPixel<gil::cmyk_layout_t>, MPixel<gil::cmyk_layout_t>>();
    assign_pair<MPixel<gil::devicen_layout_t<2>>, MPixel<gil::devicen_layout_t<2>>>();
    assign_pair<MPixel<gil::devicen_layout_t<3>>, MPixel<gil::devicen_layout_t<3>>>();
    assign_pair<MPixel<gil::devicen_layout_t<5>>, MPixel<gil::devicen_layout_t<5>>>();
    // planar references <-> pixel values in every layout, planar <-> planar
    mp::mp_for_each<mp::mp_transform<mp::mp_identity, RGB6>>([&](auto a) { using L = typename decltype(a)::type;
        assign_pair<MPlanar3<gil::rgb_t>, MPixel<L>>(); assign_pair<MPixel<L>, MPlanar3<gil::rgb_t>>(); });
    assign_pair<MPlanar3<gil::rgb_t>, MPlanar3<gil::rgb_t>>();
    mp::mp_for_each<mp::mp_transform<mp::mp_identity, RGBA_ALL>>([&](auto a) { using L = typename decltype(a)::type;
        assign_pair<MPlanar4<gil::rgba_t>, MPixel<L>>(); assign_pair<MPixel<L>, MPlanar4<gil::rgba_t>>(); });
    assign_pair<MPlanar4<gil::rgba_t>, MPlanar4<gil::rgba_t>>();
    // packed pixels and bit-aligned references, rgb / bgr orders, 4-4-4 (and rgba 4-4-4-4)
    using PK_rgb = MPacked<uint16_t, gil::rgb_layout_t, 4, 4, 4>; using PK_bgr = MPacked<uint16_t, gil::bgr_layout_t, 4, 4, 4>;
    using BA_rgb = MBits<uint32_t, gil::rgb_layout_t, 4, 4, 4>; using BA_bgr = MBits<uint32_t, gil::bgr_layout_t, 4, 4, 4>;
    using PK4 = mp::mp_list<PK_rgb, PK_bgr, BA_rgb, BA_bgr>;
    // channels that start in a later byte than the (unaligned) pixel: 2-3-2 and 3-3-3 at bit offset 3
    using BA_232r = MBits<uint16_t, gil::rgb_layout_t, 2, 3, 2>; using BA_232b = MBits<uint16_t, gil::bgr_layout_t, 2, 3, 2>;
    using BA_333r = MBits<uint16_t, gil::rgb_layout_t, 3, 3, 3>; using BA_333b = MBits<uint16_t, gil::bgr_layout_t, 3, 3, 3>;
    using BA7 = mp::mp_list<BA_232r, BA_232b>; using BA9 = mp::mp_list<BA_333r, BA_333b>;
    for_pairs<BA7, BA7>([&](auto a, auto b) { assign_pair<typename decltype(a)::type, typename decltype(b)::type>(); });
    for_pairs<BA9, BA9>([&](auto a, auto b) { assign_pair<typename decltype(a)::type, typename decltype(b)::type>(); });
    for_pairs<PK4, PK4>([&](auto a, auto b) { assign_pair<typename decltype(a)::type, typename decltype(b)::type>(); });
    using PKa = MPacked<uint16_t, gil::rgba_layout_t, 4, 4, 4, 4>; using PKb = MPacked<uint16_t, gil::abgr_layout_t, 4, 4, 4, 4>; using PKc = MPacked<uint16_t, gil::argb_layout_t, 4, 4, 4, 4>;
    using BAa = MBits<uint32_t, gil::bgra_layout_t, 4, 4, 4, 4>;
    using PKA = mp::mp_list<PKa, PKb, PKc, BAa>;
    for_pairs<PKA, PKA>([&](auto a, auto b) { assign_pair<typename decltype(a)::type, typename decltype(b)::type>(); });
    // channel access
    mp::mp_for_each<mp::mp_transform<mp::mp_identity, RGB6>>([&](auto a) { access_model<MPixel<typename decltype(a)::type>>(); index_model<typename decltype(a)::type>(); });
    mp::mp_for_each<mp::mp_transform<mp::mp_identity, RGBA24>>([&](auto a) { access_model<MPixel<typename decltype(a)::type>>(); index_model<typename decltype(a)::type>(); });
    access_model<MPixel<gil::cmyk_layout_t>>(); access_model<MPixel<gil::gray_layout_t>>(); access_model<MPixel<gil::devicen_layout_t<4>>>();
    access_model<MPlanar3<gil::rgb_t>>(); access_model<MPlanar4<gil::rgba_t>>();
    access_model<PK_rgb>(); access_model<PK_bgr>(); access_model<BA_rgb>(); access_model<BA_bgr>(); access_model<PKa>(); access_model<PKb>(); access_model<PKc>(); access_model<BAa>();
    access_model<BA_232r>(); access_model<BA_232b>(); access_model<BA_333r>(); access_model<BA_333b>();
    // heterogeneous widths placed asymmetrically under a non-identity layout (the width of a COLOUR is the width of the physical channel that holds it)
    access_model<MPacked<uint16_t, gil::bgr_layout_t, 5, 5, 6>>(); access_model<MPacked<uint16_t, gil::rgb_layout_t, 5, 5, 6>>(); access_model<MPacked<uint16_t, gil::bgr_layout_t, 4, 5, 6>>();
    access_model<MPacked<uint16_t, gil::argb_layout_t, 4, 5, 5, 2>>(); access_model<MPacked<uint32_t, gil::abgr_layout_t, 4, 10, 10, 8>>(); access_model<MBits<uint16_t, gil::bgr_layout_t, 4, 5, 6>>();
    // assignment between references into one buffer
    neighbours<uint8_t, gil::bgr_layout_t, 1, 2, 1>(); neighbours<uint8_t, gil::rgb_layout_t, 2, 2, 2>(); neighbours<uint8_t, gil::rgb_layout_t, 1, 1, 1>(); neighbours<uint16_t, gil::bgr_layout_t, 2, 3, 2>();
    neighbours<uint16_t, gil::rgb_layout_t, 4, 4, 4>(); neighbours<uint8_t, gil::gray_layout_t, 1>(); neighbours<uint8_t, gil::gray_layout_t, 2>(); neighbours<uint8_t, gil::gray_layout_t, 4>();
    // static algorithms over triples of layouts
    for_pairs<RGB6, RGB6>([&](auto a, auto b) { static_ops<typename decltype(a)::type, typename decltype(b)::type, rgbL<1,2,0>>(); });
    for_pairs<RGBA4, RGBA4>([&](auto a, auto b) { static_ops<typename decltype(a)::type, typename decltype(b)::type, rgbaL<2,0,3,1>>(); });
    J("End").num("events", vt::T().events).emit(); vt::T().close(); return 0;
}
