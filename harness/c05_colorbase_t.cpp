// thorough flavour of the C05 driver: all 24 rgba permutation layouts
#define C05_THOROUGH 1
#include "c05_colorbase.cpp"
