// C06 / C07 conformance driver: dumps complete function tables of channel_convert,
// channel_multiply and channel_invert as ndjson events for TLC (Trace_Channel.tla).
// All values are logged in the shifted-unsigned representation v - min.
#include <boost/gil.hpp>
#include <boost/mp11.hpp>
#include <cmath>
#include <algorithm>
#include <set>
#include "lib/trace.hpp"

namespace gil = boost::gil;
namespace mp = boost::mp11;
using vt::J;

template <class C> struct M;   // model descriptor
#define NATIVE(T, NAME, KIND, BITS) \
    template <> struct M<T> { using type = T; static const char* name() { return NAME; } static constexpr char kind = KIND; static constexpr int bits = BITS; static constexpr int w = BITS; static constexpr bool native = true; };
NATIVE(uint8_t, "u8", 'u', 8) NATIVE(uint16_t, "u16", 'u', 16) NATIVE(uint32_t, "u32", 'u', 32)
NATIVE(int8_t, "s8", 's', 8) NATIVE(int16_t, "s16", 's', 16) NATIVE(int32_t, "s32", 's', 32)
template <> struct M<gil::float32_t> { using type = gil::float32_t; static const char* name() { return "f32"; } static constexpr char kind = 'f'; static constexpr int bits = 30; static constexpr int w = 32; static constexpr bool native = true; };
template <int N> struct M<gil::packed_channel_value<N>> {
    using type = gil::packed_channel_value<N>;
    static const char* name() { static std::string s = "p" + std::to_string(N); return s.c_str(); }
    static constexpr char kind = 'u'; static constexpr int bits = N;
    static constexpr int w = int(sizeof(typename type::integer_t) * 8); static constexpr bool native = false;
};

template <class C> constexpr bool is_wide() { return M<C>::kind == 'f' || M<C>::bits > 16; }

template <class C> std::string desc() {
    J j; j.str("name", M<C>::name()).str("kind", std::string(1, M<C>::kind)).num("bits", M<C>::bits).num("w", M<C>::w).boolean("native", M<C>::native);
    return j.done();
}

// shifted-unsigned <-> channel value
template <class C> C from_u(uint64_t u) {
    if constexpr (M<C>::kind == 'f') return C(float(std::ldexp(double(u), -30)));
    else {
        long long mn = (long long)gil::channel_traits<C>::min_value();
        using base = typename gil::base_channel_type<C>::type;
        return C(static_cast<base>((long long)u + mn));
    }
}
template <class C, class V> uint64_t to_u(V const& v) {
    if constexpr (M<C>::kind == 'f') { double d = double(float(v)); return (uint64_t)std::llround(std::ldexp(d, 30)); }
    else {
        long long mn = (long long)gil::channel_traits<C>::min_value();
        using base = typename gil::base_channel_type<C>::type;
        return (uint64_t)((long long)static_cast<base>(v) - mn);
    }
}
template <class C> uint64_t range_u() { return M<C>::kind == 'f' ? (1ull << 30) : ((1ull << M<C>::bits) - 1); }

static vt::Args* g_args;
static uint64_t g_seed;

// sample of shifted values for a wide model (sorted, unique, includes both ends)
template <class C> std::vector<uint64_t> wide_sample(int nrandom) {
    std::set<uint64_t> s; uint64_t r = range_u<C>();
    auto add = [&](long long v) { if (v >= 0 && (uint64_t)v <= r) s.insert((uint64_t)v); };
    for (int k = 0; k <= 32; ++k) for (int d = -2; d <= 2; ++d) add((1ll << k) + d);
    for (int d = 0; d <= 3; ++d) { add(d); add((long long)r - d); add((long long)(r / 2) + d - 1); }
    if (M<C>::kind == 'f') {
        for (int k = 0; k <= 4096; ++k) add((long long)k << 18);            // k/4096
        for (int k = 0; k <= 255; ++k) {                                       // k/255 as float and neighbours
            float f = float(k) / 255.0f;
            for (float g : {std::nextafterf(f, 0.0f), f, std::nextafterf(f, 2.0f)}) if (g >= 0 && g <= 1) add(std::llround(std::ldexp(double(g), 30)));
        }
    } else {
        for (int k = 0; k <= 255; ++k) { add((long long)k * 16843009ll); add((long long)k << 24); }
        for (int k = 0; k <= 64; ++k) add((long long)k * 65537ll * 1024);
    }
    vt::Rng rng(g_seed * 7919 + M<C>::bits);
    for (int i = 0; i < nrandom; ++i) add((long long)(rng.next() % (r + 1)));
    return {s.begin(), s.end()};
}
// float values must be exactly representable after scaling: snap to what from_u produces
template <class C> std::vector<uint64_t> snap(std::vector<uint64_t> v) {
    if (M<C>::kind != 'f') return v;
    std::set<uint64_t> s; for (auto u : v) s.insert(to_u<C>(from_u<C>(u)));
    return {s.begin(), s.end()};
}
inline std::string words_list(const std::vector<uint64_t>& v) {
    std::string s = "["; bool f = true; for (auto u : v) { if (!f) s += ','; f = false; s += vt::words2(u); } return s + "]";
}

template <class S, class D> void conv_pair() {
    constexpr bool wide = is_wide<S>() || is_wide<D>();
    if constexpr (!wide) {
        uint64_t rs = range_u<S>();
        std::vector<uint32_t> tbl(rs + 1), back;
        bool rt = range_u<D>() >= rs;
        if (rt) back.resize(rs + 1);
        for (uint64_t i = 0; i <= rs; ++i) {
            S src = from_u<S>(i);
            auto out = gil::channel_convert<D>(src);
            tbl[i] = (uint32_t)to_u<D>(out);
            if (rt) back[i] = (uint32_t)to_u<S>(gil::channel_convert<S>(D(out)));
        }
        J j("Conv"); j.raw("s", desc<S>()).raw("d", desc<D>()).arr("tbl", tbl);
        if (rt) j.arr("back", back);
        j.emit();
    } else {
        int nr = g_args->thorough() ? 4096 : 256;
        auto vs = snap<S>(wide_sample<S>(nr));
        std::vector<uint64_t> rs_, bk;
        // round trip demanded: S integral and D has at least as many levels (float counts as 2^24 levels)
        bool rt = M<S>::kind != 'f' && ((M<D>::kind == 'f' && M<S>::bits <= 16) || (M<D>::kind != 'f' && M<D>::bits >= M<S>::bits));
        for (auto u : vs) {
            S src = from_u<S>(u);
            auto out = gil::channel_convert<D>(src);
            rs_.push_back(to_u<D>(out));
            if (rt) bk.push_back(to_u<S>(gil::channel_convert<S>(D(out))));
        }
        J j("ConvW"); j.raw("s", desc<S>()).raw("d", desc<D>()).raw("vs", words_list(vs)).raw("rs", words_list(rs_));
        if (rt) j.raw("back", words_list(bk));
        j.emit();
    }
}

template <class C> void mul_model() {
    if constexpr (M<C>::kind == 'f') {
        std::vector<uint64_t> g; for (int k = 0; k <= 64; ++k) g.push_back((uint64_t)k << 24);   // k/64
        for (auto a : g) {
            std::vector<uint64_t> ab, ba;
            for (auto b : g) { ab.push_back(to_u<C>(gil::channel_multiply(from_u<C>(a), from_u<C>(b)))); ba.push_back(to_u<C>(gil::channel_multiply(from_u<C>(b), from_u<C>(a)))); }
            J("MulW").raw("m", desc<C>()).raw("a", vt::words2(a)).raw("bs", words_list(g)).raw("ab", words_list(ab)).raw("ba", words_list(ba)).emit();
        }
    } else if constexpr (M<C>::bits > 16) {
        // wide integral models (17..32 bits): structured + seeded operands, both argument orders
        auto full = wide_sample<C>(g_args->thorough() ? 64 : 16);
        std::vector<uint64_t> B, Aset; uint64_t r = range_u<C>();
        for (size_t i = 0; i < full.size(); ++i) if (full[i] <= 3 || full[i] + 3 >= r || i % 7 == 0) B.push_back(full[i]);
        for (size_t i = 0; i < full.size(); ++i) if (full[i] <= 2 || full[i] + 2 >= r || i % 5 == 0) Aset.push_back(full[i]);
        for (auto a : Aset) {
            std::vector<uint64_t> ab, ba;
            for (auto b : B) { ab.push_back(to_u<C>(gil::channel_multiply(from_u<C>(a), from_u<C>(b)))); ba.push_back(to_u<C>(gil::channel_multiply(from_u<C>(b), from_u<C>(a)))); }
            J("MulW").raw("m", desc<C>()).raw("a", vt::words2(a)).raw("bs", words_list(B)).raw("ab", words_list(ab)).raw("ba", words_list(ba)).emit();
        }
    } else if constexpr (M<C>::bits <= 8) {
        uint32_t r = (uint32_t)range_u<C>();
        std::vector<uint32_t> bs(r + 1); for (uint32_t b = 0; b <= r; ++b) bs[b] = b;
        for (uint32_t a = 0; a <= r; ++a) {
            std::vector<uint32_t> ab(r + 1), ba(r + 1);
            for (uint32_t b = 0; b <= r; ++b) { ab[b] = (uint32_t)to_u<C>(gil::channel_multiply(from_u<C>(a), from_u<C>(b))); ba[b] = (uint32_t)to_u<C>(gil::channel_multiply(from_u<C>(b), from_u<C>(a))); }
            J("Mul").raw("m", desc<C>()).num("a", a).boolean("all", true).arr("bs", bs).arr("ab", ab).arr("ba", ba).emit();
        }
    } else if constexpr (M<C>::bits <= 16) {
        uint32_t r = (uint32_t)range_u<C>();
        std::set<uint32_t> B, A;
        auto addB = [&](long long v) { if (v >= 0 && v <= (long long)r) B.insert((uint32_t)v); };
        for (int k = 0; k <= 16; ++k) for (int d = -1; d <= 1; ++d) addB((1ll << k) + d);
        for (int d = 0; d < 3; ++d) { addB(d); addB((long long)r - d); addB(r / 2 + d); addB(r / 3 + d); addB(255ll * (d + 1)); }
        vt::Rng rng(g_seed * 31 + M<C>::bits);
        bool full = g_args->thorough() && M<C>::native;      // every a for uint16/int16 in the thorough tier
        int nb = g_args->thorough() ? 96 : 48, na = g_args->thorough() ? 4096 : 384;
        for (int i = 0; i < nb; ++i) addB(rng.below(r + 1));
        if (full) for (uint32_t a = 0; a <= r; ++a) A.insert(a);
        else { A = B; for (int i = 0; i < na; ++i) A.insert(rng.below(r + 1)); }
        std::vector<uint32_t> bs(B.begin(), B.end());
        for (uint32_t a : A) {
            std::vector<uint32_t> ab, ba;
            for (uint32_t b : bs) { ab.push_back((uint32_t)to_u<C>(gil::channel_multiply(from_u<C>(a), from_u<C>(b)))); ba.push_back((uint32_t)to_u<C>(gil::channel_multiply(from_u<C>(b), from_u<C>(a)))); }
            J("Mul").raw("m", desc<C>()).num("a", a).boolean("all", false).arr("bs", bs).arr("ab", ab).arr("ba", ba).emit();
        }
    }
}

template <class C> void inv_model() {
    if constexpr (!is_wide<C>()) {
        uint32_t r = (uint32_t)range_u<C>();
        std::vector<uint32_t> tbl(r + 1);
        for (uint32_t v = 0; v <= r; ++v) tbl[v] = (uint32_t)to_u<C>(gil::channel_invert(from_u<C>(v)));
        J("Inv").raw("m", desc<C>()).arr("tbl", tbl).emit();
    } else {
        auto vs = snap<C>(wide_sample<C>(g_args->thorough() ? 4096 : 256));
        if (M<C>::kind == 'f') { std::vector<uint64_t> d; for (auto u : vs) if ((u & ((1u << 6) - 1)) == 0) d.push_back(u); vs = d; } // multiples of 2^-24: 1-x exact
        std::vector<uint64_t> rs, rr;
        for (auto u : vs) { auto o = gil::channel_invert(from_u<C>(u)); rs.push_back(to_u<C>(o)); rr.push_back(to_u<C>(gil::channel_invert(C(o)))); }
        J("InvW").raw("m", desc<C>()).raw("vs", words_list(vs)).raw("rs", words_list(rs)).raw("rr", words_list(rr)).emit();
    }
}

// scoped integer channels (user-defined range on an integral base, the integer analogue of float32_t): channel_invert only
template <class Base, long long Min, long long Max> struct sc_lim_min { static constexpr Base apply() { return (Base)Min; } };
template <class Base, long long Min, long long Max> struct sc_lim_max { static constexpr Base apply() { return (Base)Max; } };
template <class Base, long long Min, long long Max> void inv_scoped(const char* name) {
    using C = gil::scoped_channel_value<Base, sc_lim_min<Base, Min, Max>, sc_lim_max<Base, Min, Max>>;
    std::vector<long long> tbl;
    for (long long v = Min; v <= Max; ++v) {
        long long o = (long long)static_cast<Base>(gil::channel_invert(C((Base)v))) - Min;
        tbl.push_back(o < -1000000 ? -1000000 : o > 1000000 ? 1000000 : o);
    }
    J j; j.str("name", name).str("kind", "u").num("bits", 16).num("w", (long long)sizeof(Base) * 8).boolean("native", false).num("range", Max - Min);
    J("Inv").raw("m", j.done()).arr("tbl", tbl).emit();
}

// packed channel references reading/writing through convert: same value_type, exercised for a few shapes
template <class Ref, class D> void conv_from_ref(const char* refname) {
    using V = typename gil::channel_traits<Ref>::value_type;
    uint64_t rs = range_u<V>();
    std::vector<uint32_t> tbl(rs + 1);
    for (uint64_t i = 0; i <= rs; ++i) {
        uint64_t storage = 0xA5A5A5A5A5A5A5A5ull;
        Ref ref(&storage);
        ref = typename V::integer_t(i);
        tbl[i] = (uint32_t)to_u<D>(gil::channel_convert<D>(ref));
    }
    J j("Conv"); j.raw("s", desc<V>()).raw("d", desc<D>()).str("via", refname).arr("tbl", tbl); j.emit();
}

using Narrow8 = mp::mp_list<uint8_t, int8_t, gil::packed_channel_value<1>, gil::packed_channel_value<2>, gil::packed_channel_value<3>, gil::packed_channel_value<4>,
                            gil::packed_channel_value<5>, gil::packed_channel_value<6>, gil::packed_channel_value<7>, gil::packed_channel_value<8>>;
using Narrow16 = mp::mp_list<uint16_t, int16_t, gil::packed_channel_value<9>, gil::packed_channel_value<10>, gil::packed_channel_value<11>, gil::packed_channel_value<12>,
                             gil::packed_channel_value<13>, gil::packed_channel_value<14>, gil::packed_channel_value<15>, gil::packed_channel_value<16>>;
using Wide = mp::mp_list<uint32_t, int32_t, gil::float32_t>;
using AllNarrow = mp::mp_append<Narrow8, Narrow16>;
using WidePacked = mp::mp_list<gil::packed_channel_value<20>, gil::packed_channel_value<24>, gil::packed_channel_value<32>>;
using All = mp::mp_append<AllNarrow, Wide>;

template <class L1, class L2, class F> void for_pairs(F f) {
    mp::mp_for_each<mp::mp_transform<mp::mp_identity, L1>>([&](auto s) {
        mp::mp_for_each<mp::mp_transform<mp::mp_identity, L2>>([&](auto d) { f(s, d); });
    });
}

int main(int argc, char** argv) {
    vt::Args args(argc, argv); g_args = &args; g_seed = args.seed;
    vt::install_handlers();
    vt::T().open(args.out.c_str());
    std::string what = args.rest.empty() ? "conv" : args.rest[0];
    int idx = 0;
    auto mine = [&]() { return (idx++ % args.nshards) == args.shard; };

    if (what == "conv") {
        // <= 8-bit x <= 8-bit: always complete
        for_pairs<Narrow8, Narrow8>([&](auto s, auto d) { if (mine()) conv_pair<typename decltype(s)::type, typename decltype(d)::type>(); });
        if (args.thorough()) {
            for_pairs<Narrow8, Narrow16>([&](auto s, auto d) { if (mine()) conv_pair<typename decltype(s)::type, typename decltype(d)::type>(); });
            for_pairs<Narrow16, AllNarrow>([&](auto s, auto d) { if (mine()) conv_pair<typename decltype(s)::type, typename decltype(d)::type>(); });
        } else {
            using Q16 = mp::mp_list<uint16_t, int16_t, gil::packed_channel_value<10>, gil::packed_channel_value<12>, gil::packed_channel_value<15>, gil::packed_channel_value<16>>;
            using Q8 = mp::mp_list<uint8_t, int8_t, gil::packed_channel_value<5>, gil::packed_channel_value<6>, gil::packed_channel_value<3>>;
            for_pairs<Narrow8, Q16>([&](auto s, auto d) { if (mine()) conv_pair<typename decltype(s)::type, typename decltype(d)::type>(); });
            for_pairs<Q16, Q8>([&](auto s, auto d) { if (mine()) conv_pair<typename decltype(s)::type, typename decltype(d)::type>(); });
            for_pairs<Q16, Q16>([&](auto s, auto d) { if (mine()) conv_pair<typename decltype(s)::type, typename decltype(d)::type>(); });
        }
        // wide pairs (sampled)
        for_pairs<Wide, All>([&](auto s, auto d) { if (mine()) conv_pair<typename decltype(s)::type, typename decltype(d)::type>(); });
        for_pairs<AllNarrow, Wide>([&](auto s, auto d) { if (mine()) conv_pair<typename decltype(s)::type, typename decltype(d)::type>(); });
        // references as sources
        if (mine()) conv_from_ref<gil::packed_channel_reference<uint16_t, 0, 5, true>, uint8_t>("packed_channel_reference<u16,0,5>");
        if (mine()) conv_from_ref<gil::packed_channel_reference<uint16_t, 5, 6, true>, uint8_t>("packed_channel_reference<u16,5,6>");
        if (mine()) conv_from_ref<gil::packed_channel_reference<uint16_t, 11, 5, true>, uint16_t>("packed_channel_reference<u16,11,5>");
        if (mine()) conv_from_ref<gil::packed_channel_reference<uint32_t, 7, 10, true>, uint8_t>("packed_channel_reference<u32,7,10>");
        if (mine()) conv_from_ref<gil::packed_channel_reference<uint8_t, 2, 3, true>, gil::packed_channel_value<7>>("packed_channel_reference<u8,2,3>");
    } else if (what == "mul") {
        mp::mp_for_each<mp::mp_transform<mp::mp_identity, mp::mp_append<All, WidePacked>>>([&](auto m) {
            using C = typename decltype(m)::type;
            if (mine()) mul_model<C>();
            if (mine()) inv_model<C>();
        });
        if (mine()) inv_scoped<uint8_t, 16, 235>("scoped<u8,16,235>");
        if (mine()) inv_scoped<uint16_t, 64, 940>("scoped<u16,64,940>");
        if (mine()) inv_scoped<int8_t, -100, 50>("scoped<s8,-100,50>");
        if (mine()) inv_scoped<int16_t, -5, 1000>("scoped<s16,-5,1000>");
    }
    J("End").num("events", vt::T().events).emit();
    vt::T().close();
    return 0;
}
