// C08 conformance driver: packed_pixel and bit_aligned_pixel_reference writes at every bit offset,
// in buffers flush against inaccessible pages; bit-aligned iterator cursor arithmetic.
// Events are validated by Trace_PackedBits.tla.
#include <boost/gil.hpp>
#include <boost/mp11.hpp>
#include <algorithm>
#include "lib/trace.hpp"
#include "lib/guard_buf.hpp"

namespace gil = boost::gil;
namespace mp = boost::mp11;
using vt::J;

static vt::Args* A;
static int g_idx = 0;
static bool mine() { return (g_idx++ % A->nshards) == A->shard; }

// ------------------------------------------------------------------------------------------------
template <class BitField, class Layout, int... Cs> struct BitAligned {
    using sizes = mp::mp_list_c<int, Cs...>;
    using ref_t = gil::bit_aligned_pixel_reference<BitField, sizes, Layout, true>;
    using cref_t = gil::bit_aligned_pixel_reference<BitField, sizes, Layout, false>;
    using value_t = typename ref_t::value_type;
    using iter_t = gil::bit_aligned_pixel_iterator<ref_t>;
    static constexpr int nch = sizeof...(Cs);
    static constexpr int psz = (Cs + ...);
    static constexpr bool bit_aligned = true;
    static std::vector<int> cs() { return {Cs...}; }
    static int carrier() { return (int)sizeof(BitField); }
    static ref_t at(unsigned char* data, int o, int i) { int p = o + i * psz; return ref_t(data + p / 8, p % 8); }
    static iter_t it(unsigned char* data, int o, int i) { int p = o + i * psz; return iter_t(data + p / 8, p % 8); }
    static int pos(int o, int i) { return o + i * psz; }
    static size_t nbytes(int o, int npix) { return (size_t)(o + npix * psz + 7) / 8; }
};
template <class BitField, class Layout, unsigned... Cs> struct Packed {
    using value_t = typename gil::packed_pixel_type<BitField, mp::mp_list_c<unsigned, Cs...>, Layout>::type;
    using ref_t = value_t&;
    using iter_t = value_t*;
    static constexpr int nch = sizeof...(Cs);
    static constexpr int psz = int(sizeof(BitField) * 8);
    static constexpr bool bit_aligned = false;
    static std::vector<int> cs() { return {int(Cs)...}; }
    static int carrier() { return (int)sizeof(BitField); }
    static ref_t at(unsigned char* data, int, int i) { return reinterpret_cast<value_t*>(data)[i]; }
    static iter_t it(unsigned char* data, int, int i) { return reinterpret_cast<value_t*>(data) + i; }
    static int pos(int, int i) { return i * psz; }
    static size_t nbytes(int, int npix) { return (size_t)npix * sizeof(BitField); }
};

template <class T, class Ref> std::vector<long long> read_all(Ref const& r) {
    std::vector<long long> v;
    mp::mp_for_each<mp::mp_iota_c<T::nch>>([&](auto K) { v.push_back((long long)(unsigned long long)gil::at_c<decltype(K)::value>(r)); });
    return v;
}
template <class T> typename T::value_t make_value(const std::vector<long long>& vals) {
    typename T::value_t px;
    mp::mp_for_each<mp::mp_iota_c<T::nch>>([&](auto K) { gil::at_c<decltype(K)::value>(px) = (typename gil::channel_traits<typename gil::kth_element_type<typename T::value_t, decltype(K)::value>::type>::value_type::integer_t)vals[decltype(K)::value]; });
    return px;
}

static std::vector<unsigned char> snap(const unsigned char* d, size_t n) { return std::vector<unsigned char>(d, d + n); }

struct Bg { vt::Rng rng; explicit Bg(uint64_t s) : rng(s) {}
    void fill(unsigned char* d, size_t n, int kind) {
        for (size_t i = 0; i < n; ++i) d[i] = kind == 0 ? 0x00 : kind == 1 ? 0xFF : kind == 2 ? 0xAA : kind == 3 ? 0x55 : (unsigned char)rng.next();
    } };

template <class T> void emit_op(J& j, const char* name, int o, const std::vector<unsigned char>& before, const unsigned char* data, size_t n) {
    (void)name;
    j.arr("cs", T::cs()).num("stride", T::psz).arr("before", before).arr("after", snap(data, n)).emit();
}

// all operations on one (type, bit offset, placement) configuration
template <class T> void group(const char* name, int o, vt::GuardBuf::Where where) {
    const int NP = 3;
    size_t n = T::nbytes(o, NP);
    const char* place = where == vt::GuardBuf::AtEnd ? "end" : "start";
    J("Try").str("name", name).arr("cs", T::cs()).num("carrier", T::carrier()).num("o", o).str("place", place).num("nbytes", (long long)n).boolean("bit_aligned", T::bit_aligned).emit();
    vt::isolated([&] {
        vt::GuardBuf gb(n, where);
        unsigned char* d = gb.data;
        Bg bg(A->seed * 1000003 + o * 17 + (where == vt::GuardBuf::AtEnd));
        int nbg = A->thorough() ? 12 : 6;
        auto cs = T::cs();
        for (int b = 0; b < nbg; ++b) {
            for (int i = 0; i < NP; ++i) {
                // ---- channel assignment, every channel, a set of values
                mp::mp_for_each<mp::mp_iota_c<T::nch>>([&](auto K) {
                    constexpr int k = decltype(K)::value;
                    long long mx = (1ll << cs[k]) - 1;
                    std::vector<long long> vals = {0, mx, mx / 2, mx / 3, 1 % (mx + 1), (long long)(bg.rng.next() % (unsigned long long)(mx + 1))};
                    if (cs[k] <= 4 || A->thorough()) { vals.clear(); for (long long v = 0; v <= mx && v < 256; ++v) vals.push_back(v); }
                    for (long long v : vals) {
                        bg.fill(d, n, b); auto before = snap(d, n);
                        { auto&& r = T::at(d, o, i); gil::at_c<k>(r) = (decltype((unsigned long long)gil::at_c<k>(r)))v; }
                        auto rd = read_all<T>(T::at(d, o, i));
                        J j("W"); j.str("op", "chan_assign").num("pos", T::pos(o, i)).num("k", k + 1).num("v", v).arr("rd", rd);
                        emit_op<T>(j, name, o, before, d, n);
                    }
                    // ---- ++ / -- / += / -= on the channel proxy (modulo 2^bits)
                    for (int dlt : {1, -1, 3, -5}) {
                        bg.fill(d, n, b); auto before = snap(d, n);
                        { auto&& r = T::at(d, o, i); auto ch = gil::at_c<k>(r);
                          if (dlt == 1) ++ch; else if (dlt == -1) --ch; else if (dlt > 0) ch += dlt; else ch -= -dlt; }
                        auto rd = read_all<T>(T::at(d, o, i));
                        J j("W"); j.str("op", "chan_add").num("pos", T::pos(o, i)).num("k", k + 1).num("d", dlt).arr("rd", rd);
                        emit_op<T>(j, name, o, before, d, n);
                    }
                });
                // ---- whole pixel assignment
                for (int rep = 0; rep < 3; ++rep) {
                    std::vector<long long> vals; for (int c : cs) vals.push_back(rep == 0 ? 0 : rep == 1 ? (1ll << c) - 1 : (long long)(bg.rng.next() % (1ull << c)));
                    bg.fill(d, n, b); auto before = snap(d, n);
                    { auto&& r = T::at(d, o, i); r = make_value<T>(vals); }
                    auto rd = read_all<T>(T::at(d, o, i));
                    J j("W"); j.str("op", "pix_assign").num("pos", T::pos(o, i)).arr("vals", vals).arr("rd", rd);
                    emit_op<T>(j, name, o, before, d, n);
                }
                // ---- read only
                { bg.fill(d, n, b); auto before = snap(d, n); auto rd = read_all<T>(T::at(d, o, i));
                  J j("W"); j.str("op", "read").num("pos", T::pos(o, i)).arr("rd", rd); emit_op<T>(j, name, o, before, d, n); }
            }
            // ---- swap of pixel 0 and 2, and of neighbours 0 and 1
            for (auto pr : {std::pair<int,int>{0, 2}, {0, 1}, {1, 2}}) {
                bg.fill(d, n, b); auto before = snap(d, n);
                { using std::swap; auto&& r1 = T::at(d, o, pr.first); auto&& r2 = T::at(d, o, pr.second); swap(r1, r2); }
                auto rd = read_all<T>(T::at(d, o, pr.first));
                J j("W"); j.str("op", "swap").num("pos", T::pos(o, pr.first)).num("pos2", T::pos(o, pr.second)).arr("rd", rd);
                emit_op<T>(j, name, o, before, d, n);
            }
            // ---- fill through iterators (1..3 pixels from pixel s)
            for (int s = 0; s < NP; ++s) for (int cnt = 0; s + cnt <= NP; ++cnt) {
                std::vector<long long> vals; for (int c : cs) vals.push_back((long long)(bg.rng.next() % (1ull << c)));
                bg.fill(d, n, b); auto before = snap(d, n);
                { auto it = T::it(d, o, s); std::fill(it, it + cnt, make_value<T>(vals)); }
                auto rd = read_all<T>(T::at(d, o, s < NP ? s : 0));
                J j("W"); j.str("op", "fill").num("pos", T::pos(o, s)).num("count", cnt).arr("vals", vals).arr("rd", rd);
                emit_op<T>(j, name, o, before, d, n);
            }
            // ---- copy through iterators: pixel 0 -> pixel 2, pixel 2 -> pixel 0, pixel 0 -> 1
            for (auto pr : {std::pair<int,int>{0, 2}, {2, 0}, {0, 1}, {1, 0}}) {
                bg.fill(d, n, b); auto before = snap(d, n);
                { auto s = T::it(d, o, pr.first); auto t = T::it(d, o, pr.second); std::copy(s, s + 1, t); }
                auto rd = read_all<T>(T::at(d, o, pr.second));
                J j("W"); j.str("op", "copy").num("spos", T::pos(o, pr.first)).num("pos", T::pos(o, pr.second)).num("count", 1).arr("rd", rd);
                emit_op<T>(j, name, o, before, d, n);
            }
        }
    });
}

// every content of a 16-bit pixel (thorough): channel writes with all 2^16 backgrounds
template <class T> void exhaustive16(const char* name, int o) {
    static_assert(T::psz == 16 || !T::bit_aligned || T::psz == 16, "");
    const int NP = 3; size_t n = T::nbytes(o, NP);
    J("Try").str("name", name).arr("cs", T::cs()).num("carrier", T::carrier()).num("o", o).str("place", "end").num("nbytes", (long long)n).boolean("bit_aligned", T::bit_aligned).emit();
    vt::isolated([&] {
        vt::GuardBuf gb(n, vt::GuardBuf::AtEnd); unsigned char* d = gb.data; auto cs = T::cs();
        for (unsigned bgv = 0; bgv < 65536; ++bgv) {
            mp::mp_for_each<mp::mp_iota_c<T::nch>>([&](auto K) {
                constexpr int k = decltype(K)::value; long long mx = (1ll << cs[k]) - 1;
                for (long long v : {0ll, mx, (long long)((bgv * 2654435761u) >> 7) % (mx + 1)}) {
                    memset(d, (bgv & 1) ? 0xFF : 0x00, n);
                    { auto&& r = T::at(d, o, 1); r = make_value<T>([&] { std::vector<long long> vs; int sh = 0; for (int c : cs) { vs.push_back((bgv >> sh) & ((1u << c) - 1)); sh += c; } return vs; }()); }
                    auto before = snap(d, n);
                    { auto&& r = T::at(d, o, 1); gil::at_c<k>(r) = (decltype((unsigned long long)gil::at_c<k>(r)))v; }
                    auto rd = read_all<T>(T::at(d, o, 1));
                    J j("W"); j.str("op", "chan_assign").num("pos", T::pos(o, 1)).num("k", k + 1).num("v", v).arr("rd", rd);
                    emit_op<T>(j, name, o, before, d, n);
                }
            });
        }
    }, 600);
}

// bit cursor arithmetic (no dereference)
template <class T> void cursor(const char* name) {
    static unsigned char arena[4096];
    int W = A->thorough() ? 40 : 24;
    for (int o = 0; o < 8; ++o) {
        unsigned char* base = arena + 2048;
        auto it0 = typename T::iter_t(base, o);
        for (int n = -W; n <= W; ++n) {
            auto it1 = it0 + n; auto it2 = it1 - n; auto it3 = it0; it3 += n; auto it4 = it3; it4 -= n;
            auto inc = it1; ++inc; auto dec = it1; --dec; auto id = inc; --id;
            auto rel = [&](const typename T::iter_t& it) { return (long long)(it.bit_range().current_byte() - base); };
            J("Cur").str("name", name).num("psz", T::psz).num("b0", 0).num("o0", o).num("n", n)
                .num("b1", rel(it1)).num("o1", it1.bit_range().bit_offset())
                .num("b2", rel(it2)).num("o2", it2.bit_range().bit_offset())
                .num("b3", rel(it3)).num("o3", it3.bit_range().bit_offset())
                .num("b4", rel(it4)).num("o4", it4.bit_range().bit_offset())
                .num("bi", rel(inc)).num("oi", inc.bit_range().bit_offset())
                .num("bd", rel(dec)).num("od", dec.bit_range().bit_offset())
                .num("bid", rel(id)).num("oid", id.bit_range().bit_offset())
                .num("dist", (long long)(it1 - it0)).num("rdist", (long long)(it0 - it1))
                .boolean("eq", it2 == it0).boolean("eq13", it1 == it3).boolean("lt", it0 < it1).boolean("gt", it0 > it1).emit();
        }
    }
}

#define BA(NAME, BF, LAYOUT, ...) using NAME = BitAligned<BF, gil::LAYOUT, __VA_ARGS__>;
#define PK(NAME, BF, LAYOUT, ...) using NAME = Packed<BF, gil::LAYOUT, __VA_ARGS__>;
BA(ba_g1, uint8_t, gray_layout_t, 1) BA(ba_g2, uint16_t, gray_layout_t, 2) BA(ba_g4, uint16_t, gray_layout_t, 4) BA(ba_g7, uint16_t, gray_layout_t, 7)
BA(ba_g1w, uint32_t, gray_layout_t, 1) BA(ba_123, uint16_t, rgb_layout_t, 1, 2, 3) BA(ba_222, uint16_t, bgr_layout_t, 2, 2, 2) BA(ba_332, uint16_t, rgb_layout_t, 3, 3, 2)
BA(ba_565, uint32_t, rgb_layout_t, 5, 6, 5) BA(ba_444, uint32_t, rgb_layout_t, 4, 4, 4) BA(ba_121, uint16_t, bgr_layout_t, 1, 2, 1)
BA(ba_g12, uint32_t, gray_layout_t, 12) BA(ba_g16, uint32_t, gray_layout_t, 16) BA(ba_2222, uint16_t, rgba_layout_t, 2, 2, 2, 2)
// tight carriers: wide enough for every single channel at any bit offset (7 + channel bits), narrower than the pixel + 7
BA(ba_565t, uint16_t, rgb_layout_t, 5, 6, 5) BA(ba_444t, uint16_t, rgb_layout_t, 4, 4, 4) BA(ba_4444t, uint16_t, rgba_layout_t, 4, 4, 4, 4)
BA(ba_565q, uint64_t, rgb_layout_t, 5, 6, 5) BA(ba_888, uint32_t, rgb_layout_t, 8, 8, 8) BA(ba_g9, uint16_t, gray_layout_t, 9)
PK(pk_565, uint16_t, rgb_layout_t, 5, 6, 5) PK(pk_555, uint16_t, rgb_layout_t, 5, 5, 5) PK(pk_4444, uint16_t, rgba_layout_t, 4, 4, 4, 4)
PK(pk_332, uint8_t, rgb_layout_t, 3, 3, 2) PK(pk_123, uint8_t, bgr_layout_t, 1, 2, 3) PK(pk_g6, uint8_t, gray_layout_t, 6)
PK(pk_aaa, uint32_t, rgb_layout_t, 10, 10, 10) PK(pk_8888, uint32_t, rgba_layout_t, 8, 8, 8, 8)
// 64-bit carriers: channels that end at, straddle and lie above bit 31
PK(pk_8888q, uint64_t, rgba_layout_t, 8, 8, 8, 8) PK(pk_cccq, uint64_t, rgb_layout_t, 12, 12, 12) PK(pk_gggg, uint64_t, rgba_layout_t, 16, 16, 16, 16) PK(pk_565q, uint64_t, rgb_layout_t, 5, 6, 5)

template <class T> void all_groups(const char* name) {
    for (int o = 0; o < (T::bit_aligned ? 8 : 1); ++o)
        for (auto w : {vt::GuardBuf::AtEnd, vt::GuardBuf::AtStart})
            if (mine()) group<T>(name, o, w);
    if constexpr (T::bit_aligned) { if (mine()) cursor<T>(name); }
}

int main(int argc, char** argv) {
    vt::Args args(argc, argv); A = &args;
    vt::install_handlers();
    vt::T().open(args.out.c_str());
#define RUN(T) all_groups<T>(#T);
    RUN(ba_g1) RUN(ba_g2) RUN(ba_g4) RUN(ba_g7) RUN(ba_g1w) RUN(ba_123) RUN(ba_222) RUN(ba_332) RUN(ba_565) RUN(ba_444) RUN(ba_121)
    RUN(ba_565t) RUN(ba_444t) RUN(ba_4444t) RUN(ba_g12) RUN(ba_g16) RUN(ba_2222) RUN(ba_565q) RUN(ba_888) RUN(ba_g9)
    RUN(pk_565) RUN(pk_555) RUN(pk_4444) RUN(pk_332) RUN(pk_123) RUN(pk_g6) RUN(pk_aaa) RUN(pk_8888) RUN(pk_8888q) RUN(pk_cccq) RUN(pk_gggg) RUN(pk_565q)
    if (args.thorough()) {
        if (mine()) exhaustive16<pk_565>("pk_565", 0);
        if (mine()) exhaustive16<pk_4444>("pk_4444", 0);
        for (int o : {0, 3, 5, 7}) if (mine()) exhaustive16<ba_565>("ba_565", o);
    }
    J("End").num("events", vt::T().events).emit();
    vt::T().close();
    return 0;
}
