// C09 conformance driver: default colour conversion between gray, rgb, rgba, cmyk.
// rgb8: one event per (r,g) with the results for every b (gray, cmyk, round trip, neighbours for monotonicity);
// rgba8: one event per (r,g,b pattern) with every alpha; layouts / depths / view agreement events.
#include <boost/gil.hpp>
#include <cmath>
#include "lib/trace.hpp"
namespace gil = boost::gil;
using vt::J;
static vt::Args* A;

static void rgb_row(int r, int g) {
    std::vector<int> gray(256), gr1(256), gg1(256), c(256), m(256), y(256), k(256), br(256), bg(256), bb(256), back_gray_r(256);
    for (int b = 0; b < 256; ++b) {
        gil::rgb8_pixel_t p(r, g, b); gil::gray8_pixel_t gp; gil::color_convert(p, gp); gray[b] = gp[0];
        { gil::rgb8_pixel_t q(std::min(r + 1, 255), g, b); gil::gray8_pixel_t t; gil::color_convert(q, t); gr1[b] = t[0]; }
        { gil::rgb8_pixel_t q(r, std::min(g + 1, 255), b); gil::gray8_pixel_t t; gil::color_convert(q, t); gg1[b] = t[0]; }
        gil::cmyk8_pixel_t cp; gil::color_convert(p, cp); c[b] = cp[0]; m[b] = cp[1]; y[b] = cp[2]; k[b] = cp[3];
        gil::rgb8_pixel_t back; gil::color_convert(cp, back); br[b] = back[0]; bg[b] = back[1]; bb[b] = back[2];
        gil::rgb8_pixel_t fromgray; gil::color_convert(gp, fromgray); back_gray_r[b] = (fromgray[0] == gp[0] && fromgray[1] == gp[0] && fromgray[2] == gp[0]) ? 1 : 0;
    }
    J("RgbRow").num("r", r).num("g", g).arr("gray", gray).arr("gray_r1", gr1).arr("gray_g1", gg1).arr("c", c).arr("m", m).arr("y", y).arr("k", k)
        .arr("br", br).arr("bg", bg).arr("bb", bb).arr("gray_to_rgb_ok", back_gray_r).emit();
}

// rgba8 with every alpha: to gray / rgb / cmyk, against the conversion of the premultiplied rgb
static void rgba_row(int r, int g, int b) {
    std::vector<int> gl(256), gr(256), rl0(256), rl1(256), rl2(256), rr0(256), rr1(256), rr2(256), cl(256), cr(256), a_rgba(256), a_carry(256), pm0(256), pm1(256), pm2(256);
    for (int a = 0; a < 256; ++a) {
        gil::rgba8_pixel_t p(r, g, b, a);
        gil::rgb8_pixel_t pm(gil::channel_multiply(uint8_t(r), uint8_t(a)), gil::channel_multiply(uint8_t(g), uint8_t(a)), gil::channel_multiply(uint8_t(b), uint8_t(a)));
        pm0[a] = pm[0]; pm1[a] = pm[1]; pm2[a] = pm[2];
        { gil::gray8_pixel_t x, z; gil::color_convert(p, x); gil::color_convert(pm, z); gl[a] = x[0]; gr[a] = z[0]; }
        { gil::rgb8_pixel_t x, z; gil::color_convert(p, x); gil::color_convert(pm, z); rl0[a] = x[0]; rl1[a] = x[1]; rl2[a] = x[2]; rr0[a] = z[0]; rr1[a] = z[1]; rr2[a] = z[2]; }
        { gil::cmyk8_pixel_t x, z; gil::color_convert(p, x); gil::color_convert(pm, z); cl[a] = (x[0] << 24) >> 24 == x[0] ? (x[0] * 1000000 + x[1] * 10000 + x[2] * 100 + x[3] % 100) : 0; cr[a] = z[0] * 1000000 + z[1] * 10000 + z[2] * 100 + z[3] % 100;
          cl[a] = (x[0] == z[0] && x[1] == z[1] && x[2] == z[2] && x[3] == z[3]) ? 1 : 0; cr[a] = 1; }
        { gil::rgba8_pixel_t x; gil::color_convert(gil::rgb8_pixel_t(r, g, a), x); a_rgba[a] = x[3] * 1000 + (x[0] == r && x[1] == g && x[2] == a ? 1 : 0); }
        { gil::bgra8_pixel_t x; gil::color_convert(p, x); a_carry[a] = (gil::get_color(x, gil::alpha_t()) == a && gil::get_color(x, gil::red_t()) == r && gil::get_color(x, gil::blue_t()) == b) ? 1 : 0; }
    }
    J("RgbaRow").num("r", r).num("g", g).num("b", b).arr("pm0", pm0).arr("pm1", pm1).arr("pm2", pm2).arr("gray_l", gl).arr("gray_r", gr)
        .arr("r_l", rl0).arr("g_l", rl1).arr("b_l", rl2).arr("r_r", rr0).arr("g_r", rr1).arr("b_r", rr2).arr("cmyk_eq", cl)
        .arr("to_rgba", a_rgba).arr("rgba_to_bgra_ok", a_carry).emit();
}

// cmyk8 axes and neutrals, other layouts and depths
template <class P> std::vector<long long> chans(P const& p) { std::vector<long long> v; gil::static_for_each(p, [&](auto const& c) { v.push_back((long long)std::llround(double(c) * (std::is_floating_point<decltype(+c)>::value ? 1048576.0 : 1.0))); }); return v; }
template <class Ch> long long scaled(Ch c) { return (long long)c; }
inline long long scaled(gil::float32_t c) { return (long long)std::llround(double(float(c)) * 1048576.0); }
template <class P> std::vector<long long> sem(P const& p) {
    std::vector<long long> v; boost::mp11::mp_for_each<boost::mp11::mp_iota_c<gil::num_channels<P>::value>>([&](auto K) { v.push_back(scaled(gil::semantic_at_c<decltype(K)::value>(p))); }); return v;
}
template <class S, class D> void conv_event(const char* sname, const char* dname, S const& s, int smax, int dmax) {
    D d; gil::color_convert(s, d);
    J("Conv").str("s", sname).str("d", dname).arr("sv", sem(s)).arr("dv", sem(d)).num("smax", smax).num("dmax", dmax).emit();
}

// rgba sources of one depth into destinations of another: equals converting the alpha-premultiplied rgb (same depth as the source)
template <class S, class SRgb, class D> void rgba_cross(const char* sname, const char* dname, vt::Rng& rng, long long smax) {
    using ch = typename gil::channel_type<S>::type;
    std::vector<long long> alphas = {0, 1, 2, 127, 128, 254, 255, 256, 257, smax / 2, smax - 1, smax};
    for (long long a : alphas) for (int t = 0; t < 6; ++t) {
        if (a > smax) continue;
        long long r = t == 0 ? smax : t == 1 ? 0 : (long long)(rng.next() % (unsigned long long)(smax + 1)), g = t == 0 ? smax : (long long)(rng.next() % (unsigned long long)(smax + 1)), b = t == 1 ? 0 : (long long)(rng.next() % (unsigned long long)(smax + 1));
        S s; gil::get_color(s, gil::red_t()) = (ch)r; gil::get_color(s, gil::green_t()) = (ch)g; gil::get_color(s, gil::blue_t()) = (ch)b; gil::get_color(s, gil::alpha_t()) = (ch)a;
        SRgb pm((ch)gil::channel_multiply((ch)r, (ch)a), (ch)gil::channel_multiply((ch)g, (ch)a), (ch)gil::channel_multiply((ch)b, (ch)a));
        D direct, via; gil::color_convert(s, direct); gil::color_convert(pm, via);
        J("RgbaX").str("s", sname).str("d", dname).arr("src", std::vector<long long>{r, g, b, a}).arr("direct", sem(direct)).arr("via", sem(via)).emit();
    }
}
static void misc(vt::Rng& rng) {
    rgba_cross<gil::rgba16_pixel_t, gil::rgb16_pixel_t, gil::rgb8_pixel_t>("rgba16", "rgb8", rng, 65535);
    rgba_cross<gil::rgba16_pixel_t, gil::rgb16_pixel_t, gil::gray8_pixel_t>("rgba16", "gray8", rng, 65535);
    rgba_cross<gil::abgr16_pixel_t, gil::rgb16_pixel_t, gil::cmyk8_pixel_t>("abgr16", "cmyk8", rng, 65535);
    rgba_cross<gil::rgba8_pixel_t, gil::rgb8_pixel_t, gil::rgb16_pixel_t>("rgba8", "rgb16", rng, 255);
    rgba_cross<gil::bgra8_pixel_t, gil::rgb8_pixel_t, gil::gray16_pixel_t>("bgra8", "gray16", rng, 255);
    rgba_cross<gil::rgba8_pixel_t, gil::rgb8_pixel_t, gil::rgb32f_pixel_t>("rgba8", "rgb32f", rng, 255);
    rgba_cross<gil::argb8_pixel_t, gil::rgb8_pixel_t, gil::bgr8_pixel_t>("argb8", "bgr8", rng, 255);
    // cmyk8 axes -> rgb8 -> and neutrals
    for (int v = 0; v < 256; ++v) {
        conv_event<gil::cmyk8_pixel_t, gil::rgb8_pixel_t>("cmyk8", "rgb8", gil::cmyk8_pixel_t(v, 0, 0, 0), 255, 255);
        conv_event<gil::cmyk8_pixel_t, gil::rgb8_pixel_t>("cmyk8", "rgb8", gil::cmyk8_pixel_t(0, 0, 0, v), 255, 255);
        conv_event<gil::cmyk8_pixel_t, gil::rgb8_pixel_t>("cmyk8", "rgb8", gil::cmyk8_pixel_t(v, v, v, 0), 255, 255);
        conv_event<gil::cmyk8_pixel_t, gil::rgb8_pixel_t>("cmyk8", "rgb8", gil::cmyk8_pixel_t(v, 255 - v, 17, v / 2), 255, 255);
        conv_event<gil::cmyk8_pixel_t, gil::gray8_pixel_t>("cmyk8", "gray8", gil::cmyk8_pixel_t(v, 255 - v, 17, v / 2), 255, 255);
        conv_event<gil::gray8_pixel_t, gil::rgb8_pixel_t>("gray8", "rgb8", gil::gray8_pixel_t(v), 255, 255);
        conv_event<gil::gray8_pixel_t, gil::rgba8_pixel_t>("gray8", "rgba8", gil::gray8_pixel_t(v), 255, 255);
        conv_event<gil::gray8_pixel_t, gil::cmyk8_pixel_t>("gray8", "cmyk8", gil::gray8_pixel_t(v), 255, 255);
        conv_event<gil::gray8_pixel_t, gil::gray16_pixel_t>("gray8", "gray16", gil::gray8_pixel_t(v), 255, 65535);
        // same colour space, other depth / layout: per-channel channel_convert paired by colour
        conv_event<gil::rgb8_pixel_t, gil::bgr16_pixel_t>("rgb8", "bgr16", gil::rgb8_pixel_t(v, 255 - v, (v * 7) % 256), 255, 65535);
        conv_event<gil::bgr16_pixel_t, gil::rgb8_pixel_t>("bgr16", "rgb8", gil::bgr16_pixel_t(v * 257, 65535 - v * 255, (v * 771) % 65536), 65535, 255);
        conv_event<gil::argb8_pixel_t, gil::rgba16_pixel_t>("argb8", "rgba16", gil::argb8_pixel_t(v, 255 - v, (v * 7) % 256, (v * 3) % 256), 255, 65535);
        conv_event<gil::cmyk8_pixel_t, gil::cmyk16_pixel_t>("cmyk8", "cmyk16", gil::cmyk8_pixel_t(v, 255 - v, 17, v / 2), 255, 65535);
        // to rgba of another depth: alpha must be the destination maximum
        conv_event<gil::rgb8_pixel_t, gil::rgba16_pixel_t>("rgb8", "rgba16", gil::rgb8_pixel_t(v, 255 - v, 9), 255, 65535);
        conv_event<gil::gray8_pixel_t, gil::abgr16_pixel_t>("gray8", "abgr16", gil::gray8_pixel_t(v), 255, 65535);
        conv_event<gil::cmyk8_pixel_t, gil::rgba16_pixel_t>("cmyk8", "rgba16", gil::cmyk8_pixel_t(v, 3, 255 - v, 9), 255, 65535);
        conv_event<gil::rgb16_pixel_t, gil::rgba8_pixel_t>("rgb16", "rgba8", gil::rgb16_pixel_t(v * 257, 65535 - v * 257, 99), 65535, 255);
        conv_event<gil::rgb8_pixel_t, gil::rgba32f_pixel_t>("rgb8", "rgba32f", gil::rgb8_pixel_t(v, 255 - v, 9), 255, 1048576);
        conv_event<gil::rgb32f_pixel_t, gil::rgba8_pixel_t>("rgb32f", "rgba8", gil::rgb32f_pixel_t(v / 255.0f, 1.0f - v / 255.0f, 0.25f), 1048576, 255);
        // 16-bit / float: neutrals, gray of (v,v,v), range
        conv_event<gil::rgb16_pixel_t, gil::gray16_pixel_t>("rgb16", "gray16", gil::rgb16_pixel_t(v * 257, v * 257, v * 257), 65535, 65535);
        conv_event<gil::rgb16_pixel_t, gil::cmyk16_pixel_t>("rgb16", "cmyk16", gil::rgb16_pixel_t(v * 257, 65535 - v * 257, (v * 771) % 65536), 65535, 65535);
        conv_event<gil::rgb32f_pixel_t, gil::gray32f_pixel_t>("rgb32f", "gray32f", gil::rgb32f_pixel_t(v / 255.0f, v / 255.0f, v / 255.0f), 1048576, 1048576);
        conv_event<gil::rgb32f_pixel_t, gil::cmyk32f_pixel_t>("rgb32f", "cmyk32f", gil::rgb32f_pixel_t(v / 255.0f, 1.0f - v / 255.0f, (v % 16) / 15.0f), 1048576, 1048576);
        conv_event<gil::cmyk32f_pixel_t, gil::rgb32f_pixel_t>("cmyk32f", "rgb32f", gil::cmyk32f_pixel_t(v / 255.0f, 1.0f - v / 255.0f, (v % 16) / 15.0f, (v % 7) / 6.0f), 1048576, 1048576);
        conv_event<gil::rgba32f_pixel_t, gil::gray32f_pixel_t>("rgba32f", "gray32f", gil::rgba32f_pixel_t(v / 255.0f, 1.0f - v / 255.0f, 0.5f, (v % 11) / 10.0f), 1048576, 1048576);
    }
    // other source layouts give the result of the same colours in rgb order
    for (int i = 0; i < (A->thorough() ? 4000 : 400); ++i) {
        int r = rng.below(256), g = rng.below(256), b = rng.below(256), a = rng.below(256);
        gil::rgb8_pixel_t p(r, g, b); gil::bgr8_pixel_t q(b, g, r);
        uint8_t pr = r, pg = g, pb = b; gil::planar_pixel_reference<uint8_t&, gil::rgb_t> pl(pr, pg, pb);
        gil::gray8_pixel_t g1, g2, g3; gil::color_convert(p, g1); gil::color_convert(q, g2); gil::color_convert(pl, g3);
        gil::cmyk8_pixel_t c1, c2; gil::color_convert(p, c1); gil::color_convert(q, c2);
        gil::rgba8_pixel_t ra(r, g, b, a); gil::argb8_pixel_t ar(a, r, g, b); gil::abgr8_pixel_t ab(a, b, g, r);
        gil::gray8_pixel_t h1, h2, h3; gil::color_convert(ra, h1); gil::color_convert(ar, h2); gil::color_convert(ab, h3);
        J("Layouts").arr("rgb", std::vector<int>{r, g, b, a}).arr("gray", std::vector<int>{g1[0], g2[0], g3[0]}).arr("gray_a", std::vector<int>{h1[0], h2[0], h3[0]})
            .boolean("cmyk_same", c1 == c2).emit();
    }
    // views and algorithms agree with color_convert of each pixel
    for (int rep = 0; rep < 6; ++rep) {
        gil::rgb8_image_t img(4, 4); for (auto& px : gil::view(img)) px = gil::rgb8_pixel_t(rng.below(256), rng.below(256), rng.below(256));
        std::vector<int> direct, viaview, viacopy;
        gil::gray8_image_t out(4, 4); gil::copy_and_convert_pixels(gil::const_view(img), gil::view(out));
        auto ccv = gil::color_converted_view<gil::gray8_pixel_t>(gil::const_view(img));
        gil::cmyk8_image_t outc(4, 4); gil::copy_and_convert_pixels(gil::const_view(img), gil::view(outc));
        auto ccvc = gil::color_converted_view<gil::cmyk8_pixel_t>(gil::const_view(img));
        for (int yv = 0; yv < 4; ++yv) for (int x = 0; x < 4; ++x) {
            gil::gray8_pixel_t d; gil::color_convert(gil::const_view(img)(x, yv), d); gil::cmyk8_pixel_t dc; gil::color_convert(gil::const_view(img)(x, yv), dc);
            direct.push_back(d[0]); viaview.push_back(gil::gray8_pixel_t(ccv(x, yv))[0]); viacopy.push_back(gil::view(out)(x, yv)[0]);
            direct.push_back(dc[0] * 256 + dc[3]); { gil::cmyk8_pixel_t t = ccvc(x, yv); viaview.push_back(t[0] * 256 + t[3]); } viacopy.push_back(gil::view(outc)(x, yv)[0] * 256 + gil::view(outc)(x, yv)[3]);
        }
        J("ViewAgree").arr("direct", direct).arr("view", viaview).arr("copy", viacopy).emit();
    }
}

int main(int argc, char** argv) {
    vt::Args args(argc, argv); A = &args; vt::install_handlers(); vt::T().open(args.out.c_str());
    vt::Rng rng(args.seed * 977 + 13);
    long idx = 0;
    auto mine = [&]() { return (idx++ % args.nshards) == args.shard; };
    if (args.thorough()) {
        for (int r = 0; r < 256; ++r) for (int g = 0; g < 256; ++g) if (mine()) rgb_row(r, g);
    } else {
        std::vector<int> lat; for (int v = 0; v < 256; v += 15) lat.push_back(v); for (int v : {1, 2, 127, 128, 253, 254}) lat.push_back(v);
        for (int r : lat) for (int g : lat) if (mine()) rgb_row(r, g);
        for (int i = 0; i < 400; ++i) { int r = rng.below(256), g = rng.below(256); if (mine()) rgb_row(r, g); }
    }
    for (int r = 0; r < 256; r += (args.thorough() ? 1 : 5)) if (mine()) rgba_row(r, (r * 3 + 40) % 256, 255 - r);
    for (int v : {0, 255}) if (mine()) rgba_row(v, v, v);
    if (mine()) misc(rng);
    J("End").num("events", vt::T().events).emit(); vt::T().close(); return 0;
}
