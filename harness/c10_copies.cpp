// C10: copies and converting copies are deep and equal to their source, for real pixel types, with row padding on either side.
// One CopyEq event per (source image type / alignment, destination image type / alignment, shape, way of copying):
//   "copy-ctor"        D d(s)                      same type
//   "convert-ctor"     D d(s)                      other organisation (interleaved <-> planar) / same
//   "view-ctor"        D d(const_view(s), align)   from a view, with the destination's own alignment
//   "assign"           d = s                       into an image of other dimensions (same and other organisation)
//   "assign-same-dims" d = s                       into an image of the same dimensions (storage kept)
// The event carries the pixels of source and copy (colour order) and the result of a write to the copy.
#include <boost/gil.hpp>
#include "lib/trace.hpp"
namespace gil = boost::gil;
using vt::J;
static vt::Args* A;
static long g_idx = 0;
static bool mine() { return (g_idx++ % A->nshards) == A->shard; }

template <class View> std::vector<long> flat(View const& v) {
    std::vector<long> r;
    for (int y = 0; y < v.height(); ++y) for (int x = 0; x < v.width(); ++x) { typename View::value_type p(v(x, y));
        boost::mp11::mp_for_each<boost::mp11::mp_iota_c<gil::num_channels<View>::value>>([&](auto K) { r.push_back((long)gil::semantic_at_c<decltype(K)::value>(p)); }); }
    return r;
}
template <class Img> void paint(Img& img, vt::Rng& rng) {
    for (int y = 0; y < img.height(); ++y) for (int x = 0; x < img.width(); ++x) { typename Img::value_type p;
        gil::static_for_each(p, [&](auto&& ch) { using C = std::decay_t<decltype(ch)>; long mx = (long)gil::channel_traits<C>::max_value();
            ch = static_cast<typename gil::channel_traits<C>::value_type>((1 + (long)rng.below(250)) % (mx + 1)); });
        gil::view(img)(x, y) = p; }
}
template <class S, class D> void emit(const char* how, const char* st, const char* dt, int w, int h, int sa, int da, S const& s, D& d) {
    std::vector<long> sp = flat(gil::const_view(s)), dp = flat(gil::const_view(d));
    bool eq = false; if constexpr (std::is_same<S, D>::value) eq = (s == d); else eq = gil::equal_pixels(gil::const_view(s), gil::const_view(d)) && s.dimensions() == d.dimensions();
    // deep: a write to the copy is not seen through the source
    bool alias = false;
    if (d.width() > 0 && d.height() > 0) { auto before = flat(gil::const_view(s)); auto p = gil::view(d)(0, 0); { auto&& c = gil::semantic_at_c<0>(p); using C = std::decay_t<decltype(c)>; c = static_cast<typename gil::channel_traits<C>::value_type>((long)c ^ 1); } gil::view(d)(0, 0) = p; alias = flat(gil::const_view(s)) != before; }
    J("CopyEq").str("how", how).str("src", st).str("dst", dt).num("w", w).num("h", h).num("salign", sa).num("dalign", da).num("dw", d.width()).num("dh", d.height())
        .arr("sp", sp).arr("dp", dp).boolean("eq", eq).boolean("alias", alias).emit();
}
template <class S, class D, bool MutView = false> void pair(const char* st, const char* dt) {
    static const int dims[][2] = {{0, 0}, {1, 1}, {5, 4}, {6, 3}, {3, 1}, {1, 5}, {7, 2}};
    vt::Rng rng(A->seed * 19 + 3);
    for (auto& wh : dims) for (int sa : {0, 8, 4}) for (int da : {0, 8, 16}) {
        if (!mine()) continue;
        int w = wh[0], h = wh[1];
        S s(w, h, (std::size_t)sa); paint(s, rng);
        if constexpr (std::is_same<S, D>::value) { D d(s); emit("copy-ctor", st, dt, w, h, sa, sa, s, d); }
        else { D d(s); emit("convert-ctor", st, dt, w, h, sa, sa, s, d); }
        // (constructing a bit-aligned image from a CONST view of one does not compile on this tree: the proxy reference of the source is
        //  passed to the constructor of the destination's mutable proxy; the mutable view is used for those types)
        if constexpr (MutView) { D d(gil::view(s), (std::size_t)da); emit("view-ctor", st, dt, w, h, sa, da, s, d); }
        else { D d(gil::const_view(s), (std::size_t)da); emit("view-ctor", st, dt, w, h, sa, da, s, d); }
        { D d(w + 1, h + 2, (std::size_t)da); paint(d, rng); d = s; emit("assign", st, dt, w, h, sa, da, s, d); }
        { D d(w, h, (std::size_t)da); paint(d, rng); d = s; emit("assign-same-dims", st, dt, w, h, sa, da, s, d); }
    }
}
int main(int argc, char** argv) {
    vt::Args args(argc, argv); A = &args; vt::install_handlers(); vt::T().open(args.out.c_str());
    vt::isolated([&] { pair<gil::rgb8_image_t, gil::rgb8_image_t>("rgb8", "rgb8"); pair<gil::rgb8_image_t, gil::rgb8_planar_image_t>("rgb8", "rgb8_planar"); pair<gil::rgb8_planar_image_t, gil::rgb8_image_t>("rgb8_planar", "rgb8"); }, 300);
    vt::isolated([&] { pair<gil::rgba8_image_t, gil::rgba8_planar_image_t>("rgba8", "rgba8_planar"); pair<gil::rgb8_planar_image_t, gil::rgb8_planar_image_t>("rgb8_planar", "rgb8_planar"); pair<gil::rgb8_image_t, gil::bgr8_image_t>("rgb8", "bgr8"); }, 300);
    vt::isolated([&] { pair<gil::gray8_image_t, gil::gray8_image_t>("gray8", "gray8"); pair<gil::rgb16_image_t, gil::rgb16_planar_image_t>("rgb16", "rgb16_planar"); }, 300);
    using pk565_t = gil::packed_image3_type<std::uint16_t, 5, 6, 5, gil::rgb_layout_t>::type;
    using ba565_t = gil::bit_aligned_image3_type<5, 6, 5, gil::rgb_layout_t>::type;
    using ba332_t = gil::bit_aligned_image3_type<3, 3, 2, gil::bgr_layout_t>::type;
    using ba1_t = gil::bit_aligned_image1_type<1, gil::gray_layout_t>::type;
    vt::isolated([&] { pair<pk565_t, pk565_t>("pk565", "pk565"); pair<ba565_t, ba565_t, true>("ba565", "ba565"); pair<ba1_t, ba1_t, true>("ba1", "ba1"); pair<ba332_t, ba332_t, true>("ba332", "ba332"); }, 300);
    J("End").num("events", vt::T().events).emit(); vt::T().close(); return 0;
}
