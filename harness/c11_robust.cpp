// C11 conformance driver: readers fed with truncated / corrupted / mutated files through every entry point and device.
// Every mutated file is processed in its own child process (ASan + UBSan + watchdog); each reader call is an Open event
// followed by a Ret event (return | throw); a crash, sanitizer report or timeout becomes a Fault event.
#include <boost/gil.hpp>
#include <boost/gil/extension/io/bmp.hpp>
#include <boost/gil/extension/io/pnm.hpp>
#include <boost/gil/extension/io/targa.hpp>
#include <boost/gil/extension/io/png.hpp>
#include <boost/gil/extension/io/tiff.hpp>
#include <boost/gil/extension/io/jpeg.hpp>
#include <fstream>
#include <sstream>
#include <cstdio>
#include "lib/trace.hpp"
namespace gil = boost::gil;
using vt::J;
static vt::Args* A;
static std::string g_tmp, g_corpus;
using Bytes = std::vector<unsigned char>;
static Bytes slurp(const std::string& p) { std::ifstream f(p, std::ios::binary); return Bytes((std::istreambuf_iterator<char>(f)), std::istreambuf_iterator<char>()); }
static void spit(const std::string& p, const Bytes& b) { std::ofstream f(p, std::ios::binary); f.write((const char*)b.data(), (std::streamsize)b.size()); }

template <class F> void call(const char* api, const char* dev, F f) {
    J("Open").str("api", api).str("dev", dev).emit();
    vt::T().flush();
    long w = -1, h = -1; std::string outcome = "return", what;
    try { f(w, h); } catch (std::ios_base::failure& e) { outcome = "throw"; what = "ios_base::failure"; } catch (std::exception& e) { outcome = "throw"; what = "std::exception"; } catch (...) { outcome = "throw"; what = "other"; }
    J("Ret").str("outcome", outcome).str("what", what).num("w", w).num("h", h).emit();
}

template <class Tag, class ScanOK> void all_calls(const std::string& path, int devsel, ScanOK) {
    auto dims = [](auto const& img, long& w, long& h) { w = img.width(); h = img.height(); };
    call("read_image_info", "filename", [&](long& w, long& h) { auto be = gil::read_image_info(path, Tag()); w = (long)be._info._width; h = (long)be._info._height; });
    call("read_and_convert_image", "filename", [&](long& w, long& h) { gil::rgb8_image_t img; gil::read_and_convert_image(path, img, Tag()); dims(img, w, h); });
    if (devsel % 3 == 1) call("read_and_convert_image", "stream", [&](long& w, long& h) { std::ifstream in(path, std::ios::binary); gil::rgb8_image_t img; gil::read_and_convert_image(in, img, Tag()); dims(img, w, h); });
    if constexpr (!std::is_same<Tag, gil::tiff_tag>::value)
        if (devsel % 3 == 2) call("read_and_convert_image", "FILE*", [&](long& w, long& h) { FILE* f = fopen(path.c_str(), "rb"); gil::rgb8_image_t img; gil::read_and_convert_image(f, img, Tag()); dims(img, w, h); });
    call("read_and_convert_view", "filename", [&](long& w, long& h) { gil::rgb8_image_t img(5, 4); gil::read_and_convert_view(path, gil::view(img), Tag()); dims(img, w, h); });
    if constexpr (ScanOK::value)
        call("scanline_reader", "filename", [&](long& w, long& h) {
            using reader_t = gil::scanline_reader<typename gil::get_read_device<char const*, Tag>::type, Tag>;
            reader_t reader = gil::make_scanline_reader(path.c_str(), Tag());
            w = (long)reader._info._width; h = (long)reader._info._height;
            long rows = 0; auto it = reader.begin(); auto end = reader.end(); for (; it != end; ++it) { auto* row = *it; if (reader._scanline_length > 0) { volatile unsigned char c = row[0]; (void)c; } if (++rows > 100000) break; } });   // (a zero-width file has empty rows: nothing to touch)
}

struct Base { std::string fmt, name; Bytes bytes; };

template <class Tag, class ScanOK> void run_case(const Base& b, const char* mut, const Bytes& data, long serial) {
    std::string path = g_tmp + "/r_" + std::to_string(getpid()) + "." + b.fmt;
    spit(path, data);
    Bytes head(data.begin(), data.begin() + std::min<size_t>(data.size(), 96));
    J("Case").str("fmt", b.fmt).str("base", b.name).str("mut", mut).num("len", (long long)data.size()).arr("head", head).emit();
    vt::isolated([&] { all_calls<Tag>(path, (int)serial, ScanOK()); }, 8);
    remove(path.c_str());
}

template <class Tag, class ScanOK> void mutate(const Base& b, vt::Rng& rng, long& serial, int shard, int nshards) {
    auto mine = [&]() { return (serial++ % nshards) == shard; };
    const Bytes& o = b.bytes; size_t n = o.size();
    if (mine()) run_case<Tag, ScanOK>(b, "original", o, serial);
    // truncations: every byte for small files, the header region plus a sample otherwise
    std::vector<size_t> cuts; for (size_t k = 0; k < n; ++k) if (n <= 700 || k < 130 || k % (A->thorough() ? 7 : 61) == 0 || k + 3 >= n) cuts.push_back(k);
    for (size_t k : cuts) if (mine()) { Bytes d(o.begin(), o.begin() + k); run_case<Tag, ScanOK>(b, ("trunc@" + std::to_string(k)).c_str(), d, serial); }
    // single-byte header corruptions with boundary values
    size_t hdr = std::min<size_t>(n, A->thorough() ? 96 : 64);
    for (size_t k = 0; k < hdr; ++k) for (int v : {0x00, 0x01, 0x7f, 0x80, 0xff}) { if (o[k] == v) continue; if (!A->thorough() && (k * 5 + v) % 2) continue;
        if (mine()) { Bytes d = o; d[k] = (unsigned char)v; run_case<Tag, ScanOK>(b, ("byte@" + std::to_string(k) + "=" + std::to_string(v)).c_str(), d, serial); } }
    // 16-bit / 32-bit little-endian fields at every even header offset set to boundary values
    for (size_t k = 0; k + 4 <= hdr; k += 2) for (uint32_t v : {0xFFFFu, 0x8000u, 0xFFFFFFFFu, 0x7FFFFFFFu}) { if (!A->thorough() && (k / 2 + (v & 3)) % 3) continue;
        if (mine()) { Bytes d = o; d[k] = v & 0xff; d[k + 1] = (v >> 8) & 0xff; if (v > 0xFFFF) { d[k + 2] = (v >> 16) & 0xff; d[k + 3] = (v >> 24) & 0xff; }
            run_case<Tag, ScanOK>(b, ("field@" + std::to_string(k) + "=" + std::to_string(v)).c_str(), d, serial); } }
    // seeded random multi-byte mutations in the body
    int nr = A->thorough() ? 400 : 40;
    for (int i = 0; i < nr; ++i) if (mine()) { Bytes d = o; int m = 1 + rng.below(4); for (int j = 0; j < m; ++j) d[rng.below((uint32_t)n)] = (unsigned char)rng.next();
        run_case<Tag, ScanOK>(b, ("random#" + std::to_string(i)).c_str(), d, serial); }
        else { int m = 1 + rng.below(4); for (int j = 0; j < m; ++j) { rng.below((uint32_t)n); rng.next(); } }
}

template <class Tag, class Img, class Info> Base gen(const char* fmt, const char* name, int w, int h, vt::Rng& rng, Info const& info, bool with_info) {
    Img img(w, h); for (auto& p : gil::view(img)) gil::static_for_each(p, [&](auto& c) { c = (unsigned char)rng.next(); });
    std::string path = g_tmp + "/g_" + std::to_string(getpid()) + "." + fmt;
    if (with_info) gil::write_view(path, gil::const_view(img), info); else gil::write_view(path, gil::const_view(img), Tag());
    Base b{fmt, name, slurp(path)}; remove(path.c_str()); return b;
}
static Base corpus(const char* fmt, const char* dir, const char* name) { return Base{fmt, name, slurp(g_corpus + "/" + dir + "/" + name)}; }
// PNM text files written by hand (tokenizer paths)
static Base text_pnm(const char* name, const std::string& s) { return Base{"pnm", name, Bytes(s.begin(), s.end())}; }

// hand-built valid palette BMPs (GIL cannot write them): every width, so that every row-padding residue of 1 / 4 / 8 bpp occurs
static Base pal_bmp(int bpp, int w, int h, vt::Rng& rng) {
    int ncol = 1 << bpp; int pitch = ((w * bpp + 31) / 32) * 4; int off = 54 + 4 * ncol; Bytes b(off + pitch * h, 0);
    auto le32 = [&](int at, uint32_t v) { b[at] = v & 255; b[at + 1] = (v >> 8) & 255; b[at + 2] = (v >> 16) & 255; b[at + 3] = (v >> 24) & 255; };
    b[0] = 'B'; b[1] = 'M'; le32(2, (uint32_t)b.size()); le32(10, off); le32(14, 40); le32(18, w); le32(22, h); b[26] = 1; b[28] = (unsigned char)bpp; le32(34, pitch * h); le32(46, ncol);
    for (int i = 0; i < ncol; ++i) { b[54 + 4 * i] = (unsigned char)rng.next(); b[55 + 4 * i] = (unsigned char)rng.next(); b[56 + 4 * i] = (unsigned char)rng.next(); }
    for (int y = 0; y < h; ++y) for (int k = 0; k < pitch; ++k) b[off + y * pitch + k] = (unsigned char)rng.next();
    return Base{"bmp", "valid-" + std::to_string(bpp) + "bpp-" + std::to_string(w) + "x" + std::to_string(h), b};
}
// hand-built valid true-colour BMPs: 15 / 16 bpp (GIL cannot write them), 24 and 32 bpp, every width (row padding residues)
static Base tc_bmp(int bppfield, int w, int h, vt::Rng& rng) {
    int bits = bppfield == 15 ? 16 : bppfield; int pitch = ((w * bits + 31) / 32) * 4; int off = 54; Bytes b(off + pitch * h, 0);
    auto le32 = [&](int at, uint32_t v) { b[at] = v & 255; b[at + 1] = (v >> 8) & 255; b[at + 2] = (v >> 16) & 255; b[at + 3] = (v >> 24) & 255; };
    b[0] = 'B'; b[1] = 'M'; le32(2, (uint32_t)b.size()); le32(10, off); le32(14, 40); le32(18, w); le32(22, h); b[26] = 1; b[28] = (unsigned char)bppfield; le32(34, pitch * h);
    for (int y = 0; y < h; ++y) for (int k = 0; k < pitch; ++k) b[off + y * pitch + k] = (unsigned char)rng.next();
    return Base{"bmp", "valid-" + std::to_string(bppfield) + "bpp-" + std::to_string(w) + "x" + std::to_string(h), b};
}
int main(int argc, char** argv) {
    vt::Args args(argc, argv); A = &args; vt::install_handlers(); vt::T().open(args.out.c_str());
    g_tmp = args.rest.size() > 0 ? args.rest[0] : "/tmp"; g_corpus = args.rest.size() > 1 ? args.rest[1] : "/repo/test/extension/io/images";
    vt::Rng rng(args.seed * 6007 + 11); long serial = 0;
    using Y = std::true_type; using N = std::false_type;
    gil::image_write_info<gil::bmp_tag> bi; gil::image_write_info<gil::pnm_tag> pi; gil::image_write_info<gil::targa_tag> ti; gil::image_write_info<gil::png_tag> gi; gil::image_write_info<gil::jpeg_tag> ji(90);
    gil::image_write_info<gil::tiff_tag> fi; fi._photometric_interpretation = PHOTOMETRIC_RGB;
    gil::image_write_info<gil::tiff_tag> ft = fi; ft._is_tiled = true; ft._tile_width = 16; ft._tile_length = 16; ft._compression = COMPRESSION_LZW;
    mutate<gil::bmp_tag, Y>(gen<gil::bmp_tag, gil::rgb8_image_t>("bmp", "gen-rgb8-5x4", 5, 4, rng, bi, false), rng, serial, args.shard, args.nshards);
    mutate<gil::bmp_tag, Y>(gen<gil::bmp_tag, gil::rgba8_image_t>("bmp", "gen-rgba8-3x2", 3, 2, rng, bi, false), rng, serial, args.shard, args.nshards);
    mutate<gil::bmp_tag, Y>(corpus("bmp", "bmp", "g01bw.bmp"), rng, serial, args.shard, args.nshards);
    mutate<gil::bmp_tag, Y>(corpus("bmp", "bmp", "g04rle.bmp"), rng, serial, args.shard, args.nshards);
    mutate<gil::bmp_tag, Y>(corpus("bmp", "bmp", "g08rle.bmp"), rng, serial, args.shard, args.nshards);
    mutate<gil::bmp_tag, Y>(corpus("bmp", "bmp", "g04.bmp"), rng, serial, args.shard, args.nshards);
    if (args.thorough()) { mutate<gil::bmp_tag, Y>(corpus("bmp", "bmp", "g08.bmp"), rng, serial, args.shard, args.nshards); mutate<gil::bmp_tag, Y>(corpus("bmp", "bmp", "g16def555.bmp"), rng, serial, args.shard, args.nshards);
                           mutate<gil::bmp_tag, Y>(corpus("bmp", "bmp", "g08os2.bmp"), rng, serial, args.shard, args.nshards); }
    // valid files of every width: only the unmodified file is read (a fault here has no excuse)
    for (int bpp : {1, 4, 8}) for (int w = 1; w <= (args.thorough() ? 72 : 41); ++w) { Base vb = pal_bmp(bpp, w, 1 + w % 3, rng); if ((serial++ % args.nshards) == args.shard) run_case<gil::bmp_tag, Y>(vb, "original", vb.bytes, serial); }
    for (int bpp : {15, 16, 24, 32}) for (int w = 1; w <= (args.thorough() ? 72 : 41); ++w) { Base vb = tc_bmp(bpp, w, 1 + w % 3, rng); if ((serial++ % args.nshards) == args.shard) run_case<gil::bmp_tag, Y>(vb, "original", vb.bytes, serial); }
    // ... and their mutations (header bytes / fields / truncations / body bytes) for one wide 16-bit file: bpp 15 <-> 16, other widths
    mutate<gil::bmp_tag, Y>(tc_bmp(16, 21, 2, rng), rng, serial, args.shard, args.nshards);
    mutate<gil::pnm_tag, Y>(gen<gil::pnm_tag, gil::gray8_image_t>("pnm", "gen-P5-5x4", 5, 4, rng, pi, false), rng, serial, args.shard, args.nshards);
    mutate<gil::pnm_tag, Y>(gen<gil::pnm_tag, gil::rgb8_image_t>("pnm", "gen-P6-3x2", 3, 2, rng, pi, false), rng, serial, args.shard, args.nshards);
    mutate<gil::pnm_tag, Y>(text_pnm("text-P2", "P2\n# comment\n3 2\n255\n1 2 3\n40 50 60\n"), rng, serial, args.shard, args.nshards);
    mutate<gil::pnm_tag, Y>(text_pnm("text-P3", "P3 2 2 255 1 2 3 4 5 6 7 8 9 10 11 12\n"), rng, serial, args.shard, args.nshards);
    mutate<gil::pnm_tag, Y>(text_pnm("text-P1", "P1\n4 2\n0 1 1 0\n1 0 0 1\n"), rng, serial, args.shard, args.nshards);
    mutate<gil::pnm_tag, Y>(text_pnm("text-P2-long-token", "P2 2 1 255 0000000000000000000000000000007 9\n"), rng, serial, args.shard, args.nshards);
    mutate<gil::targa_tag, Y>(gen<gil::targa_tag, gil::rgb8_image_t>("tga", "gen-rgb8-5x4", 5, 4, rng, ti, false), rng, serial, args.shard, args.nshards);
    mutate<gil::targa_tag, Y>(gen<gil::targa_tag, gil::rgba8_image_t>("tga", "gen-rgba8-3x2", 3, 2, rng, ti, false), rng, serial, args.shard, args.nshards);
    mutate<gil::targa_tag, Y>(corpus("tga", "targa", "24BPP_compressed.tga"), rng, serial, args.shard, args.nshards);
    if (args.thorough()) mutate<gil::targa_tag, Y>(corpus("tga", "targa", "32BPP_compressed_ul_origin.tga"), rng, serial, args.shard, args.nshards);
    mutate<gil::png_tag, Y>(gen<gil::png_tag, gil::rgb8_image_t>("png", "gen-rgb8-5x4", 5, 4, rng, gi, false), rng, serial, args.shard, args.nshards);
    mutate<gil::png_tag, Y>(gen<gil::png_tag, gil::gray16_image_t>("png", "gen-gray16-3x2", 3, 2, rng, gi, false), rng, serial, args.shard, args.nshards);
    mutate<gil::jpeg_tag, Y>(gen<gil::jpeg_tag, gil::rgb8_image_t>("jpg", "gen-rgb8-8x8", 8, 8, rng, ji, true), rng, serial, args.shard, args.nshards);
    mutate<gil::tiff_tag, Y>(gen<gil::tiff_tag, gil::rgb8_image_t>("tif", "gen-rgb8-strip-5x4", 5, 4, rng, fi, true), rng, serial, args.shard, args.nshards);
    mutate<gil::tiff_tag, N>(gen<gil::tiff_tag, gil::rgb8_image_t>("tif", "gen-rgb8-tile-20x18", 20, 18, rng, ft, true), rng, serial, args.shard, args.nshards);
    J("End").num("events", vt::T().events).emit(); vt::T().close(); return 0;
}
