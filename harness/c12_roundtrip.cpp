// C12 conformance driver: write_view followed by read_image for every lossless format / supported pixel type / shape /
// view organisation / device kind.  Events carry the source pixels, the pixels read back and (small BMP/PNM/TARGA) the file bytes.
#include <boost/gil.hpp>
#include <boost/gil/extension/io/bmp.hpp>
#include <boost/gil/extension/io/pnm.hpp>
#include <boost/gil/extension/io/targa.hpp>
#include <boost/gil/extension/io/png.hpp>
#include <boost/gil/extension/io/tiff.hpp>
#include <boost/gil/extension/io/jpeg.hpp>
#include <fstream>
#include <sstream>
#include <cstdio>
#include <cmath>
#include "lib/trace.hpp"
namespace gil = boost::gil;
using vt::J;
static vt::Args* A;
static std::string g_tmp;

template <class View> std::string pix_json(View const& v) {     // [[ch...] per pixel], row-major; float channels scaled by 2^16
    std::string s = "["; bool first = true;
    for (int y = 0; y < v.height(); ++y) for (int x = 0; x < v.width(); ++x) {
        if (!first) s += ','; first = false; s += '['; bool f2 = true;
        gil::static_for_each(v(x, y), [&](auto const& c) { if (!f2) s += ','; f2 = false;
            using C = typename std::remove_cv<typename std::remove_reference<decltype(c)>::type>::type;
            if (std::is_same<C, gil::float32_t>::value) s += std::to_string((long long)std::llround((double)c * 65536.0)); else s += std::to_string((long long)(unsigned long long)c); });
        s += ']';
    }
    return s + "]";
}
static std::vector<unsigned char> slurp(const std::string& p) { std::ifstream f(p, std::ios::binary); return std::vector<unsigned char>((std::istreambuf_iterator<char>(f)), std::istreambuf_iterator<char>()); }

template <class Img> void fill_random(Img& img, vt::Rng& rng, int kind) {
    for (auto& p : gil::view(img)) gil::static_for_each(p, [&](auto& c) { using C = typename std::remove_reference<decltype(c)>::type;
        if (std::is_same<C, gil::float32_t>::value) c = C(float((kind == 1 ? 128 : rng.below(257)) / 256.0));
        else { long long mx = (long long)gil::channel_traits<C>::max_value(); c = C(kind == 1 ? mx / 2 : (long long)(rng.next() % (unsigned long long)(mx + 1))); } });
}
template <class View, class Rng> void fill_view_random(View const& v, Rng& rng) {
    for (int y = 0; y < v.height(); ++y) for (int x = 0; x < v.width(); ++x) { auto&& p = v(x, y);
        gil::static_for_each(p, [&](auto const& c) { using C = typename std::remove_cv<typename std::remove_reference<decltype(c)>::type>::type; c = (unsigned)(rng.next() % ((unsigned long long)gil::channel_traits<C>::max_value() + 1)); }); }
}

static bool g_all_devices = false;
// write through one of the three device kinds, read back through the same kind into Img
template <class Tag, class View, class Img, class Info>
void one(const char* fmt, const char* type, const char* org, View const& v, Info const& info, bool with_info, bool lossless, const char* variant) {
    for (int dev = 0; dev < 3; ++dev) {
        if (dev == 1 && std::is_same<Tag, gil::tiff_tag>::value) continue;       // the TIFF backend has no FILE* device
        if (!A->thorough() && !g_all_devices && dev != 0 && (v.width() + v.height()) % 3 != dev % 3) continue;        // quick: other devices on a third of the shapes
        std::string path = g_tmp + "/rt_" + std::to_string(getpid()) + "." + fmt;
        const char* devname = dev == 0 ? "filename" : dev == 1 ? "FILE*" : "stream";
        J("Try").str("fmt", fmt).str("type", type).str("org", org).str("dev", devname).str("variant", variant).num("w", v.width()).num("h", v.height()).emit();
        vt::isolated([&] {
            bool threw = false; std::string what;
            Img back;
            try {
                if (dev == 0) { if (with_info) gil::write_view(path, v, info); else gil::write_view(path, v, Tag()); gil::read_image(path, back, Tag()); }
                else if (dev == 1) { if constexpr (!std::is_same<Tag, gil::tiff_tag>::value) {
                                     FILE* f = fopen(path.c_str(), "wb"); if (with_info) gil::write_view(f, v, info); else gil::write_view(f, v, Tag());   /* the device owns and closes the FILE* */
                                     FILE* g = fopen(path.c_str(), "rb"); gil::read_image(g, back, Tag()); } }
                else { { std::ofstream o(path, std::ios::binary); if (with_info) gil::write_view(o, v, info); else gil::write_view(o, v, Tag()); }
                       std::ifstream in(path, std::ios::binary); gil::read_image(in, back, Tag()); }
            } catch (std::exception& e) { threw = true; what = e.what(); }
            J j("RT"); j.str("fmt", fmt).str("type", type).str("org", org).str("dev", devname).str("variant", variant).boolean("lossless", lossless).boolean("threw", threw).str("what", what.substr(0, 80))
                .num("w", v.width()).num("h", v.height()).raw("src", pix_json(v)).num("bw", back.width()).num("bh", back.height()).raw("back", pix_json(gil::const_view(back)));
            auto bytes = slurp(path);
            j.num("flen", (long long)bytes.size());
            if (bytes.size() <= 400 && (std::string(fmt) == "bmp" || std::string(fmt) == "pnm" || std::string(fmt) == "tga")) j.arr("file", bytes);
            j.emit();
            // read the same file into an image of the VIEW's own pixel type (another channel order than the canonical image): same colours
            if constexpr (!std::is_same<typename View::value_type, typename Img::value_type>::value && !gil::is_bit_aligned<typename View::value_type>::value) {
                if (dev == 0 && !threw) {
                    using OwnImg = gil::image<typename View::value_type, false>;
                    OwnImg own; bool threw2 = false; std::string what2;
                    try { gil::read_image(path, own, Tag()); } catch (std::exception& e) { threw2 = true; what2 = e.what(); }
                    J k("RT"); k.str("fmt", fmt).str("type", type).str("org", std::string(org) + "/own-layout-image").str("dev", devname).str("variant", variant).boolean("lossless", lossless).boolean("threw", threw2).str("what", what2.substr(0, 80))
                        .num("w", v.width()).num("h", v.height()).raw("src", pix_json(v)).num("bw", own.width()).num("bh", own.height()).raw("back", pix_json(gil::const_view(own))).num("flen", (long long)bytes.size());
                    k.emit();
                }
            }
            remove(path.c_str());
        }, 60);
    }
}

// all organisations of one pixel type
template <class Tag, class Img, class PlanarImg, class Info>
void orgs(const char* fmt, const char* type, int w, int h, vt::Rng& rng, Info const& info, bool with_info, bool lossless, const char* variant, bool planar_ok) {
    Img img(w, h); fill_random(img, rng, 0);
    one<Tag, typename Img::const_view_t, Img>(fmt, type, "interleaved", gil::const_view(img), info, with_info, lossless, variant);
    if ((w + h) % 2 == 0 || A->thorough()) {
        Img big(w + 3, h + 2); fill_random(big, rng, 0);
        one<Tag, typename Img::const_view_t, Img>(fmt, type, "subview", gil::subimage_view(gil::const_view(big), 2, 1, w, h), info, with_info, lossless, variant);
        Img big2(2 * w, 2 * h); fill_random(big2, rng, 0);
        auto sv = gil::subsampled_view(gil::const_view(big2), 2, 2);
        one<Tag, decltype(sv), Img>(fmt, type, "stepped", sv, info, with_info, lossless, variant);
        auto fv = gil::flipped_up_down_view(gil::const_view(img));
        one<Tag, decltype(fv), Img>(fmt, type, "flipped", fv, info, with_info, lossless, variant);
    }
    if (planar_ok && ((w * h) % 2 == 1 || A->thorough())) {
        PlanarImg pimg(w, h); fill_random(pimg, rng, 0);
        one<Tag, typename PlanarImg::const_view_t, Img>(fmt, type, "planar", gil::const_view(pimg), info, with_info, lossless, variant);
    }
    // the same pixel type in another channel order (bgr / bgra / argb / abgr): written by colour, not by memory position
    {
        using P = typename Img::value_type; using C = typename gil::channel_type<P>::type; using CS = typename gil::color_space_type<P>::type;
        auto reordered = [&](auto layout_tag, const char* org) {
            using L = decltype(layout_tag); using RImg = gil::image<gil::pixel<C, L>, false>;
            RImg r(w, h); fill_random(r, rng, 0);
            one<Tag, typename RImg::const_view_t, Img>(fmt, type, org, gil::const_view(r), info, with_info, lossless, variant);
        };
        if constexpr (std::is_same<CS, gil::rgb_t>::value) { if ((w + 2 * h) % 3 == 0 || A->thorough()) reordered(gil::bgr_layout_t(), "bgr"); }
        if constexpr (std::is_same<CS, gil::rgba_t>::value) {
            if ((w + 2 * h) % 3 == 0 || A->thorough()) reordered(gil::bgra_layout_t(), "bgra");
            if ((w + 2 * h) % 3 == 1 || A->thorough()) reordered(gil::argb_layout_t(), "argb");
            if ((w + 2 * h) % 3 == 2 || A->thorough()) reordered(gil::abgr_layout_t(), "abgr");
        }
    }
    if (!lossless) {         // JPEG: constant and smooth content
        Img c(w, h); fill_random(c, rng, 1);
        one<Tag, typename Img::const_view_t, Img>(fmt, type, "constant", gil::const_view(c), info, with_info, false, variant);
        Img s(w, h); for (int y = 0; y < h; ++y) for (int x = 0; x < w; ++x) gil::static_fill(gil::view(s)(x, y), (uint8_t)(40 + 3 * x + 2 * y));
        one<Tag, typename Img::const_view_t, Img>(fmt, type, "gradient", gil::const_view(s), info, with_info, false, variant);
    }
}
template <class Tag, class BitImg, class Info>
void bits(const char* fmt, const char* type, int w, int h, vt::Rng& rng, Info const& info, bool with_info, const char* variant) {
    BitImg img(w, h); fill_view_random(gil::view(img), rng);
    one<Tag, typename BitImg::view_t, BitImg>(fmt, type, "bit_aligned", gil::view(img), info, with_info, true, variant);
    // structured contents: whole bytes of set / clear samples, runs that start and end on and off byte boundaries
    for (int pat = 0; pat < 4; ++pat) {
        if (!A->thorough() && (w + h + pat) % 2) continue;
        auto v = gil::view(img);
        unsigned long long mx = 0;
        { auto&& p0 = v(0, 0); gil::static_for_each(p0, [&](auto const& c) { using C = typename std::remove_cv<typename std::remove_reference<decltype(c)>::type>::type; mx = (unsigned long long)gil::channel_traits<C>::max_value(); }); }
        for (int y = 0; y < h; ++y) for (int x = 0; x < w; ++x) {
            unsigned val = (unsigned)(pat == 0 ? mx : pat == 1 ? 0u : pat == 2 ? (((x / 8) + y) % 2 ? mx : 0u) : ((x + 3 * y) % 11 < 8 ? mx : 0u));
            auto&& p = v(x, y); gil::static_for_each(p, [&](auto const& c) { c = val; });
        }
        const char* org = pat == 0 ? "bit_aligned/max" : pat == 1 ? "bit_aligned/zero" : pat == 2 ? "bit_aligned/bytes" : "bit_aligned/runs";
        one<Tag, typename BitImg::view_t, BitImg>(fmt, type, org, v, info, with_info, true, variant);
    }
}

int main(int argc, char** argv) {
    vt::Args args(argc, argv); A = &args; vt::install_handlers(); vt::T().open(args.out.c_str());
    g_tmp = args.rest.empty() ? "/tmp" : args.rest[0];
    long idx = 0; auto mine = [&]() { return (idx++ % args.nshards) == args.shard; };
    int N = args.thorough() ? 17 : 9;
    using gray1_img = gil::bit_aligned_image1_type<1, gil::gray_layout_t>::type;
    using gray2_img = gil::bit_aligned_image1_type<2, gil::gray_layout_t>::type;
    using gray4_img = gil::bit_aligned_image1_type<4, gil::gray_layout_t>::type;
    for (int w = 1; w <= N; ++w) for (int h = 1; h <= N; ++h) {
        if (!args.thorough() && !(h <= 3 || w == h || (w + 2 * h) % 5 == 0)) continue;           // quick: every width with heights 1..3, the diagonal and a sample
        vt::Rng rng(args.seed * 4099 + w * 131 + h);
        gil::image_write_info<gil::bmp_tag> bi; gil::image_write_info<gil::pnm_tag> pi; gil::image_write_info<gil::targa_tag> ti; gil::image_write_info<gil::png_tag> gi;
        if (mine()) { orgs<gil::bmp_tag, gil::rgb8_image_t, gil::rgb8_planar_image_t>("bmp", "rgb8", w, h, rng, bi, false, true, "", true);
                      orgs<gil::bmp_tag, gil::rgba8_image_t, gil::rgba8_planar_image_t>("bmp", "rgba8", w, h, rng, bi, false, true, "", true); }
        if (mine()) { orgs<gil::pnm_tag, gil::gray8_image_t, gil::gray8_image_t>("pnm", "gray8", w, h, rng, pi, false, true, "", false);
                      orgs<gil::pnm_tag, gil::rgb8_image_t, gil::rgb8_planar_image_t>("pnm", "rgb8", w, h, rng, pi, false, true, "", true);
                      bits<gil::pnm_tag, gray1_img>("pnm", "gray1", w, h, rng, pi, false, ""); }
        if (mine()) { orgs<gil::targa_tag, gil::rgb8_image_t, gil::rgb8_planar_image_t>("tga", "rgb8", w, h, rng, ti, false, true, "", true);
                      orgs<gil::targa_tag, gil::rgba8_image_t, gil::rgba8_planar_image_t>("tga", "rgba8", w, h, rng, ti, false, true, "", true); }
        if (mine()) { orgs<gil::png_tag, gil::gray8_image_t, gil::gray8_image_t>("png", "gray8", w, h, rng, gi, false, true, "", false);
                      orgs<gil::png_tag, gil::rgb8_image_t, gil::rgb8_planar_image_t>("png", "rgb8", w, h, rng, gi, false, true, "", true);
                      orgs<gil::png_tag, gil::rgba8_image_t, gil::rgba8_planar_image_t>("png", "rgba8", w, h, rng, gi, false, true, "", true); }
        if (mine()) { gil::image_write_info<gil::png_tag> gii; gii._interlace_method = PNG_INTERLACE_ADAM7;         // write option: Adam7 interlacing
                      orgs<gil::png_tag, gil::rgb8_image_t, gil::rgb8_planar_image_t>("png", "rgb8", w, h, rng, gii, true, true, "interlaced/", true);
                      orgs<gil::png_tag, gil::gray16_image_t, gil::gray16_image_t>("png", "gray16", w, h, rng, gii, true, true, "interlaced/", false);
                      /* (sub-byte images: the writer refuses interlacing with an exception) */ }
        if (mine()) { orgs<gil::png_tag, gil::gray16_image_t, gil::gray16_image_t>("png", "gray16", w, h, rng, gi, false, true, "", false);
                      orgs<gil::png_tag, gil::rgb16_image_t, gil::rgb16_planar_image_t>("png", "rgb16", w, h, rng, gi, false, true, "", true);
                      bits<gil::png_tag, gray1_img>("png", "gray1", w, h, rng, gi, false, ""); bits<gil::png_tag, gray2_img>("png", "gray2", w, h, rng, gi, false, ""); bits<gil::png_tag, gray4_img>("png", "gray4", w, h, rng, gi, false, ""); }
        // TIFF: strips and tiles, several compressions
        struct TV { const char* name; int comp; bool tiled; };
        for (TV tv : {TV{"strip/none", COMPRESSION_NONE, false}, TV{"strip/lzw", COMPRESSION_LZW, false}, TV{"strip/deflate", COMPRESSION_ADOBE_DEFLATE, false}, TV{"strip/packbits", COMPRESSION_PACKBITS, false},
                      TV{"tile16/none", COMPRESSION_NONE, true}, TV{"tile16/lzw", COMPRESSION_LZW, true}}) {
            if (!args.thorough() && tv.comp != COMPRESSION_NONE && (w + h) % 4 != 0) continue;
            gil::image_write_info<gil::tiff_tag> fi; fi._compression = tv.comp; fi._is_tiled = tv.tiled; fi._tile_width = 16; fi._tile_length = 16;
            fi._photometric_interpretation = PHOTOMETRIC_MINISBLACK;
            gil::image_write_info<gil::tiff_tag> fr = fi; fr._photometric_interpretation = PHOTOMETRIC_RGB;
            if (mine()) { orgs<gil::tiff_tag, gil::gray8_image_t, gil::gray8_image_t>("tif", "gray8", w, h, rng, fi, true, true, tv.name, false);
                          orgs<gil::tiff_tag, gil::rgb8_image_t, gil::rgb8_planar_image_t>("tif", "rgb8", w, h, rng, fr, true, true, tv.name, true); }
            if (mine() && (tv.comp == COMPRESSION_NONE || args.thorough())) {
                          orgs<gil::tiff_tag, gil::rgb16_image_t, gil::rgb16_planar_image_t>("tif", "rgb16", w, h, rng, fr, true, true, tv.name, true);
                          orgs<gil::tiff_tag, gil::gray32f_image_t, gil::gray32f_image_t>("tif", "gray32f", w, h, rng, fi, true, true, tv.name, false);
                          orgs<gil::tiff_tag, gil::rgba8_image_t, gil::rgba8_planar_image_t>("tif", "rgba8", w, h, rng, fr, true, true, tv.name, true);
                          bits<gil::tiff_tag, gray1_img>("tif", "gray1", w, h, rng, fi, true, tv.name); bits<gil::tiff_tag, gray4_img>("tif", "gray4", w, h, rng, fi, true, tv.name); }
        }
        if (mine()) { gil::image_write_info<gil::jpeg_tag> ji(100);
                      orgs<gil::jpeg_tag, gil::gray8_image_t, gil::gray8_image_t>("jpg", "gray8", w, h, rng, ji, true, false, "q100", false);
                      orgs<gil::jpeg_tag, gil::rgb8_image_t, gil::rgb8_planar_image_t>("jpg", "rgb8", w, h, rng, ji, true, false, "q100", true); }
    }
    // JPEG streams longer than the writer's output buffer (1 KiB): larger constant and smooth images
    for (auto d : {std::pair<int,int>{200, 200}, {64, 48}, {120, 33}}) {
        if (!mine()) continue; vt::Rng rng(args.seed * 17 + d.first);
        gil::image_write_info<gil::jpeg_tag> ji(100);
        orgs<gil::jpeg_tag, gil::gray8_image_t, gil::gray8_image_t>("jpg", "gray8", d.first, d.second, rng, ji, true, false, "q100/large", false);
        orgs<gil::jpeg_tag, gil::rgb8_image_t, gil::rgb8_planar_image_t>("jpg", "rgb8", d.first, d.second, rng, ji, true, false, "q100/large", true);
    }
    // dimensions that need more than one byte in a header field (>= 256), through every device
    for (auto d : {std::pair<int,int>{256, 2}, {2, 256}, {300, 3}, {5, 1000}}) {
        if (!mine()) continue; vt::Rng rng(args.seed * 23 + d.first);
        gil::image_write_info<gil::bmp_tag> bi; gil::image_write_info<gil::pnm_tag> pi; gil::image_write_info<gil::targa_tag> ti; gil::image_write_info<gil::png_tag> gi;
        bool save = false; std::swap(save, g_all_devices); g_all_devices = true;
        { gil::rgb8_image_t img(d.first, d.second); fill_random(img, rng, 0);
          one<gil::bmp_tag, gil::rgb8_image_t::const_view_t, gil::rgb8_image_t>("bmp", "rgb8", "large", gil::const_view(img), bi, false, true, "");
          one<gil::targa_tag, gil::rgb8_image_t::const_view_t, gil::rgb8_image_t>("tga", "rgb8", "large", gil::const_view(img), ti, false, true, "");
          one<gil::pnm_tag, gil::rgb8_image_t::const_view_t, gil::rgb8_image_t>("pnm", "rgb8", "large", gil::const_view(img), pi, false, true, "");
          one<gil::png_tag, gil::rgb8_image_t::const_view_t, gil::rgb8_image_t>("png", "rgb8", "large", gil::const_view(img), gi, false, true, ""); }
        g_all_devices = save;
    }
    // 1-bit images wide enough for several whole bytes per row
    for (auto d : {std::pair<int,int>{29, 4}, {40, 3}, {64, 2}, {17, 5}}) {
        if (!mine()) continue; vt::Rng rng(args.seed * 13 + d.first);
        gil::image_write_info<gil::pnm_tag> pi; gil::image_write_info<gil::png_tag> gi;
        bits<gil::pnm_tag, gray1_img>("pnm", "gray1", d.first, d.second, rng, pi, false, "wide");
        bits<gil::png_tag, gray1_img>("png", "gray1", d.first, d.second, rng, gi, false, "wide");
        gil::image_write_info<gil::tiff_tag> fi; fi._compression = COMPRESSION_NONE; fi._photometric_interpretation = PHOTOMETRIC_MINISBLACK;
        bits<gil::tiff_tag, gray1_img>("tif", "gray1", d.first, d.second, rng, fi, true, "strip/none/wide");
    }
    // TIFF with several tiles per row and column, square and non-square tiles, image sizes that are not multiples of the tile
    {
        struct TT { int w, h, tw, th; };
        for (TT t : {TT{40, 40, 16, 32}, TT{40, 40, 32, 16}, TT{33, 50, 16, 16}, TT{50, 21, 16, 32}, TT{21, 70, 32, 16}, TT{48, 32, 16, 16}}) {
            if (!mine()) continue; vt::Rng rng(args.seed * 31 + t.w * 7 + t.tw);
            gil::image_write_info<gil::tiff_tag> fi; fi._compression = COMPRESSION_NONE; fi._is_tiled = true; fi._tile_width = t.tw; fi._tile_length = t.th;
            fi._photometric_interpretation = PHOTOMETRIC_MINISBLACK;
            gil::image_write_info<gil::tiff_tag> fr = fi; fr._photometric_interpretation = PHOTOMETRIC_RGB;
            std::string name = "tile" + std::to_string(t.tw) + "x" + std::to_string(t.th) + "/none";
            orgs<gil::tiff_tag, gil::gray8_image_t, gil::gray8_image_t>("tif", "gray8", t.w, t.h, rng, fi, true, true, name.c_str(), false);
            orgs<gil::tiff_tag, gil::rgb8_image_t, gil::rgb8_planar_image_t>("tif", "rgb8", t.w, t.h, rng, fr, true, true, name.c_str(), true);
        }
    }
    J("End").num("events", vt::T().events).emit(); vt::T().close(); return 0;
}
