// C13 conformance driver: all ways of reading one file agree.  For every test file (written by GIL's own writers in every
// variant they can produce, plus files of the repository's corpus for the variants they cannot): the full native read
// (canon), read_image_info, the three device kinds, every / sampled sub-rectangles, read_view into a pre-allocated view
// inside a canary image, a too-small destination, read_and_convert_image against color_convert of the canon, the
// scanline reader and a run-time typed any_image read.  Validated by Trace_IoPaths.tla.
#include <boost/gil.hpp>
#include <boost/gil/extension/dynamic_image/any_image.hpp>
#include <boost/gil/extension/io/bmp.hpp>
#include <boost/gil/extension/io/pnm.hpp>
#include <boost/gil/extension/io/targa.hpp>
#include <boost/gil/extension/io/png.hpp>
#include <boost/gil/extension/io/tiff.hpp>
#include <boost/gil/extension/io/jpeg.hpp>
#include <fstream>
#include <png.h>
#include <cstdio>
#include <algorithm>
#include "lib/trace.hpp"
namespace gil = boost::gil;
using vt::J;
static vt::Args* A;
static std::string g_tmp, g_corpus;
static std::string g_truth;      // pixels handed to an independent encoder for the next file (colour order), "" = unknown

template <class View> std::string pix_json(View const& v) {         // channels in colour (semantic) order, so that bgr and rgb images compare by colour
    std::string s = "["; bool first = true;
    using P = typename View::value_type;
    for (int y = 0; y < v.height(); ++y) for (int x = 0; x < v.width(); ++x) {
        if (!first) s += ','; first = false; s += '['; bool f2 = true;
        boost::mp11::mp_for_each<boost::mp11::mp_iota_c<gil::num_channels<P>::value>>([&](auto K) { if (!f2) s += ','; f2 = false;
            s += std::to_string((long long)(unsigned long long)gil::semantic_at_c<decltype(K)::value>(v(x, y))); });
        s += ']';
    }
    return s + "]";
}
template <class Img> void fill_random(Img& img, vt::Rng& rng) {
    for (auto& p : gil::view(img)) gil::static_for_each(p, [&](auto& c) { using C = typename std::remove_reference<decltype(c)>::type; c = C((long long)(rng.next() % ((unsigned long long)gil::channel_traits<C>::max_value() + 1))); });
}

// Native: image type read natively (convert = false) or through read_and_convert (convert = true: the file's own type is not Native)
template <class Tag, class Native, bool Convert>
struct Reader {
    template <class Dev> static void full(Dev&& d, Native& img) { if (Convert) gil::read_and_convert_image(d, img, Tag()); else gil::read_image(d, img, Tag()); }
    template <class Dev> static void sub(Dev&& d, Native& img, int x, int y, int w, int h) {
        gil::image_read_settings<Tag> st(gil::point_t(x, y), gil::point_t(w, h));
        if (Convert) gil::read_and_convert_image(d, img, st); else gil::read_image(d, img, st);
    }
    template <class View> static void view(const std::string& p, View const& v) { if (Convert) gil::read_and_convert_view(p, v, Tag()); else gil::read_view(p, v, Tag()); }
};

template <class Tag, class Native, bool Convert, bool Scan, bool Any, class ScanImg = Native>
void paths(const char* fmt, const char* variant, const std::string& path, bool small, vt::Rng& rng) {
    using R = Reader<Tag, Native, Convert>;
    J("File").str("fmt", fmt).str("variant", variant).str("file", path.substr(path.find_last_of('/') + 1)).boolean("convert", Convert).emit();
    vt::isolated([&] {
        Native canon; R::full(path, canon);
        int W = (int)canon.width(), H = (int)canon.height();
        J("Canon").num("w", W).num("h", H).raw("pix", pix_json(gil::const_view(canon))).emit();
        if (!g_truth.empty()) J("Truth").raw("pix", g_truth).emit();
        { auto be = gil::read_image_info(path, Tag()); J("Info").num("w", (long long)be._info._width).num("h", (long long)be._info._height).emit(); }
        { FILE* f = fopen(path.c_str(), "rb"); Native a; bool ok = true;
          if constexpr (!std::is_same<Tag, gil::tiff_tag>::value) { R::full(f, a); } else { ok = false; fclose(f); }
          if (ok) J("Dev").str("dev", "FILE*").num("w", a.width()).num("h", a.height()).raw("pix", pix_json(gil::const_view(a))).emit(); }
        { std::ifstream in(path, std::ios::binary); Native a; R::full(in, a); J("Dev").str("dev", "stream").num("w", a.width()).num("h", a.height()).raw("pix", pix_json(gil::const_view(a))).emit(); }
    }, 60);
    // sub-rectangles: each in its own child (a failing partial read must not hide the others)
    {
        Native probe; bool okp = true; try { R::full(path, probe); } catch (...) { okp = false; }
        int W = okp ? (int)probe.width() : 0, H = okp ? (int)probe.height() : 0;
        std::vector<std::array<int, 4>> rects;
        if (small) { for (int x = 0; x < W; ++x) for (int y = 0; y < H; ++y) for (int w = 1; x + w <= W; ++w) for (int h = 1; y + h <= H; ++h) rects.push_back({x, y, w, h}); }
        else { rects.push_back({0, 0, W, H}); rects.push_back({1, 0, W - 1, H}); rects.push_back({0, 1, W, H - 1}); rects.push_back({0, H - 1, W, 1}); rects.push_back({W - 1, 0, 1, H});
               for (int i = 0; i < (A->thorough() ? 24 : 6); ++i) { int x = rng.below(W), y = rng.below(H); rects.push_back({x, y, 1 + (int)rng.below(W - x), 1 + (int)rng.below(H - y)}); } }
        rects.erase(std::remove_if(rects.begin(), rects.end(), [](std::array<int, 4> const& r) { return r[2] < 1 || r[3] < 1; }), rects.end());     // (1-pixel-wide files)
        // group rectangles per child to bound the number of processes, but never mix different y offsets of a failing family
        size_t per = small ? 8 : 1;
        for (size_t i = 0; i < rects.size(); i += per) {
            vt::isolated([&] {
                for (size_t k = i; k < std::min(rects.size(), i + per); ++k) { auto r = rects[k];
                    Native a; bool threw = false; try { R::sub(path, a, r[0], r[1], r[2], r[3]); } catch (std::exception&) { threw = true; }
                    J("Sub").num("x", r[0]).num("y", r[1]).num("w", r[2]).num("h", r[3]).boolean("threw", threw).num("bw", a.width()).num("bh", a.height()).raw("pix", pix_json(gil::const_view(a))).emit(); } }, 60);
        }
        // read_view into a pre-allocated view inside a canary image; then a destination that is too small
        vt::isolated([&] {
            Native big(W + 4, H + 3); fill_random(big, rng); Native before(big);
            auto dst = gil::subimage_view(gil::view(big), 2, 1, W, H);
            bool threw = false; try { R::view(path, dst); } catch (std::exception&) { threw = true; }
            long outside = 0; for (int y = 0; y < big.height(); ++y) for (int x = 0; x < big.width(); ++x) { bool in = x >= 2 && x < 2 + W && y >= 1 && y < 1 + H; if (!in && gil::view(big)(x, y) != gil::view(before)(x, y)) ++outside; }
            J("View").boolean("threw", threw).num("outside", outside).raw("pix", pix_json(dst)).emit();
            if (W >= 2 && H >= 2) {
                Native big2(W + 4, H + 3); fill_random(big2, rng); Native before2(big2);
                auto sdst = gil::subimage_view(gil::view(big2), 2, 1, W - 1, H - 1);
                bool threw2 = false; try { R::view(path, sdst); } catch (std::exception&) { threw2 = true; }
                long out2 = 0; for (int y = 0; y < big2.height(); ++y) for (int x = 0; x < big2.width(); ++x) { bool in = x >= 2 && x < 1 + W && y >= 1 && y < H; if (!in && gil::view(big2)(x, y) != gil::view(before2)(x, y)) ++out2; }
                J("Small").boolean("threw", threw2).num("outside", out2).emit();
            } }, 60);
        // read_and_convert_image into other pixel types = color_convert of the canon, pixel by pixel
        vt::isolated([&] {
            Native canon; R::full(path, canon);
            { gil::gray8_image_t c; gil::read_and_convert_image(path, c, Tag()); gil::gray8_image_t e(canon.dimensions()); gil::copy_and_convert_pixels(gil::const_view(canon), gil::view(e));
              if (!Convert) J("Conv").str("type", "gray8").raw("pix", pix_json(gil::const_view(c))).raw("expect", pix_json(gil::const_view(e))).emit(); }
            { gil::rgba8_image_t c; gil::read_and_convert_image(path, c, Tag()); gil::rgba8_image_t e(canon.dimensions()); gil::copy_and_convert_pixels(gil::const_view(canon), gil::view(e));
              if (!Convert) J("Conv").str("type", "rgba8").raw("pix", pix_json(gil::const_view(c))).raw("expect", pix_json(gil::const_view(e))).emit(); }
            { gil::rgb16_image_t c; gil::read_and_convert_image(path, c, Tag()); gil::rgb16_image_t e(canon.dimensions()); gil::copy_and_convert_pixels(gil::const_view(canon), gil::view(e));
              if (!Convert) J("Conv").str("type", "rgb16").raw("pix", pix_json(gil::const_view(c))).raw("expect", pix_json(gil::const_view(e))).emit(); }
        }, 60);
        if constexpr (Scan) vt::isolated([&] {
            try {
                using reader_t = gil::scanline_reader<typename gil::get_read_device<char const*, Tag>::type, Tag>;
                reader_t reader = gil::make_scanline_reader(path.c_str(), Tag());
                ScanImg dst(reader._info._width, reader._info._height);      // the scanline reader yields rows in the file's own channel order (bgr for BMP / TARGA)
                auto it = reader.begin(); auto end = reader.end();
                for (int row = 0; it != end; ++it, ++row)
                    gil::copy_pixels(gil::interleaved_view(reader._info._width, 1, (typename ScanImg::view_t::x_iterator)*it, reader._scanline_length), gil::subimage_view(gil::view(dst), 0, row, reader._info._width, 1));
                if constexpr (gil::num_channels<ScanImg>::value == 4 && gil::num_channels<Native>::value == 3) {
                    // palette BMP rows arrive as rgba8 (alpha = the palette's reserved byte): compare the colour channels
                    Native proj(dst.dimensions());
                    for (int y = 0; y < dst.height(); ++y) for (int x = 0; x < dst.width(); ++x) { auto const& sp = gil::const_view(dst)(x, y); auto& dp = gil::view(proj)(x, y);
                        gil::get_color(dp, gil::red_t()) = gil::get_color(sp, gil::red_t()); gil::get_color(dp, gil::green_t()) = gil::get_color(sp, gil::green_t()); gil::get_color(dp, gil::blue_t()) = gil::get_color(sp, gil::blue_t()); }
                    J("Scan").boolean("threw", false).num("w", proj.width()).num("h", proj.height()).raw("pix", pix_json(gil::const_view(proj))).emit();
                } else
                J("Scan").boolean("threw", false).num("w", dst.width()).num("h", dst.height()).raw("pix", pix_json(gil::const_view(dst))).emit();
            } catch (std::exception& e) { J("Scan").boolean("threw", true).str("what", std::string(e.what()).substr(0, 80)).num("w", 0).num("h", 0).raw("pix", "[]").emit(); } }, 60);
        if constexpr (Any) vt::isolated([&] {
            try {
                gil::any_image<gil::gray8_image_t, gil::gray16_image_t, gil::rgb8_image_t, gil::rgba8_image_t, gil::rgb16_image_t> any;
                gil::read_image(path, any, Tag());
                std::string pj; int w = 0, h = 0; int idx = (int)any.index();
                gil::apply_operation(gil::const_view(any), [&](auto const& v) { pj = pix_json(v); w = (int)v.width(); h = (int)v.height(); });
                J("Any").boolean("threw", false).num("index", idx).num("w", w).num("h", h).raw("pix", pj).emit();
            } catch (std::exception& e) { J("Any").boolean("threw", true).str("what", std::string(e.what()).substr(0, 80)).num("index", -1).num("w", 0).num("h", 0).raw("pix", "[]").emit(); } }, 60);
    }
    J("EndFile").emit();
}

// files produced by GIL's writers
template <class Tag, class Img, class Info> std::string make(const char* ext, int w, int h, vt::Rng& rng, Info const& info, bool with_info) {
    Img img(w, h); fill_random(img, rng);
    std::string path = g_tmp + "/p_" + std::to_string(getpid()) + "_" + std::to_string(rng.below(1000000)) + "." + ext;
    if (with_info) gil::write_view(path, gil::const_view(img), info); else gil::write_view(path, gil::const_view(img), Tag());
    return path;
}

int main(int argc, char** argv) {
    vt::Args args(argc, argv); A = &args; vt::install_handlers(); vt::T().open(args.out.c_str());
    g_tmp = args.rest.size() > 0 ? args.rest[0] : "/tmp"; g_corpus = args.rest.size() > 1 ? args.rest[1] : "/repo/test/extension/io/images";
    bool only_enc = args.rest.size() > 2 && args.rest[2] == "enc";      // extension X04: only the files of the independent encoders
    bool gate = !only_enc;
    long idx = 0; auto mine = [&]() { bool m = (idx++ % args.nshards) == args.shard; return m && gate; };
    std::vector<std::pair<int,int>> dims = {{5, 4}, {3, 2}, {1, 1}, {4, 1}, {1, 3}};
    if (args.thorough()) { dims.push_back({8, 6}); dims.push_back({7, 5}); dims.push_back({2, 5}); }
    for (auto d : dims) {
        int w = d.first, h = d.second; vt::Rng rng(args.seed * 9176 + w * 37 + h);
        gil::image_write_info<gil::bmp_tag> bi; gil::image_write_info<gil::pnm_tag> pi; gil::image_write_info<gil::targa_tag> ti; gil::image_write_info<gil::png_tag> gi; gil::image_write_info<gil::jpeg_tag> ji(100);
        if (mine()) { auto p = make<gil::bmp_tag, gil::rgb8_image_t>("bmp", w, h, rng, bi, false); paths<gil::bmp_tag, gil::rgb8_image_t, false, true, true, gil::bgr8_image_t>("bmp", "rgb8", p, true, rng); remove(p.c_str()); }
        if (mine()) { auto p = make<gil::bmp_tag, gil::rgba8_image_t>("bmp", w, h, rng, bi, false); paths<gil::bmp_tag, gil::rgba8_image_t, false, true, true, gil::bgra8_image_t>("bmp", "rgba8", p, true, rng); remove(p.c_str()); }
        if (mine()) { auto p = make<gil::pnm_tag, gil::gray8_image_t>("pnm", w, h, rng, pi, false); paths<gil::pnm_tag, gil::gray8_image_t, false, true, true>("pnm", "P5", p, true, rng); remove(p.c_str()); }
        if (mine()) { auto p = make<gil::pnm_tag, gil::rgb8_image_t>("pnm", w, h, rng, pi, false); paths<gil::pnm_tag, gil::rgb8_image_t, false, true, true>("pnm", "P6", p, true, rng); remove(p.c_str()); }
        if (mine()) { auto p = make<gil::targa_tag, gil::rgb8_image_t>("tga", w, h, rng, ti, false); paths<gil::targa_tag, gil::rgb8_image_t, false, true, true, gil::bgr8_image_t>("tga", "rgb8", p, true, rng); remove(p.c_str()); }
        if (mine()) { auto p = make<gil::targa_tag, gil::rgba8_image_t>("tga", w, h, rng, ti, false); paths<gil::targa_tag, gil::rgba8_image_t, false, true, true, gil::bgra8_image_t>("tga", "rgba8", p, true, rng); remove(p.c_str()); }
        if (mine()) { auto p = make<gil::png_tag, gil::gray8_image_t>("png", w, h, rng, gi, false); paths<gil::png_tag, gil::gray8_image_t, false, true, true>("png", "gray8", p, true, rng); remove(p.c_str()); }
        if (mine()) { auto p = make<gil::png_tag, gil::rgb8_image_t>("png", w, h, rng, gi, false); paths<gil::png_tag, gil::rgb8_image_t, false, true, true>("png", "rgb8", p, true, rng); remove(p.c_str()); }
        if (mine()) { auto p = make<gil::png_tag, gil::rgba8_image_t>("png", w, h, rng, gi, false); paths<gil::png_tag, gil::rgba8_image_t, false, true, true>("png", "rgba8", p, true, rng); remove(p.c_str()); }
        if (mine()) { auto p = make<gil::png_tag, gil::rgb16_image_t>("png", w, h, rng, gi, false); paths<gil::png_tag, gil::rgb16_image_t, false, true, true>("png", "rgb16", p, true, rng); remove(p.c_str()); }
        for (int tiled = 0; tiled < 2; ++tiled) {
            gil::image_write_info<gil::tiff_tag> fi; fi._is_tiled = tiled; fi._tile_width = 16; fi._tile_length = 16; fi._photometric_interpretation = PHOTOMETRIC_RGB; fi._compression = tiled ? COMPRESSION_LZW : COMPRESSION_NONE;
            gil::image_write_info<gil::tiff_tag> fg = fi; fg._photometric_interpretation = PHOTOMETRIC_MINISBLACK;
            if (mine()) { auto p = make<gil::tiff_tag, gil::rgb8_image_t>("tif", w, h, rng, fi, true); paths<gil::tiff_tag, gil::rgb8_image_t, false, true, true>("tif", tiled ? "rgb8/tile" : "rgb8/strip", p, true, rng); remove(p.c_str()); }
            if (mine()) { auto p = make<gil::tiff_tag, gil::gray8_image_t>("tif", w, h, rng, fg, true); paths<gil::tiff_tag, gil::gray8_image_t, false, true, true>("tif", tiled ? "gray8/tile" : "gray8/strip", p, true, rng); remove(p.c_str()); }
        }
        if (mine()) { auto p = make<gil::jpeg_tag, gil::rgb8_image_t>("jpg", w, h, rng, ji, true); paths<gil::jpeg_tag, gil::rgb8_image_t, false, true, true>("jpg", "rgb8", p, true, rng); remove(p.c_str()); }
        if (mine()) { auto p = make<gil::jpeg_tag, gil::gray8_image_t>("jpg", w, h, rng, ji, true); paths<gil::jpeg_tag, gil::gray8_image_t, false, true, true>("jpg", "gray8", p, true, rng); remove(p.c_str()); }
    }
    // tiled TIFF wider than one tile (partial tiles on the right and bottom edges)
    for (auto d : {std::pair<int,int>{40, 37}, {33, 18}}) { if (!mine()) continue; vt::Rng rng(args.seed * 31 + d.first);
        gil::image_write_info<gil::tiff_tag> fi; fi._is_tiled = true; fi._tile_width = 16; fi._tile_length = 16; fi._photometric_interpretation = PHOTOMETRIC_RGB;
        auto p = make<gil::tiff_tag, gil::rgb8_image_t>("tif", d.first, d.second, rng, fi, true); paths<gil::tiff_tag, gil::rgb8_image_t, false, false, false>("tif", "rgb8/tile16/large", p, false, rng); remove(p.c_str()); }
    // rows wider than the stream buffers of the devices (one read() call spans several refills): devices must still agree
    for (int which = 0; which < 3; ++which) { if (!mine()) continue; vt::Rng rng(args.seed * 53 + which);
        vt::isolated([&] {
            gil::rgb8_image_t img(6000, 3); fill_random(img, rng); std::string path = g_tmp + "/wide_" + std::to_string(getpid()) + (which == 0 ? ".pnm" : which == 1 ? ".bmp" : ".tga");
            auto emit = [&](auto tag, const char* fmt) { using Tag = decltype(tag);
                gil::write_view(path, gil::const_view(img), Tag());
                J("File").str("fmt", fmt).str("variant", "rgb8/6000x3").str("file", "wide").boolean("convert", false).emit();
                gil::rgb8_image_t canon; gil::read_image(path, canon, Tag()); J("Canon").num("w", canon.width()).num("h", canon.height()).raw("pix", pix_json(gil::const_view(canon))).emit();
                { std::ifstream in(path, std::ios::binary); gil::rgb8_image_t a; gil::read_image(in, a, Tag()); J("Dev").str("dev", "stream").num("w", a.width()).num("h", a.height()).raw("pix", pix_json(gil::const_view(a))).emit(); }
                { FILE* f = fopen(path.c_str(), "rb"); gil::rgb8_image_t a; gil::read_image(f, a, Tag()); J("Dev").str("dev", "FILE*").num("w", a.width()).num("h", a.height()).raw("pix", pix_json(gil::const_view(a))).emit(); }
                J("EndFile").emit(); remove(path.c_str()); };
            if (which == 0) emit(gil::pnm_tag(), "pnm"); else if (which == 1) emit(gil::bmp_tag(), "bmp"); else emit(gil::targa_tag(), "tga"); }, 120);
    }
    // corpus files: variants GIL cannot write itself (palette / RLE / 16-bit BMP, ascii PNM, RLE and origin variants of TARGA, interlaced and palette PNG)
    struct CF { const char* dir; const char* name; const char* variant; };
    { vt::Rng rng(args.seed * 77);
      for (CF f : {CF{"bmp", "g01bw.bmp", "1bpp"}, CF{"bmp", "g04.bmp", "4bpp"}, CF{"bmp", "g08.bmp", "8bpp"}, CF{"bmp", "g16def555.bmp", "16bpp"}, CF{"bmp", "g24.bmp", "24bpp"}, CF{"bmp", "g32def.bmp", "32bpp"},
                   CF{"bmp", "g08rle.bmp", "rle8"}, CF{"bmp", "g04rle.bmp", "rle4"}, CF{"bmp", "g08os2.bmp", "os2"}, CF{"bmp", "g08w125.bmp", "8bpp/w125"}})
          if (mine()) { if (std::string(f.variant).substr(0, 3) == "rle") paths<gil::bmp_tag, gil::rgb8_image_t, true, true, false, gil::rgba8_image_t>("bmp", f.variant, g_corpus + "/" + f.dir + "/" + f.name, false, rng);      // (the scanline reader refuses RLE files: open finding)
                        else paths<gil::bmp_tag, gil::rgb8_image_t, true, false, false>("bmp", f.variant, g_corpus + "/" + f.dir + "/" + f.name, false, rng); }
      for (CF f : {CF{"targa", "24BPP_uncompressed.tga", "raw/bottom-left"}, CF{"targa", "24BPP_uncompressed_ul_origin.tga", "raw/upper-left"}, CF{"targa", "24BPP_compressed.tga", "rle/bottom-left"},
                   CF{"targa", "24BPP_compressed_ul_origin.tga", "rle/upper-left"}})
          if (mine()) paths<gil::targa_tag, gil::rgb8_image_t, false, true, false, gil::bgr8_image_t>("tga", f.variant, g_corpus + "/" + f.dir + "/" + f.name, false, rng);
      for (CF f : {CF{"pnm", "p4.pnm", "P4"}}) if (mine()) paths<gil::pnm_tag, gil::gray8_image_t, true, false, false>("pnm", f.variant, g_corpus + "/" + f.dir + "/" + f.name, false, rng);
      if (args.thorough()) for (CF f : {CF{"pnm", "p1.pnm", "P1"}, CF{"pnm", "p2.pnm", "P2"}, CF{"pnm", "p5.pnm", "P5"}}) if (mine()) paths<gil::pnm_tag, gil::gray8_image_t, true, false, false>("pnm", f.variant, g_corpus + "/" + f.dir + "/" + f.name, false, rng);
    }
    // hand-built palette and 15/16-bit BMPs of every width (GIL cannot write them): every row-padding residue, with the scanline reader
    {
        vt::Rng rng(args.seed * 91);
        auto spit = [&](std::vector<unsigned char> const& b) { std::string path = g_tmp + "/hb_" + std::to_string(getpid()) + ".bmp"; FILE* f = fopen(path.c_str(), "wb"); fwrite(b.data(), 1, b.size(), f); fclose(f); return path; };
        auto build = [&](int bppfield, int w, int h) {
            int bits = bppfield == 15 ? 16 : bppfield; int ncol = bits <= 8 ? (1 << bits) : 0; int pitch = ((w * bits + 31) / 32) * 4; int off = 54 + 4 * ncol; std::vector<unsigned char> b(off + pitch * h, 0);
            auto le32 = [&](int at, uint32_t v) { b[at] = v & 255; b[at + 1] = (v >> 8) & 255; b[at + 2] = (v >> 16) & 255; b[at + 3] = (v >> 24) & 255; };
            b[0] = 'B'; b[1] = 'M'; le32(2, (uint32_t)b.size()); le32(10, off); le32(14, 40); le32(18, w); le32(22, h); b[26] = 1; b[28] = (unsigned char)bppfield; le32(34, pitch * h); le32(46, ncol);
            for (int i = 0; i < ncol; ++i) { b[54 + 4 * i] = (unsigned char)rng.next(); b[55 + 4 * i] = (unsigned char)rng.next(); b[56 + 4 * i] = (unsigned char)rng.next(); }
            for (int y = 0; y < h; ++y) for (int k = 0; k < pitch; ++k) b[off + y * pitch + k] = (unsigned char)rng.next();
            return b; };
        int WMAX = args.thorough() ? 72 : 41;
        for (int bpp : {1, 4, 8, 15, 16}) for (int w = 1; w <= WMAX; ++w) {
            if (bpp == 8 && w % 3 && !args.thorough()) continue;
            if (bpp >= 15 && w > 24 && w % 4 && !args.thorough()) continue;
            if (!mine()) continue;
            std::string path = spit(build(bpp, w, 2 + w % 2)); std::string variant = "hand/" + std::to_string(bpp) + "bpp/w" + std::to_string(w);
            if (bpp <= 8) paths<gil::bmp_tag, gil::rgb8_image_t, true, true, false, gil::rgba8_image_t>("bmp", variant.c_str(), path, false, rng);
            else paths<gil::bmp_tag, gil::rgb8_image_t, true, true, false, gil::rgb8_image_t>("bmp", variant.c_str(), path, false, rng);
            remove(path.c_str());
        }
    }
    // files produced by an independent encoder (this driver / libpng) from known pixels, in variants GIL cannot write:
    // top-down BMP (negative height), TARGA with either screen origin (with the scanline reader), interlaced (Adam7) PNG.
    // A Truth event carries the encoded pixels (extension clause X_DecodesAsEncoded; the C13 clauses compare the ways of reading among themselves).
    {
        vt::Rng rng(args.seed * 131); gate = true;
        auto tj = [&](std::vector<std::vector<long>> const& px) { std::string t = "["; for (size_t i = 0; i < px.size(); ++i) { if (i) t += ','; t += '['; for (size_t k = 0; k < px[i].size(); ++k) { if (k) t += ','; t += std::to_string(px[i][k]); } t += ']'; } return t + "]"; };
        auto spitf = [&](std::vector<unsigned char> const& b, const char* ext) { std::string path = g_tmp + "/ie_" + std::to_string(getpid()) + "." + ext; FILE* f = fopen(path.c_str(), "wb"); fwrite(b.data(), 1, b.size(), f); fclose(f); return path; };
        int WM = args.thorough() ? 9 : 5;
        for (int w = 1; w <= WM; ++w) for (int h : {1, 3, 4}) for (int topdown = 0; topdown < 2; ++topdown) for (int bits : {24, 32}) {
            if (!mine()) continue;
            int bpp = bits / 8, pitch = ((w * bits + 31) / 32) * 4; std::vector<unsigned char> b(54 + pitch * h, 0); std::vector<std::vector<long>> px((size_t)w * h);
            auto le32 = [&](int at, uint32_t v) { b[at] = v & 255; b[at + 1] = (v >> 8) & 255; b[at + 2] = (v >> 16) & 255; b[at + 3] = (v >> 24) & 255; };
            b[0] = 'B'; b[1] = 'M'; le32(2, (uint32_t)b.size()); le32(10, 54); le32(14, 40); le32(18, w); le32(22, (uint32_t)(topdown ? -h : h)); b[26] = 1; b[28] = (unsigned char)bits; le32(34, pitch * h);
            for (int fr = 0; fr < h; ++fr) for (int x = 0; x < w; ++x) { int y = topdown ? fr : h - 1 - fr; long B = rng.below(256), G = rng.below(256), R = rng.below(256);
                b[54 + fr * pitch + bpp * x] = (unsigned char)B; b[54 + fr * pitch + bpp * x + 1] = (unsigned char)G; b[54 + fr * pitch + bpp * x + 2] = (unsigned char)R; if (bpp == 4) b[54 + fr * pitch + bpp * x + 3] = (unsigned char)rng.below(256);
                if (bpp == 4) px[(size_t)y * w + x] = {R, G, B, (long)b[54 + fr * pitch + bpp * x + 3]}; else px[(size_t)y * w + x] = {R, G, B}; }
            std::string path = spitf(b, "bmp"); g_truth = tj(px);
            std::string variant = std::string("enc/") + std::to_string(bits) + "bpp/" + (topdown ? "top-down" : "bottom-up");
            if (bits == 24) paths<gil::bmp_tag, gil::rgb8_image_t, false, true, false, gil::bgr8_image_t>("bmp", variant.c_str(), path, w * h <= 12, rng);
            else paths<gil::bmp_tag, gil::rgba8_image_t, false, true, false, gil::bgra8_image_t>("bmp", variant.c_str(), path, w * h <= 12, rng);
            g_truth.clear(); remove(path.c_str());
        }
        for (int w = 1; w <= WM; ++w) for (int h : {1, 3, 4}) for (int ul = 0; ul < 2; ++ul) for (int bits : {24, 32}) {
            if (!mine()) continue;
            int bpp = bits / 8; std::vector<unsigned char> b(18 + (size_t)bpp * w * h, 0); std::vector<std::vector<long>> px((size_t)w * h);
            b[2] = 2; b[12] = (unsigned char)w; b[14] = (unsigned char)h; b[16] = (unsigned char)bits; b[17] = (unsigned char)((ul ? 0x20 : 0) | (bits == 32 ? 8 : 0));
            for (int fr = 0; fr < h; ++fr) for (int x = 0; x < w; ++x) { int y = ul ? fr : h - 1 - fr; long B = rng.below(256), G = rng.below(256), R = rng.below(256), Al = rng.below(256); size_t o = 18 + (size_t)bpp * (fr * w + x);
                b[o] = (unsigned char)B; b[o + 1] = (unsigned char)G; b[o + 2] = (unsigned char)R; if (bpp == 4) b[o + 3] = (unsigned char)Al;
                if (bpp == 4) px[(size_t)y * w + x] = {R, G, B, Al}; else px[(size_t)y * w + x] = {R, G, B}; }
            std::string path = spitf(b, "tga"); g_truth = tj(px);
            std::string variant = std::string("enc/raw") + std::to_string(bits) + "/" + (ul ? "upper-left" : "bottom-left");
            if (bits == 24) paths<gil::targa_tag, gil::rgb8_image_t, false, true, false, gil::bgr8_image_t>("tga", variant.c_str(), path, w * h <= 12, rng);
            else paths<gil::targa_tag, gil::rgba8_image_t, false, true, false, gil::bgra8_image_t>("tga", variant.c_str(), path, w * h <= 12, rng);
            g_truth.clear(); remove(path.c_str());
        }
        auto png = [&](int w, int h, int ctype, int depth, int nc, int interlace, std::vector<std::vector<long>>& px) {
            std::string path = g_tmp + "/ie_" + std::to_string(getpid()) + ".png"; FILE* f = fopen(path.c_str(), "wb");
            png_structp p = png_create_write_struct(PNG_LIBPNG_VER_STRING, 0, 0, 0); png_infop i = png_create_info_struct(p); png_init_io(p, f);
            png_set_IHDR(p, i, w, h, depth, ctype, interlace ? PNG_INTERLACE_ADAM7 : PNG_INTERLACE_NONE, PNG_COMPRESSION_TYPE_DEFAULT, PNG_FILTER_TYPE_DEFAULT);
            png_color pal[256]; if (ctype == PNG_COLOR_TYPE_PALETTE) { for (int k = 0; k < 256; ++k) { pal[k].red = (png_byte)rng.below(256); pal[k].green = (png_byte)rng.below(256); pal[k].blue = (png_byte)rng.below(256); } png_set_PLTE(p, i, pal, 256); }
            png_write_info(p, i);
            int bpc = depth / 8; std::vector<std::vector<unsigned char>> rows(h, std::vector<unsigned char>((size_t)w * nc * bpc)); std::vector<png_bytep> rp(h); px.assign((size_t)w * h, {});
            for (int y = 0; y < h; ++y) { for (int x = 0; x < w; ++x) for (int c = 0; c < nc; ++c) { long v = rng.below(bpc == 1 ? 256 : 65536); px[(size_t)y * w + x].push_back(v);
                    if (bpc == 1) rows[y][(size_t)x * nc + c] = (unsigned char)v; else { rows[y][((size_t)x * nc + c) * 2] = (unsigned char)(v >> 8); rows[y][((size_t)x * nc + c) * 2 + 1] = (unsigned char)(v & 255); } }
                rp[y] = rows[y].data(); }
            if (ctype == PNG_COLOR_TYPE_PALETTE) for (auto& q : px) { long k = q[0]; q = {(long)pal[k].red, (long)pal[k].green, (long)pal[k].blue}; }      // the decoded image holds the colours
            png_set_interlace_handling(p); png_write_image(p, rp.data()); png_write_end(p, i); png_destroy_write_struct(&p, &i); fclose(f); return path; };
        std::vector<std::pair<int,int>> pd = {{1, 1}, {3, 2}, {5, 4}, {9, 3}, {2, 9}};
        if (args.thorough()) { pd.push_back({8, 8}); pd.push_back({9, 9}); pd.push_back({17, 5}); }
        for (auto d : pd) for (int il = 0; il < 2; ++il) for (int kind = 0; kind < 6; ++kind) {
            if (!mine()) continue;
            std::vector<std::vector<long>> px; std::string path; bool small = d.first * d.second <= 12; std::string variant = std::string("enc/") + (il ? "interlaced/" : "plain/");
            if (kind == 0) { path = png(d.first, d.second, PNG_COLOR_TYPE_GRAY, 8, 1, il, px); g_truth = tj(px); paths<gil::png_tag, gil::gray8_image_t, false, false, true>("png", (variant + "gray8").c_str(), path, small, rng); }
            if (kind == 1) { path = png(d.first, d.second, PNG_COLOR_TYPE_RGB, 8, 3, il, px); g_truth = tj(px); paths<gil::png_tag, gil::rgb8_image_t, false, false, true>("png", (variant + "rgb8").c_str(), path, small, rng); }
            if (kind == 2) { path = png(d.first, d.second, PNG_COLOR_TYPE_RGB_ALPHA, 8, 4, il, px); g_truth = tj(px); paths<gil::png_tag, gil::rgba8_image_t, false, false, true>("png", (variant + "rgba8").c_str(), path, small, rng); }
            if (kind == 3) { path = png(d.first, d.second, PNG_COLOR_TYPE_RGB, 16, 3, il, px); g_truth = tj(px); paths<gil::png_tag, gil::rgb16_image_t, false, false, true>("png", (variant + "rgb16").c_str(), path, small, rng); }
            if (kind == 4) { path = png(d.first, d.second, PNG_COLOR_TYPE_PALETTE, 8, 1, il, px); g_truth = tj(px); paths<gil::png_tag, gil::rgb8_image_t, false, false, true>("png", (variant + "palette8").c_str(), path, small, rng); }
            if (kind == 5) { path = png(d.first, d.second, PNG_COLOR_TYPE_GRAY, 16, 1, il, px); g_truth = tj(px); paths<gil::png_tag, gil::gray16_image_t, false, false, true>("png", (variant + "gray16").c_str(), path, small, rng); }
            g_truth.clear(); remove(path.c_str());
        }
    }
    J("End").num("events", vt::T().events).emit(); vt::T().close(); return 0;
}
