// default (off) value of every C14 feature switch; see c14_dyn.hpp
#pragma once
#ifndef C14_F_query
#define C14_F_query 0
#endif
#ifndef C14_F_flipUD
#define C14_F_flipUD 0
#endif
#ifndef C14_F_flipLR
#define C14_F_flipLR 0
#endif
#ifndef C14_F_transposed
#define C14_F_transposed 0
#endif
#ifndef C14_F_rot90cw
#define C14_F_rot90cw 0
#endif
#ifndef C14_F_rot90ccw
#define C14_F_rot90ccw 0
#endif
#ifndef C14_F_rot180
#define C14_F_rot180 0
#endif
#ifndef C14_F_subimage
#define C14_F_subimage 0
#endif
#ifndef C14_F_subimage_pt
#define C14_F_subimage_pt 0
#endif
#ifndef C14_F_subsampled
#define C14_F_subsampled 0
#endif
#ifndef C14_F_subsampled_pt
#define C14_F_subsampled_pt 0
#endif
#ifndef C14_F_nthch
#define C14_F_nthch 0
#endif
#ifndef C14_F_ccv
#define C14_F_ccv 0
#endif
#ifndef C14_F_ccvk
#define C14_F_ccvk 0
#endif
#ifndef C14_F_c_flipUD
#define C14_F_c_flipUD 0
#endif
#ifndef C14_F_c_flipLR
#define C14_F_c_flipLR 0
#endif
#ifndef C14_F_c_transposed
#define C14_F_c_transposed 0
#endif
#ifndef C14_F_c_rot90cw
#define C14_F_c_rot90cw 0
#endif
#ifndef C14_F_c_rot90ccw
#define C14_F_c_rot90ccw 0
#endif
#ifndef C14_F_c_rot180
#define C14_F_c_rot180 0
#endif
#ifndef C14_F_c_subimage
#define C14_F_c_subimage 0
#endif
#ifndef C14_F_c_subsampled
#define C14_F_c_subsampled 0
#endif
#ifndef C14_F_c_nthch
#define C14_F_c_nthch 0
#endif
#ifndef C14_F_c_ccv
#define C14_F_c_ccv 0
#endif
#ifndef C14_F_copy
#define C14_F_copy 0
#endif
#ifndef C14_F_equal
#define C14_F_equal 0
#endif
#ifndef C14_F_ccdef
#define C14_F_ccdef 0
#endif
#ifndef C14_F_cccust
#define C14_F_cccust 0
#endif
#ifndef C14_F_resample
#define C14_F_resample 0
#endif
#ifndef C14_F_fill
#define C14_F_fill 0
#endif
#ifndef C14_F_foreach
#define C14_F_foreach 0
#endif
#ifndef C14_F_hist
#define C14_F_hist 0
#endif
