// C15 conformance driver: correlate/convolve rows/cols (dynamic and fixed kernels), convolve_2d, extend_row/col/boundary.
// Integer-valued data so that float accumulators are exact.  Validated by Trace_Convolve.tla.
#include <boost/gil.hpp>
#include <boost/gil/image_processing/convolve.hpp>
#include <boost/gil/image_processing/kernel.hpp>
#include <boost/gil/image_processing/filter.hpp>
#include <cmath>
#include "lib/trace.hpp"
namespace gil = boost::gil;
using vt::J;
static vt::Args* A;
using boundary = gil::boundary_option;
static const char* optname(boundary o) { switch (o) { case boundary::output_ignore: return "output_ignore"; case boundary::output_zero: return "output_zero";
    case boundary::extend_padded: return "extend_padded"; case boundary::extend_zero: return "extend_zero"; default: return "extend_constant"; } }

template <class View> std::string img_json(View const& v, int ch = 0) {
    std::string s = "[";
    for (int y = 0; y < v.height(); ++y) { if (y) s += ','; s += '['; for (int x = 0; x < v.width(); ++x) { if (x) s += ','; s += std::to_string((long long)std::llround((double)v(x, y)[ch])); } s += ']'; }
    return s + "]";
}
struct Fn { const char* name; int kind; };   // kind: 0 corr rows, 1 corr cols, 2 conv rows, 3 conv cols

template <class SrcPix, class DstPix, class Accum, class KT, int NCH>
void one_case(const char* types, int w, int h, int K, int c, boundary opt, vt::Rng& rng) {
    // the source is a sub-view of a bigger image with margins (the "caller's padding" of extend_padded)
    const int M = 5;
    gil::image<SrcPix> big(w + 2 * M, h + 2 * M);
    for (auto& p : gil::view(big)) gil::static_generate(p, [&]() { return (typename gil::channel_type<SrcPix>::type)rng.below(A->thorough() ? 256 : 40); });
    auto src = gil::subimage_view(gil::const_view(big), M, M, w, h);
    std::vector<KT> kv(K); for (auto& k : kv) k = (KT)rng.range(-3, 3);
    gil::kernel_1d<KT> ker(kv.begin(), K, c);
    std::vector<long long> kints(kv.begin(), kv.end());
    for (Fn fn : {Fn{"correlate_rows", 0}, Fn{"correlate_cols", 1}, Fn{"convolve_rows", 2}, Fn{"convolve_cols", 3}}) {
        gil::image<DstPix> dst(w, h);
        for (auto& p : gil::view(dst)) gil::static_generate(p, [&]() { return (typename gil::channel_type<DstPix>::type)(rng.range(-50, 50)); });
        gil::image<DstPix> before(dst);
        switch (fn.kind) {
            case 0: gil::correlate_rows<Accum>(src, ker, gil::view(dst), opt); break;
            case 1: gil::correlate_cols<Accum>(src, ker, gil::view(dst), opt); break;
            case 2: gil::convolve_rows<Accum>(src, ker, gil::view(dst), opt); break;
            default: gil::convolve_cols<Accum>(src, ker, gil::view(dst), opt); break;
        }
        for (int ch = 0; ch < NCH; ++ch)
            J("Corr").str("fn", fn.name).str("types", types).str("opt", optname(opt)).num("w", w).num("h", h).arr("ker", kints).num("c", c).num("ch", ch)
                .raw("src", img_json(src, ch)).raw("big", img_json(gil::const_view(big), ch)).num("ox", M).num("oy", M)
                .raw("before", img_json(gil::const_view(before), ch)).raw("dst", img_json(gil::const_view(dst), ch)).emit();
    }
}
// fractional (dyadic) taps k/4 with an 8-bit destination: the source holds multiples of 4, so every product and sum is an integer
// and exact in the float accumulator; the destination receives the (integral) sum
inline void frac_case(int w, int h, int K, int c, boundary opt, vt::Rng& rng) {
    const int M = 5;
    gil::gray8_image_t big(w + 2 * M, h + 2 * M);
    for (auto& p : gil::view(big)) p = gil::gray8_pixel_t((uint8_t)(4 * rng.below(K == 1 ? 60 : 30)));
    auto src = gil::subimage_view(gil::const_view(big), M, M, w, h);
    std::vector<float> kv(K); std::vector<long long> knum(K);
    for (int i = 0; i < K; ++i) { knum[i] = (K == 1) ? 1 + rng.below(3) : rng.below(3); kv[i] = (float)knum[i] / 4.0f; }
    gil::kernel_1d<float> ker(kv.begin(), K, c);
    for (Fn fn : {Fn{"correlate_rows", 0}, Fn{"correlate_cols", 1}, Fn{"convolve_rows", 2}, Fn{"convolve_cols", 3}}) {
        gil::gray8_image_t dst(w, h); for (auto& p : gil::view(dst)) p = gil::gray8_pixel_t((uint8_t)rng.below(250));
        gil::gray8_image_t before(dst);
        switch (fn.kind) {
            case 0: gil::correlate_rows<gil::gray32f_pixel_t>(src, ker, gil::view(dst), opt); break;
            case 1: gil::correlate_cols<gil::gray32f_pixel_t>(src, ker, gil::view(dst), opt); break;
            case 2: gil::convolve_rows<gil::gray32f_pixel_t>(src, ker, gil::view(dst), opt); break;
            default: gil::convolve_cols<gil::gray32f_pixel_t>(src, ker, gil::view(dst), opt); break;
        }
        J("Corr").str("fn", fn.name).str("types", "gray8->gray8/float/quarter-taps").str("opt", optname(opt)).num("w", w).num("h", h).arr("ker", knum).num("kden", 4).num("c", c).num("ch", 0)
            .raw("src", img_json(src, 0)).raw("big", img_json(gil::const_view(big), 0)).num("ox", M).num("oy", M)
            .raw("before", img_json(gil::const_view(before), 0)).raw("dst", img_json(gil::const_view(dst), 0)).emit();
    }
}
template <std::size_t K> void fixed_case(int w, int h, int c, boundary opt, vt::Rng& rng) {
    const int M = 5;
    gil::gray8_image_t big(w + 2 * M, h + 2 * M); for (auto& p : gil::view(big)) p = gil::gray8_pixel_t(rng.below(40));
    auto src = gil::subimage_view(gil::const_view(big), M, M, w, h);
    std::array<float, K> kv; for (auto& k : kv) k = (float)rng.range(-3, 3);
    gil::kernel_1d_fixed<float, K> ker(kv.begin(), c);
    std::vector<long long> kints; for (auto k : kv) kints.push_back((long long)k);
    for (Fn fn : {Fn{"correlate_rows_fixed", 0}, Fn{"correlate_cols_fixed", 1}, Fn{"convolve_rows_fixed", 2}, Fn{"convolve_cols_fixed", 3}}) {
        gil::gray32f_image_t dst(w, h); for (auto& p : gil::view(dst)) p = gil::gray32f_pixel_t((float)rng.range(-50, 50));
        gil::gray32f_image_t before(dst);
        switch (fn.kind) {
            case 0: gil::correlate_rows_fixed<gil::gray32f_pixel_t>(src, ker, gil::view(dst), opt); break;
            case 1: gil::correlate_cols_fixed<gil::gray32f_pixel_t>(src, ker, gil::view(dst), opt); break;
            case 2: gil::convolve_rows_fixed<gil::gray32f_pixel_t>(src, ker, gil::view(dst), opt); break;
            default: gil::convolve_cols_fixed<gil::gray32f_pixel_t>(src, ker, gil::view(dst), opt); break;
        }
        J("Corr").str("fn", fn.name).str("types", "gray8->gray32f/fixed").str("opt", optname(opt)).num("w", w).num("h", h).arr("ker", kints).num("c", c).num("ch", 0)
            .raw("src", img_json(src)).raw("big", img_json(gil::const_view(big))).num("ox", M).num("oy", M)
            .raw("before", img_json(gil::const_view(before))).raw("dst", img_json(gil::const_view(dst))).emit();
    }
}
static void conv2d_case(int w, int h, int K, int cx, int cy, vt::Rng& rng) {
    gil::gray8_image_t src(w, h); for (auto& p : gil::view(src)) p = gil::gray8_pixel_t(rng.below(40));
    std::vector<float> kv(K * K); for (auto& k : kv) k = (float)rng.range(-2, 2);
    gil::detail::kernel_2d<float> ker(kv.begin(), kv.size(), cy, cx);
    gil::gray32f_image_t dst(w, h); for (auto& p : gil::view(dst)) p = gil::gray32f_pixel_t(-77.f);
    gil::detail::convolve_2d(gil::const_view(src), ker, gil::view(dst));
    std::string k2 = "["; for (int j = 0; j < K; ++j) { if (j) k2 += ','; k2 += '['; for (int i = 0; i < K; ++i) { if (i) k2 += ','; k2 += std::to_string((long long)ker.at(i, j)); } k2 += ']'; } k2 += "]";
    J("Conv2D").num("w", w).num("h", h).raw("ker2", k2).num("cx", (long long)ker.center_x()).num("cy", (long long)ker.center_y()).raw("src", img_json(gil::const_view(src))).raw("dst", img_json(gil::const_view(dst))).emit();
}
// box_filter / blur (filter.hpp): K taps of weight 1 (gray8 -> gray32f), or of weight 1/K with K a power of two and a source of multiples
// of K*K (gray8 -> gray8: every intermediate value is an integer, exact in the float accumulator). extend_padded is left out: the second
// pass runs over the destination itself, whose padding the caller cannot provide.
static void box_case(int w, int h, int K, int anchor, boundary opt, vt::Rng& rng) {
    int c = anchor < 0 ? K / 2 : anchor;
    std::vector<long long> ones(K, 1);
    {   gil::gray8_image_t src(w, h); for (auto& p : gil::view(src)) p = gil::gray8_pixel_t((uint8_t)rng.below(40));
        gil::gray32f_image_t dst(w, h); for (auto& p : gil::view(dst)) p = gil::gray32f_pixel_t((float)rng.range(-50, 50));
        gil::gray32f_image_t before(dst);
        gil::box_filter(gil::const_view(src), gil::view(dst), K, anchor, false, opt);
        J("Box").str("fn", "box_filter").str("types", "gray8->gray32f").str("opt", optname(opt)).num("w", w).num("h", h).num("K", K).num("anchor", anchor).num("c", c).num("kden", 1)
            .raw("src", img_json(gil::const_view(src))).raw("before", img_json(gil::const_view(before))).raw("dst", img_json(gil::const_view(dst))).emit(); }
    if ((w + h + K) % 2 == 0) {   // accumulator pixel<float, bgr_layout_t> between a bgr8 source and an rgb32f destination: channels pair by colour (physical index 2 - ch in the source)
        gil::bgr8_image_t src(w, h); for (auto& p : gil::view(src)) gil::static_generate(p, [&]() { return (uint8_t)rng.below(40); });
        gil::rgb32f_image_t dst(w, h); for (auto& p : gil::view(dst)) gil::static_generate(p, [&]() { return (float)rng.range(-50, 50); });
        gil::rgb32f_image_t before(dst);
        gil::box_filter(gil::const_view(src), gil::view(dst), K, anchor, false, opt);
        for (int ch = 0; ch < 3; ++ch)
            J("Box").str("fn", "box_filter").str("types", "bgr8->rgb32f").str("opt", optname(opt)).num("w", w).num("h", h).num("K", K).num("anchor", anchor).num("c", c).num("kden", 1).num("ch", ch)
                .raw("src", img_json(gil::const_view(src), 2 - ch)).raw("before", img_json(gil::const_view(before), ch)).raw("dst", img_json(gil::const_view(dst), ch)).emit(); }
    if (K == 1 || K == 2 || K == 4) {
        gil::gray8_image_t src(w, h); for (auto& p : gil::view(src)) p = gil::gray8_pixel_t((uint8_t)(K * K * rng.below(250 / (K * K))));
        gil::gray8_image_t dst(w, h); for (auto& p : gil::view(dst)) p = gil::gray8_pixel_t((uint8_t)(K * K * rng.below(250 / (K * K))));
        gil::gray8_image_t before(dst);
        if (opt == boundary::extend_zero && (w + h) % 2) gil::blur(gil::const_view(src), gil::view(dst), K, anchor);
        else gil::blur(gil::const_view(src), gil::view(dst), K, anchor, opt);
        J("Box").str("fn", "blur").str("types", "gray8->gray8").str("opt", optname(opt)).num("w", w).num("h", h).num("K", K).num("anchor", anchor).num("c", c).num("kden", K * K)
            .raw("src", img_json(gil::const_view(src))).raw("before", img_json(gil::const_view(before))).raw("dst", img_json(gil::const_view(dst))).emit(); }
}
static void extend_case(int w, int h, int n, boundary opt, vt::Rng& rng) {
    const int M = 4;
    gil::gray8_image_t big(w + 2 * M, h + 2 * M); for (auto& p : gil::view(big)) p = gil::gray8_pixel_t(rng.below(200));
    auto src = gil::subimage_view(gil::const_view(big), M, M, w, h);
    auto r = gil::extend_row(src, n, opt); auto cimg = gil::extend_col(src, n, opt); auto b = gil::extend_boundary(src, n, opt);
    J("Extend").str("opt", optname(opt)).num("n", n).raw("src", img_json(src)).raw("big", img_json(gil::const_view(big))).num("ox", M).num("oy", M)
        .raw("row", img_json(gil::const_view(r))).raw("col", img_json(gil::const_view(cimg))).raw("both", img_json(gil::const_view(b))).emit();
}

int main(int argc, char** argv) {
    vt::Args args(argc, argv); A = &args; vt::install_handlers(); vt::T().open(args.out.c_str());
    long idx = 0; auto mine = [&]() { return (idx++ % args.nshards) == args.shard; };
    int MW = args.thorough() ? 9 : 6, MH = args.thorough() ? 5 : 3, MK = args.thorough() ? 5 : 4;
    std::vector<boundary> opts = {boundary::output_ignore, boundary::output_zero, boundary::extend_padded, boundary::extend_zero, boundary::extend_constant};
    for (int w = 0; w <= MW; ++w) for (int h = 0; h <= MH; ++h) for (int K = 1; K <= MK; ++K) for (int c = 0; c < K; ++c) for (auto opt : opts) {
        if (!mine()) continue;
        vt::Rng rng(args.seed * 31 + w * 1009 + h * 101 + K * 11 + c);
        J("Try").str("what", "1d").num("w", w).num("h", h).num("K", K).num("c", c).str("opt", optname(opt)).emit();
        vt::isolated([&] {
            one_case<gil::gray8_pixel_t, gil::gray32f_pixel_t, gil::gray32f_pixel_t, float, 1>("gray8->gray32f/float", w, h, K, c, opt, rng);
            if ((w + h + K) % 2 == 0) one_case<gil::rgb8_pixel_t, gil::rgb32f_pixel_t, gil::rgb32f_pixel_t, float, 3>("rgb8->rgb32f/float", w, h, K, c, opt, rng);
            if ((w + K) % 3 == 0) one_case<gil::gray16s_pixel_t, gil::gray32s_pixel_t, gil::gray32s_pixel_t, int, 1>("gray16s->gray32s/int", w, h, K, c, opt, rng);
            if (K <= 3) frac_case(w, h, K, c, opt, rng);
            if (K == 3) fixed_case<3>(w, h, c, opt, rng);
            if (K == 5) fixed_case<5>(w, h, c, opt, rng);
        });
    }
    for (int w = 0; w <= 5; ++w) for (int h = 0; h <= 4; ++h) for (int K = 1; K <= 3; ++K) for (int cx = 0; cx < K; ++cx) for (int cy = 0; cy < K; ++cy) {
        if (!mine()) continue; vt::Rng rng(args.seed * 77 + w * 37 + h * 5 + K + cx * 3 + cy);
        J("Try").str("what", "2d").num("w", w).num("h", h).num("K", K).num("c", cx).str("opt", "none").emit();
        vt::isolated([&] { conv2d_case(w, h, K, cx, cy, rng); });
    }
    for (int w = 1; w <= 4; ++w) for (int h = 1; h <= 3; ++h) for (int n = 0; n <= 3; ++n) for (auto opt : {boundary::extend_zero, boundary::extend_constant, boundary::extend_padded}) {
        if (!mine()) continue; vt::Rng rng(args.seed * 5 + w + h * 7 + n * 3);
        J("Try").str("what", "extend").num("w", w).num("h", h).num("K", n).num("c", 0).str("opt", optname(opt)).emit();
        vt::isolated([&] { extend_case(w, h, n, opt, rng); });
    }
    for (int w = 0; w <= MW; ++w) for (int h = 0; h <= MH + 1; ++h) for (int K = 1; K <= MK; ++K) for (int a = -1; a < K; ++a)
        for (auto opt : {boundary::output_ignore, boundary::output_zero, boundary::extend_zero, boundary::extend_constant}) {
        if (!mine()) continue; vt::Rng rng(args.seed * 13 + w * 211 + h * 17 + K * 5 + a);
        J("Try").str("what", "box").num("w", w).num("h", h).num("K", K).num("c", a).str("opt", optname(opt)).emit();
        vt::isolated([&] { box_case(w, h, K, a, opt, rng); });
    }
    J("End").num("events", vt::T().events).emit(); vt::T().close(); return 0;
}
