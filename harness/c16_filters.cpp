// C16 conformance driver: threshold_binary / threshold_truncate / threshold_optimal, dilate / erode / opening / closing, median_filter.
#include <boost/gil.hpp>
#include <boost/gil/image_processing/threshold.hpp>
#include <boost/gil/image_processing/morphology.hpp>
#include <boost/gil/image_processing/filter.hpp>
#include <boost/gil/image_processing/kernel.hpp>
#include "lib/trace.hpp"
namespace gil = boost::gil;
using vt::J;
static vt::Args* A;

template <class View> std::string img_json(View const& v, int ch = 0) {
    std::string s = "[";
    for (int y = 0; y < v.height(); ++y) { if (y) s += ','; s += '['; for (int x = 0; x < v.width(); ++x) { if (x) s += ','; s += std::to_string((long long)v(x, y)[ch]); } s += ']'; }
    return s + "]";
}
template <class T> T Clamp(T v, T lo, T hi) { return v < lo ? lo : v > hi ? hi : v; }
template <class Img> void randomize(Img& img, vt::Rng& rng, int kind) {
    using ch_t = typename gil::channel_type<typename Img::view_t>::type;
    long lo = (long)std::numeric_limits<ch_t>::min(), hi = (long)std::numeric_limits<ch_t>::max();
    long c0 = lo + (long)(rng.next() % (unsigned long)(hi - lo + 1)), c1 = lo + (long)(rng.next() % (unsigned long)(hi - lo + 1));
    for (auto& p : gil::view(img)) gil::static_generate(p, [&]() -> ch_t {
        switch (kind) { case 0: return (ch_t)(lo + (long)(rng.next() % (unsigned long)(hi - lo + 1)));   // full range
                        case 1: return (ch_t)c0;                                                         // constant
                        case 2: return (ch_t)(rng.below(2) ? c0 : c1);                                   // two-valued
                        case 3: return (ch_t)0;                                                          // all zero
                        default: return (ch_t)(Clamp(-3 + (long)rng.below(9), lo, hi)); } });             // small values around 0
}

template <class Img, int NCH> void thresholds(const char* types, int w, int h, vt::Rng& rng) {
    using ch_t = typename gil::channel_type<typename Img::view_t>::type;
    long lo = (long)std::numeric_limits<ch_t>::min(), hi = (long)std::numeric_limits<ch_t>::max();
    Img src(w, h); randomize(src, rng, rng.below(2) ? 0 : 4);
    std::vector<long> ts = {lo, hi, (lo + hi) / 2, 0, 1, -1, lo + 1, hi - 1};
    if (w * h > 0) ts.push_back((long)gil::view(src)(0, 0)[0]);
    for (long t : ts) { if (t < lo || t > hi) continue;
        for (auto dir : {gil::threshold_direction::regular, gil::threshold_direction::inverse}) {
            const char* dn = dir == gil::threshold_direction::regular ? "regular" : "inverse";
            { Img dst(w, h); gil::threshold_binary(gil::const_view(src), gil::view(dst), (ch_t)t, dir);
              for (int c = 0; c < NCH; ++c) J("Thr").str("fn", "binary").str("types", types).str("dir", dn).str("mode", "").num("t", t).num("maxv", hi).num("ch", c).raw("src", img_json(gil::const_view(src), c)).raw("dst", img_json(gil::const_view(dst), c)).emit(); }
            { long mv = hi / 2 + 1; Img dst(w, h); gil::threshold_binary(gil::const_view(src), gil::view(dst), (ch_t)t, (ch_t)mv, dir);
              for (int c = 0; c < NCH; ++c) J("Thr").str("fn", "binary").str("types", types).str("dir", dn).str("mode", "").num("t", t).num("maxv", mv).num("ch", c).raw("src", img_json(gil::const_view(src), c)).raw("dst", img_json(gil::const_view(dst), c)).emit(); }
            for (auto mode : {gil::threshold_truncate_mode::threshold, gil::threshold_truncate_mode::zero}) {
                Img dst(w, h); gil::threshold_truncate(gil::const_view(src), gil::view(dst), (ch_t)t, mode, dir);
                for (int c = 0; c < NCH; ++c) J("Thr").str("fn", "truncate").str("types", types).str("dir", dn).str("mode", mode == gil::threshold_truncate_mode::threshold ? "threshold" : "zero").num("t", t).num("maxv", hi).num("ch", c)
                    .raw("src", img_json(gil::const_view(src), c)).raw("dst", img_json(gil::const_view(dst), c)).emit();
            }
        }
    }
}
// one of the views is a window into a larger image (non-contiguous rows), the other a whole image; the pixels of the
// destination's parent outside the window must not change
template <class Img, int NCH> void thresholds_windows(const char* types, int w, int h, vt::Rng& rng) {
    using ch_t = typename gil::channel_type<typename Img::view_t>::type;
    long hi = (long)std::numeric_limits<ch_t>::max();
    for (int variant = 0; variant < 3; ++variant) {
        Img sbig(w + 3, h + 2), dbig(w + 4, h + 3), swhole(w, h), dwhole(w, h);
        randomize(sbig, rng, 0); randomize(swhole, rng, 0); randomize(dbig, rng, 1); randomize(dwhole, rng, 1);
        auto swin = gil::subimage_view(gil::const_view(sbig), 2, 1, w, h); auto dwin = gil::subimage_view(gil::view(dbig), 1, 2, w, h);
        Img dbefore(dbig);
        long t = (long)(rng.below(200)) - (std::is_signed<ch_t>::value ? 100 : 0); if (t > hi) t = hi;
        auto emit = [&](auto const& sv, auto const& dv, const char* shape, const char* fn, const char* mode) {
            long outside = 0;
            for (int y = 0; y < dbig.height(); ++y) for (int x = 0; x < dbig.width(); ++x) { bool in = x >= 1 && x < 1 + w && y >= 2 && y < 2 + h; if (!in && gil::view(dbig)(x, y) != gil::view(dbefore)(x, y)) ++outside; }
            for (int c = 0; c < NCH; ++c) J("Thr").str("fn", fn).str("types", std::string(types) + "/" + shape).str("dir", "regular").str("mode", mode).num("t", t).num("maxv", hi).num("ch", c).num("outside", outside)
                .raw("src", img_json(sv, c)).raw("dst", img_json(dv, c)).emit(); };
        if (variant == 0) { gil::threshold_binary(swin, gil::view(dwhole), (ch_t)t); emit(swin, gil::const_view(dwhole), "window->whole", "binary", ""); }
        else if (variant == 1) { gil::threshold_binary(gil::const_view(swhole), dwin, (ch_t)t); emit(gil::const_view(swhole), dwin, "whole->window", "binary", ""); }
        else { gil::threshold_truncate(swin, dwin, (ch_t)t); emit(swin, dwin, "window->window", "truncate", "threshold"); }
    }
}
template <class Img, int NCH> void otsu(const char* types, int w, int h, int kind, vt::Rng& rng) {
    using ch_t = typename gil::channel_type<typename Img::view_t>::type;
    J("Try").str("what", "otsu").str("types", types).num("w", w).num("h", h).num("kind", kind).emit();
    vt::isolated([&] {
        Img src(w, h), dst(w, h); randomize(src, rng, kind);
        gil::threshold_optimal(gil::const_view(src), gil::view(dst), gil::threshold_optimal_value::otsu, gil::threshold_direction::regular);
        for (int c = 0; c < NCH; ++c) J("Otsu").str("types", types).num("maxv", (long)std::numeric_limits<ch_t>::max()).num("ch", c).num("kind", kind)
            .raw("src", img_json(gil::const_view(src), c)).raw("dst", img_json(gil::const_view(dst), c)).emit(); }, 20);
}
template <class Img, int NCH> void morph(const char* types, int w, int h, vt::Rng& rng) {
    J("Try").str("what", "morph").str("types", types).num("w", w).num("h", h).num("kind", 0).emit();
    vt::isolated([&] {
        for (int K : {1, 3, 5}) for (int rep = 0; rep < 2; ++rep) {
            // random structuring element, symmetric under point reflection and transposition, centre set
            std::vector<float> se(K * K, 0.f);
            for (int i = 0; i < K; ++i) for (int j = 0; j < K; ++j) if (rng.below(2)) { se[i * K + j] = se[j * K + i] = se[(K - 1 - i) * K + (K - 1 - j)] = se[(K - 1 - j) * K + (K - 1 - i)] = 1.f; }
            se[(K / 2) * K + K / 2] = 1.f;
            gil::detail::kernel_2d<float> ker(se.begin(), se.size(), K / 2, K / 2);
            std::string sej = "["; for (int i = 0; i < K; ++i) { if (i) sej += ','; sej += '['; for (int j = 0; j < K; ++j) { if (j) sej += ','; sej += std::to_string((int)se[i * K + j]); } sej += ']'; } sej += "]";
            Img src(w, h); randomize(src, rng, rep == 0 ? 0 : 4);
            struct F { const char* n; int k; };
            for (F f : {F{"dilate", 0}, F{"erode", 1}, F{"opening", 2}, F{"closing", 3}, F{"dilate2", 4}, F{"erode2", 5}}) {
                Img dparent(w + 2, h + 2); randomize(dparent, rng, 1); Img dpb(dparent);
                auto dstv = gil::subimage_view(gil::view(dparent), 1, 1, w, h);          // destination: a window in a canary image
                switch (f.k) { case 0: gil::dilate(gil::const_view(src), dstv, ker, 1); break; case 1: gil::erode(gil::const_view(src), dstv, ker, 1); break;
                    case 2: gil::opening(gil::const_view(src), dstv, ker); break; case 3: gil::closing(gil::const_view(src), dstv, ker); break;
                    case 4: gil::dilate(gil::const_view(src), dstv, ker, 2); break; default: gil::erode(gil::const_view(src), dstv, ker, 2); break; }
                long outside = 0;
                for (int y = 0; y < dparent.height(); ++y) for (int x = 0; x < dparent.width(); ++x) { bool in = x >= 1 && x <= w && y >= 1 && y <= h; if (!in && gil::view(dparent)(x, y) != gil::view(dpb)(x, y)) ++outside; }
                for (int c = 0; c < NCH; ++c) J("Morph").str("fn", f.n).str("types", types).raw("se", sej).num("ch", c).num("outside", outside).raw("src", img_json(gil::const_view(src), c)).raw("dst", img_json(dstv, c)).emit();
            }
        } }, 30);
}
template <class Img, int NCH> void median(const char* types, int w, int h, vt::Rng& rng) {
    J("Try").str("what", "median").str("types", types).num("w", w).num("h", h).num("kind", 0).emit();
    vt::isolated([&] {
        for (int k : {1, 3, 5}) { Img src(w, h), dst(w, h); randomize(src, rng, k == 3 ? 4 : 0);
            gil::median_filter(gil::const_view(src), gil::view(dst), k);
            for (int c = 0; c < NCH; ++c) J("Median").str("types", types).num("k", k).num("ch", c).raw("src", img_json(gil::const_view(src), c)).raw("dst", img_json(gil::const_view(dst), c)).emit(); } }, 30);
}

int main(int argc, char** argv) {
    vt::Args args(argc, argv); A = &args; vt::install_handlers(); vt::T().open(args.out.c_str());
    long idx = 0; auto mine = [&]() { return (idx++ % args.nshards) == args.shard; };
    int N = args.thorough() ? 6 : 4;
    for (int w = 0; w <= N; ++w) for (int h = 0; h <= N; ++h) {
        if (!args.thorough() && w * h > 9 && (w + h) % 2) continue;
        vt::Rng rng(args.seed * 131 + w * 17 + h);
        if (mine()) { thresholds<gil::gray8_image_t, 1>("gray8", w, h, rng); thresholds<gil::gray16_image_t, 1>("gray16", w, h, rng); }
        if (mine()) { thresholds_windows<gil::gray8_image_t, 1>("gray8", w, h, rng); thresholds_windows<gil::rgb8_image_t, 3>("rgb8", w, h, rng); thresholds_windows<gil::gray16s_image_t, 1>("gray16s", w, h, rng); }
        if (mine()) { thresholds<gil::gray8s_image_t, 1>("gray8s", w, h, rng); thresholds<gil::gray16s_image_t, 1>("gray16s", w, h, rng); thresholds<gil::rgb8_image_t, 3>("rgb8", w, h, rng); }
        for (int kind = 0; kind <= 4; ++kind) {
            if (mine()) otsu<gil::gray8_image_t, 1>("gray8", w, h, kind, rng);
            if (mine()) otsu<gil::gray16_image_t, 1>("gray16", w, h, kind, rng);
            if (mine()) otsu<gil::gray8s_image_t, 1>("gray8s", w, h, kind, rng);
            if (mine()) otsu<gil::gray16s_image_t, 1>("gray16s", w, h, kind, rng);
            if (mine() && kind < 3) otsu<gil::rgb8_image_t, 3>("rgb8", w, h, kind, rng);
        }
        if (mine()) morph<gil::gray8_image_t, 1>("gray8", w, h, rng);
        if (mine()) morph<gil::gray8s_image_t, 1>("gray8s", w, h, rng);
        if (mine()) morph<gil::gray16_image_t, 1>("gray16", w, h, rng);
        if (mine()) morph<gil::rgb8_image_t, 3>("rgb8", w, h, rng);
        if (mine()) median<gil::gray8_image_t, 1>("gray8", w, h, rng);
        if (mine()) median<gil::gray16s_image_t, 1>("gray16s", w, h, rng);
        if (mine()) median<gil::rgb8_image_t, 3>("rgb8", w, h, rng);
    }
    J("End").num("events", vt::T().events).emit(); vt::T().close(); return 0;
}
