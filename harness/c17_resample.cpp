// C17 conformance driver: nearest / bilinear samplers on the dyadic grid k/8, resample_pixels, resize_view, matrix3x2 algebra.
#include <boost/gil.hpp>
#include <boost/gil/extension/numeric/sampler.hpp>
#include <boost/gil/extension/numeric/resample.hpp>
#include <boost/gil/extension/numeric/affine.hpp>
#include <cmath>
#include "lib/trace.hpp"
namespace gil = boost::gil;
using vt::J;
static vt::Args* A;

template <class View> std::string chan_json(View const& v, int ch) {
    std::string s = "["; for (int y = 0; y < v.height(); ++y) { if (y) s += ','; s += '['; for (int x = 0; x < v.width(); ++x) { if (x) s += ','; s += std::to_string((long long)std::llround((double)v(x, y)[ch])); } s += ']'; } return s + "]";
}
// source embedded in a canary image: the surroundings hold a sentinel far outside the data range
template <class Img> Img make_src(int w, int h, vt::Rng& rng, Img& big) {
    big = Img(w + 6, h + 6); using P = typename Img::value_type; using ch_t = typename gil::channel_type<P>::type;
    constexpr bool neg = std::is_signed<ch_t>::value && std::is_integral<ch_t>::value;      // signed integral channels: negative data
    for (auto& p : gil::view(big)) gil::static_fill(p, ch_t(neg ? 120 : 250));
    auto v = gil::subimage_view(gil::view(big), 3, 3, w, h);
    for (auto& p : v) gil::static_generate(p, [&]() { return neg ? ch_t(-(40 + (int)rng.below(60))) : ch_t(40 + rng.below(60)); });
    return big;
}
template <class Img, class F, int NCH> void samples(const char* types, int w, int h, vt::Rng& rng) {
    using P = typename Img::value_type; using ch_t = typename gil::channel_type<P>::type;
    Img big; make_src(w, h, rng, big); auto src = gil::subimage_view(gil::const_view(big), 3, 3, w, h);
    for (int sampler = 0; sampler < 2; ++sampler) for (int py8 = -16; py8 <= 8 * (h + 1); ++py8) {
        std::vector<int> rets; std::vector<std::vector<long long>> vals(NCH);
        for (int px8 = -16; px8 <= 8 * (w + 1); ++px8) {
            P result; gil::static_fill(result, ch_t(7));            // sentinel: must stay if the point is reported outside
            gil::point<F> p(F(px8) / F(8), F(py8) / F(8));
            bool r = sampler == 0 ? gil::sample(gil::nearest_neighbor_sampler(), src, p, result) : gil::sample(gil::bilinear_sampler(), src, p, result);
            rets.push_back(r ? 1 : 0); for (int c = 0; c < NCH; ++c) vals[c].push_back((long long)std::llround((double)result[c]));
        }
        for (int c = 0; c < NCH; ++c)
            J("SampleRow").str("sampler", sampler == 0 ? "nearest" : "bilinear").str("types", types).num("ch", c).num("py8", py8).num("px8_first", -16).num("sentinel", 7)
                .raw("img", chan_json(src, c)).arr("rets", rets).arr("vals", vals[c]).emit();
    }
}
template <class Img, int NCH> void resample(const char* types, int w, int h, vt::Rng& rng) {
    using P = typename Img::value_type; using ch_t = typename gil::channel_type<P>::type;
    Img big; make_src(w, h, rng, big); auto src = gil::subimage_view(gil::const_view(big), 3, 3, w, h);
    for (int rep = 0; rep < 4; ++rep) for (int sampler = 0; sampler < 2; ++sampler) {
        // affine map with entries k/4 (dst -> src)
        int q[6] = {rng.range(-6, 6), rng.range(-4, 4), rng.range(-4, 4), rng.range(-6, 6), rng.range(-8, 8), rng.range(-8, 8)};
        if (rep == 0) { q[0] = 4; q[1] = 0; q[2] = 0; q[3] = 4; q[4] = 0; q[5] = 0; }          // identity
        if (rep == 1) { q[0] = 4; q[1] = 0; q[2] = 0; q[3] = 4; q[4] = -4; q[5] = 2; }         // translation by (-1, 0.5)
        gil::matrix3x2<double> m(q[0] / 4.0, q[1] / 4.0, q[2] / 4.0, q[3] / 4.0, q[4] / 4.0, q[5] / 4.0);
        int dw = rng.range(1, 4), dh = rng.range(1, 3);
        Img dst(dw, dh); for (auto& p : gil::view(dst)) gil::static_fill(p, ch_t(3)); Img before(dst);
        if (sampler == 0) gil::resample_pixels(src, gil::view(dst), m, gil::nearest_neighbor_sampler()); else gil::resample_pixels(src, gil::view(dst), m, gil::bilinear_sampler());
        // the sampler applied directly at the mapped point
        for (int c = 0; c < NCH; ++c) {
            std::vector<long long> direct, dret, px8s, py8s;
            for (int y = 0; y < dh; ++y) for (int x = 0; x < dw; ++x) {
                auto p = gil::transform(m, gil::point<std::ptrdiff_t>(x, y)); P r; gil::static_fill(r, ch_t(3));
                bool ok = sampler == 0 ? gil::sample(gil::nearest_neighbor_sampler(), src, p, r) : gil::sample(gil::bilinear_sampler(), src, p, r);
                direct.push_back((long long)r[c]); dret.push_back(ok); px8s.push_back((long long)std::llround(p.x * 8)); py8s.push_back((long long)std::llround(p.y * 8));
            }
            J("Resample").str("sampler", sampler == 0 ? "nearest" : "bilinear").str("types", types).num("ch", c).arr("m4", std::vector<int>(q, q + 6)).num("dw", dw).num("dh", dh)
                .raw("img", chan_json(src, c)).raw("before", chan_json(gil::const_view(before), c)).raw("dst", chan_json(gil::const_view(dst), c))
                .arr("direct", direct).arr("dret", dret).arr("px8", px8s).arr("py8", py8s).emit();
        }
    }
    { Img dst(w, h); gil::resize_view(src, gil::view(dst), gil::bilinear_sampler());
      for (int c = 0; c < NCH; ++c) J("Resize").str("types", types).num("ch", c).raw("img", chan_json(src, c)).raw("dst", chan_json(gil::const_view(dst), c)).emit(); }
}
static void affine(vt::Rng& rng) {
    auto mk = [&](int* q) { return gil::matrix3x2<double>(q[0] / 4.0, q[1] / 4.0, q[2] / 4.0, q[3] / 4.0, q[4] / 4.0, q[5] / 4.0); };
    auto ints = [&](gil::matrix3x2<double> const& m, double sc) { return std::vector<long long>{std::llround(m.a * sc), std::llround(m.b * sc), std::llround(m.c * sc), std::llround(m.d * sc), std::llround(m.e * sc), std::llround(m.f * sc)}; };
    for (int i = 0; i < (A->thorough() ? 2000 : 300); ++i) {
        int q1[6], q2[6], q3[6]; for (int k = 0; k < 6; ++k) { q1[k] = rng.range(-9, 9); q2[k] = rng.range(-9, 9); q3[k] = rng.range(-9, 9); }
        auto a = mk(q1), b = mk(q2), c = mk(q3);
        J("Assoc").arr("a4", std::vector<int>(q1, q1 + 6)).arr("b4", std::vector<int>(q2, q2 + 6)).arr("c4", std::vector<int>(q3, q3 + 6))
            .arr("ab_c", ints((a * b) * c, 64)).arr("a_bc", ints(a * (b * c), 64)).arr("ab", ints(a * b, 16)).emit();
        // translate / scale compose as documented on a point
        int tx = rng.range(-20, 20), ty = rng.range(-20, 20), sx = rng.range(-8, 8), sy = rng.range(-8, 8), px = rng.range(-10, 10), py = rng.range(-10, 10);
        auto T = gil::matrix3x2<double>::get_translate(tx / 4.0, ty / 4.0); auto S = gil::matrix3x2<double>::get_scale(sx / 4.0, sy / 4.0);
        auto p1 = gil::point<double>(px, py) * T, p2 = gil::point<double>(px, py) * S, p3 = gil::point<double>(px, py) * (S * T);
        J("Compose").arr("t4", std::vector<int>{tx, ty}).arr("s4", std::vector<int>{sx, sy}).arr("p", std::vector<int>{px, py})
            .arr("pT16", std::vector<long long>{std::llround(p1.x * 16), std::llround(p1.y * 16)}).arr("pS16", std::vector<long long>{std::llround(p2.x * 16), std::llround(p2.y * 16)})
            .arr("pST16", std::vector<long long>{std::llround(p3.x * 16), std::llround(p3.y * 16)}).emit();
        // inverse: non-singular matrices
        long det16 = (long)q1[0] * q1[3] - (long)q1[1] * q1[2];
        if (det16 != 0) {
            auto inv = gil::inverse(a); auto id1 = inv * a, id2 = a * inv;
            auto back = gil::transform(inv, gil::transform(a, gil::point<double>(px, py)));
            J("Inverse").arr("a4", std::vector<int>(q1, q1 + 6)).num("det16", det16).arr("inv_a", ints(id1, 1048576)).arr("a_inv", ints(id2, 1048576))
                .arr("p", std::vector<int>{px, py}).arr("back", std::vector<long long>{std::llround(back.x * 1048576), std::llround(back.y * 1048576)}).emit();
        }
        double th = (rng.range(-720, 720)) * 3.14159265358979323846 / 360.0;
        auto R = gil::matrix3x2<double>::get_rotate(th);
        J("Rotate").arr("r", ints(R, 1048576)).num("theta_millideg", (long long)std::llround(th * 180000 / 3.14159265358979323846)).emit();
    }
}

int main(int argc, char** argv) {
    vt::Args args(argc, argv); A = &args; vt::install_handlers(); vt::T().open(args.out.c_str());
    long idx = 0; auto mine = [&]() { return (idx++ % args.nshards) == args.shard; };
    int N = args.thorough() ? 5 : 4;
    for (int w = 1; w <= N; ++w) for (int h = 1; h <= N; ++h) {
        vt::Rng rng(args.seed * 313 + w * 23 + h);
        if (mine()) vt::isolated([&] { samples<gil::gray8_image_t, double, 1>("gray8/double", w, h, rng); });
        if (mine() && (w + h) % 2 == 0) vt::isolated([&] { samples<gil::rgb8_image_t, float, 3>("rgb8/float", w, h, rng); });
        if (mine() && (w * h) % 3 != 2) vt::isolated([&] { samples<gil::gray16_image_t, double, 1>("gray16/double", w, h, rng); });
        if (mine() && w <= 3) vt::isolated([&] { samples<gil::gray32f_image_t, float, 1>("gray32f/float", w, h, rng); });
        if (mine() && (w + 2 * h) % 3 != 0) vt::isolated([&] { samples<gil::gray8s_image_t, double, 1>("gray8s/double", w, h, rng); });
        if (mine() && (w + h) % 3 == 0) vt::isolated([&] { samples<gil::gray16s_image_t, float, 1>("gray16s/float", w, h, rng); });
        if (mine()) vt::isolated([&] { resample<gil::gray8_image_t, 1>("gray8", w, h, rng); resample<gil::rgb8_image_t, 3>("rgb8", w, h, rng); });
    }
    if (mine()) { vt::Rng rng(args.seed * 7 + 1); affine(rng); }
    J("End").num("events", vt::T().events).emit(); vt::T().close(); return 0;
}
