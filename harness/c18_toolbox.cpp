// C18 conformance driver: toolbox colour spaces (hsv, hsl, xyz, lab, ycbcr 601/709, cmyka, gray_alpha, luminance).
// One event per (space, r, g) with, for every b: the intermediate channels (floats scaled by 2^20) and the rgb8 result of converting back.
#include <boost/gil.hpp>
#include <boost/gil/extension/toolbox/color_spaces.hpp>
#include <boost/gil/extension/toolbox/color_converters.hpp>
#include <boost/gil/extension/toolbox/color_spaces/ycbcr.hpp>
#include <boost/gil/extension/toolbox/color_spaces/lab.hpp>
#include <boost/gil/extension/toolbox/color_spaces/xyz.hpp>
#include <boost/gil/extension/toolbox/color_spaces/cmyka.hpp>
#include <boost/gil/extension/toolbox/color_spaces/gray_alpha.hpp>
#include <cmath>
#include "lib/trace.hpp"
namespace gil = boost::gil;
using vt::J;
static vt::Args* A;
static long long sc(double x) { if (!(x == x)) return -99999999; if (x > 1e6) return 2000000000; if (x < -1e6) return -2000000000; return (long long)std::llround(x * 1048576.0); }

template <class Mid> void row(const char* space, int r, int g, bool is_float) {
    constexpr int N = gil::num_channels<Mid>::value;
    std::vector<std::vector<long long>> mid(N, std::vector<long long>(256)); std::vector<int> br(256), bg(256), bb(256);
    for (int b = 0; b < 256; ++b) {
        gil::rgb8_pixel_t p(r, g, b); Mid m; gil::color_convert(p, m);
        for (int c = 0; c < N; ++c) mid[c][b] = is_float ? sc((double)m[c]) : (long long)m[c];
        gil::rgb8_pixel_t back; gil::color_convert(m, back); br[b] = back[0]; bg[b] = back[1]; bb[b] = back[2];
    }
    J j("SpaceRow"); j.str("space", space).num("r", r).num("g", g).boolean("float", is_float).num("nmid", N);
    for (int c = 0; c < N; ++c) j.arr(("m" + std::to_string(c)).c_str(), mid[c]);
    j.arr("br", br).arr("bg", bg).arr("bb", bb).emit();
}
static void grids() {
    // hsv / hsl -> rgb8 on boundary grids: hue periodicity and greys
    for (int hs = 0; hs <= 12; ++hs) for (int s2 = 0; s2 <= 2; ++s2) for (int v2 = 0; v2 <= 2; ++v2) {
        float h = hs / 12.0f, s = s2 / 2.0f, v = v2 / 2.0f;
        gil::hsv32f_pixel_t a(h, s, v); gil::rgb8_pixel_t ra; gil::color_convert(a, ra);
        gil::hsl32f_pixel_t b(h, s, v); gil::rgb8_pixel_t rb; gil::color_convert(b, rb);
        J("HueGrid").num("h12", hs).num("s2", s2).num("v2", v2).arr("hsv", std::vector<int>{ra[0], ra[1], ra[2]}).arr("hsl", std::vector<int>{rb[0], rb[1], rb[2]}).emit();
    }
    for (int v = 0; v < 256; ++v) for (int a : {0, 1, 128, 255}) {
        gil::gray_alpha8_pixel_t ga(v, a); gil::rgba8_pixel_t o; gil::color_convert(ga, o);
        gil::rgb8_pixel_t o3; gil::color_convert(ga, o3); gil::gray8_pixel_t o1; gil::color_convert(ga, o1);
        J("GrayAlpha").num("v", v).num("a", a).arr("rgba", std::vector<int>{o[0], o[1], o[2], o[3]}).arr("rgb", std::vector<int>{o3[0], o3[1], o3[2]}).num("gray", o1[0]).emit();
    }
}
// gray_alpha across channel depths: gray and alpha are carried over by channel_convert (exact maps between 8 and 16 bits)
static void gray_alpha_depths() {
    for (int v : {0, 1, 77, 128, 254, 255}) for (int a : {0, 1, 127, 128, 200, 255}) {
        gil::gray_alpha8_pixel_t s8((uint8_t)v, (uint8_t)a); gil::rgba16_pixel_t o16; gil::color_convert(s8, o16);
        gil::rgba32f_pixel_t of; gil::color_convert(s8, of);
        J("GrayAlphaX").str("dir", "8->16").num("v", v).num("a", a).arr("rgba", std::vector<long>{o16[0], o16[1], o16[2], o16[3]}).emit();
        J("GrayAlphaX").str("dir", "8->32f").num("v", v).num("a", a).arr("rgba", std::vector<long>{std::lround(of[0] * 255.0f * 256), std::lround(of[1] * 255.0f * 256), std::lround(of[2] * 255.0f * 256), std::lround(of[3] * 255.0f * 256)}).emit();
        gil::gray_alpha16_pixel_t s16((uint16_t)(v * 257), (uint16_t)(a * 257)); gil::rgba8_pixel_t o8; gil::color_convert(s16, o8);
        J("GrayAlphaX").str("dir", "16->8").num("v", v).num("a", a).arr("rgba", std::vector<long>{o8[0], o8[1], o8[2], o8[3]}).emit();
    }
}
static void cmyka(vt::Rng& rng, int n) {
    for (int i = 0; i < n; ++i) {
        gil::rgb8_pixel_t p(rng.below(256), rng.below(256), rng.below(256)); gil::cmyk8_pixel_t c; gil::color_convert(p, c);
        gil::cmyka8_pixel_t ca(c[0], c[1], c[2], c[3], rng.below(256)); gil::rgba8_pixel_t o; gil::color_convert(ca, o);
        gil::rgb8_pixel_t core; gil::color_convert(c, core);
        J("Cmyka").arr("rgb", std::vector<int>{o[0], o[1], o[2]}).arr("core", std::vector<int>{core[0], core[1], core[2]}).num("a_in", ca[4]).num("a_out", o[3]).emit();
    }
}
int main(int argc, char** argv) {
    vt::Args args(argc, argv); A = &args; vt::install_handlers(); vt::T().open(args.out.c_str());
    long idx = 0; auto mine = [&]() { return (idx++ % args.nshards) == args.shard; };
    std::vector<std::pair<int,int>> rows;
    if (args.thorough()) { for (int r = 0; r < 256; ++r) for (int g = 0; g < 256; ++g) rows.push_back({r, g}); }
    else { std::vector<int> lat; for (int v = 0; v < 256; v += 17) lat.push_back(v); for (int v : {1, 2, 127, 128, 254}) lat.push_back(v);
           for (int r : lat) for (int g : lat) rows.push_back({r, g}); vt::Rng rng(args.seed * 3 + 5); for (int i = 0; i < 200; ++i) rows.push_back({(int)rng.below(256), (int)rng.below(256)}); }
    for (auto rg : rows) { if (!mine()) continue; int r = rg.first, g = rg.second;
        row<gil::hsv32f_pixel_t>("hsv", r, g, true); row<gil::hsl32f_pixel_t>("hsl", r, g, true); row<gil::xyz32f_pixel_t>("xyz", r, g, true);
        row<gil::lab32f_pixel_t>("lab", r, g, true); row<gil::ycbcr_601_8_pixel_t>("ycbcr601", r, g, false); row<gil::ycbcr_709_8_pixel_t>("ycbcr709", r, g, false);
    }
    if (mine()) grids();
    if (mine()) { vt::Rng rng(args.seed * 11 + 3); cmyka(rng, args.thorough() ? 20000 : 2000); }
    if (mine()) gray_alpha_depths();
    J("End").num("events", vt::T().events).emit(); vt::T().close(); return 0;
}
