// C19 conformance driver: gil::histogram fill / cumulative / sub_histogram / normalize and the std-container fillers.
#include <boost/gil.hpp>
#include <boost/gil/histogram.hpp>
#include <boost/gil/extension/histogram/std.hpp>
#include <map>
#include <array>
#include <cmath>
#include "lib/trace.hpp"
namespace gil = boost::gil;
using vt::J;
static vt::Args* A;

template <class Tuple, std::size_t... I> void key_to_vec(Tuple const& t, std::vector<long long>& v, std::index_sequence<I...>) { (void)std::initializer_list<int>{(v.push_back((long long)std::get<I>(t)), 0)...}; }
template <class H> std::string hist_json(H const& h, double scale = 1.0) {
    std::string s = "["; bool first = true;
    for (auto const& kv : h) { std::vector<long long> r; key_to_vec(kv.first, r, std::make_index_sequence<H::dimension()>()); r.push_back((long long)std::llround((double)kv.second * scale));
        if (!first) s += ','; first = false; s += vt::jarr(r); }
    return s + "]";
}
template <class View> std::string pixels_json(View const& v) {
    std::string s = "["; bool first = true;
    for (int y = 0; y < v.height(); ++y) for (int x = 0; x < v.width(); ++x) { std::vector<long long> c; gil::static_for_each(v(x, y), [&](auto ch) { c.push_back((long long)ch); }); if (!first) s += ','; first = false; s += vt::jarr(c); }
    return s + "]";
}
template <class Img> void randomize(Img& img, vt::Rng& rng, int range) {
    using ch_t = typename gil::channel_type<typename Img::view_t>::type;
    long lo = std::is_signed<ch_t>::value ? -range / 2 : 0;
    for (auto& p : gil::view(img)) gil::static_generate(p, [&]() -> ch_t { return (ch_t)(lo + (long)rng.below(range)); });
}

template <class Img, std::size_t... D> void fills(const char* types, int w, int h, vt::Rng& rng) {
    using H = gil::histogram<decltype((void)D, int())...>;
    std::vector<long long> dims = {(long long)D...};
    for (int bw : {1, 2, 3, 5}) for (int variant = 0; variant < 6; ++variant) {
        Img img(w, h); randomize(img, rng, 12);
        bool useMask = variant == 1 || variant == 3, useLimits = variant == 2 || variant == 3 || variant == 5, accumulate = variant == 4, sparse = variant != 5;   // a dense fill needs explicit limits
        std::vector<std::vector<bool>> mask(h, std::vector<bool>(w)); std::vector<long long> mflat;
        for (int y = 0; y < h; ++y) for (int x = 0; x < w; ++x) { mask[y][x] = rng.below(3) != 0; mflat.push_back(mask[y][x]); }
        typename H::key_type lo, hi; std::vector<long long> lov, hiv;
        { std::vector<long long> a, b; for (size_t i = 0; i < sizeof...(D); ++i) { int x = rng.range(-2, 3), y = rng.range(-2, 6); a.push_back(std::min(x, y)); b.push_back(std::max(x, y)); }
          lov = a; hiv = b; size_t i = 0; auto setk = [&](auto& t, std::vector<long long>& src) { i = 0; boost::mp11::tuple_for_each(t, [&](auto& e) { e = (int)src[i++]; }); }; setk(lo, lov); setk(hi, hiv); }
        H hist; std::string prev = "[]";
        if (accumulate) { Img other(w, h); randomize(other, rng, 12); gil::fill_histogram<D...>(gil::const_view(other), hist, bw); prev = hist_json(hist); }
        else { hist((decltype((void)D, int()))(77)...) = 7; prev = "[]"; }   // a stale bin that a non-accumulating fill must replace
        if (useLimits) gil::fill_histogram<D...>(gil::const_view(img), hist, bw, accumulate, sparse, useMask, mask, lo, hi, true);
        else gil::fill_histogram<D...>(gil::const_view(img), hist, bw, accumulate, sparse, useMask, mask);
        J("Fill").str("types", types).arr("dims", dims).num("bw", bw).boolean("use_mask", useMask).arr("mask", mflat).boolean("use_limits", useLimits).arr("lo", lov).arr("hi", hiv)
            .boolean("accumulate", accumulate).boolean("sparse", sparse).raw("prev", prev).raw("pixels", pixels_json(gil::const_view(img))).num("w", w).num("h", h).raw("hist", hist_json(hist)).emit();
        if (variant == 0 && w * h > 0) {
            auto cum = gil::cumulative_histogram(hist);
            J("Cum").str("types", types).raw("hist", hist_json(hist)).raw("cum", hist_json(cum)).emit();
            H nh = hist; nh.normalize();
            J("Norm").str("types", types).raw("hist", hist_json(hist)).raw("norm", hist_json(nh, 1048576.0)).emit();
            // cumulative histogram of non-integral bins (the normalised histogram), all axes
            auto cn = gil::cumulative_histogram(nh);
            J("CumNorm").str("types", types).raw("norm", hist_json(nh, 1048576.0)).raw("cum", hist_json(cn, 1048576.0)).emit();
        }
    }
}
template <class Img> void subs(const char* types, int w, int h, vt::Rng& rng) {
    using H3 = gil::histogram<int, int, int>;
    Img img(w, h); randomize(img, rng, 6);
    H3 hist; gil::fill_histogram<0, 1, 2>(gil::const_view(img), hist, 1);
    { auto s = hist.template sub_histogram<0>(); J("SubAxes").str("types", types).arr("axes", std::vector<int>{0}).raw("hist", hist_json(hist)).raw("sub", hist_json(s)).emit(); }
    { auto s = hist.template sub_histogram<2, 0>(); J("SubAxes").str("types", types).arr("axes", std::vector<int>{2, 0}).raw("hist", hist_json(hist)).raw("sub", hist_json(s)).emit(); }
    { auto s = hist.template sub_histogram<1, 2>(); J("SubAxes").str("types", types).arr("axes", std::vector<int>{1, 2}).raw("hist", hist_json(hist)).raw("sub", hist_json(s)).emit(); }
    for (int rep = 0; rep < 3; ++rep) {
        int a0 = rng.range(0, 3), a1 = rng.range(0, 3), b0 = a0 + rng.range(0, 3), b1 = a1 + rng.range(0, 3);
        auto lo = std::make_tuple(a0, a1, 0), hi = std::make_tuple(b0, b1, 0);
        auto s = hist.template sub_histogram<0, 1>(lo, hi);
        J("SubRange").str("types", types).arr("axes", std::vector<int>{0, 1}).arr("lo", std::vector<int>{a0, a1}).arr("hi", std::vector<int>{b0, b1}).raw("hist", hist_json(hist)).raw("sub", hist_json(s)).emit();
        auto lo1 = std::make_tuple(0, a1, 0), hi1 = std::make_tuple(0, b1, 0);
        auto s1 = hist.template sub_histogram<1>(lo1, hi1);
        J("SubRange").str("types", types).arr("axes", std::vector<int>{1}).arr("lo", std::vector<int>{a1}).arr("hi", std::vector<int>{b1}).raw("hist", hist_json(hist)).raw("sub", hist_json(s1)).emit();
    }
}
static void stdfill(int w, int h, vt::Rng& rng) {
    gil::gray8_image_t img(w, h); randomize(img, rng, 40);
    gil::histogram<int> hist; gil::fill_histogram<0>(gil::const_view(img), hist, 1);
    auto dump = [&](const char* kind, std::vector<std::pair<long long, long long>> c) { std::string s = "["; for (size_t i = 0; i < c.size(); ++i) { if (i) s += ','; s += "[" + std::to_string(c[i].first) + "," + std::to_string(c[i].second) + "]"; } s += "]";
        J("Std").str("kind", kind).raw("hist", hist_json(hist)).raw("cont", s).emit(); };
    { std::vector<int> v; gil::fill_histogram(gil::const_view(img), v); std::vector<std::pair<long long, long long>> c; for (size_t i = 0; i < v.size(); ++i) c.push_back({(long long)i, v[i]}); dump("vector", c); }
    { std::array<int, 256> a{}; gil::fill_histogram(gil::const_view(img), a); std::vector<std::pair<long long, long long>> c; for (size_t i = 0; i < a.size(); ++i) c.push_back({(long long)i, a[i]}); dump("array", c); }
    { std::map<int, int> m; gil::fill_histogram(gil::const_view(img), m); std::vector<std::pair<long long, long long>> c; for (auto& kv : m) c.push_back({kv.first, kv.second}); dump("map", c); }
    // 16-bit samples: one bin per value (including the values k*257 and their neighbours, where a scaled index is most fragile)
    { gil::gray16_image_t i16(w, h); int n = 0; for (auto& p : gil::view(i16)) { int r = rng.below(4); p = gil::gray16_pixel_t((uint16_t)(r == 0 ? 257 * rng.below(256) : r == 1 ? 257 + 4 * rng.below(16000) : rng.below(65536))); ++n; }
      gil::histogram<unsigned short> h16; gil::fill_histogram<0>(gil::const_view(i16), h16, 1);
      auto dump16 = [&](const char* kind, std::vector<std::pair<long long, long long>> c) { std::string s = "["; for (size_t i = 0; i < c.size(); ++i) { if (i) s += ','; s += "[" + std::to_string(c[i].first) + "," + std::to_string(c[i].second) + "]"; } s += "]";
          J("Std").str("kind", kind).raw("hist", hist_json(h16)).raw("cont", s).emit(); };
      { static std::array<int, 65536> a; a.fill(0); gil::fill_histogram(gil::const_view(i16), a); std::vector<std::pair<long long, long long>> c; for (size_t i = 0; i < a.size(); ++i) if (a[i]) c.push_back({(long long)i, a[i]}); dump16("array16", c); }
      { std::vector<int> v; gil::fill_histogram(gil::const_view(i16), v); std::vector<std::pair<long long, long long>> c; for (size_t i = 0; i < v.size(); ++i) if (v[i]) c.push_back({(long long)i, v[i]}); dump16("vector16", c); }
      { std::map<int, int> m; gil::fill_histogram(gil::const_view(i16), m); std::vector<std::pair<long long, long long>> c; for (auto& kv : m) c.push_back({kv.first, kv.second}); dump16("map16", c); } }
    // containers that already hold counts (of another length / other keys): without accumulate the previous contents are replaced
    for (size_t n0 : {(size_t)7, (size_t)256, (size_t)300, (size_t)65536}) { std::vector<int> v(n0, 3); gil::fill_histogram(gil::const_view(img), v); std::vector<std::pair<long long, long long>> c; for (size_t i = 0; i < v.size(); ++i) if (v[i] != 0 || i < 256) c.push_back({(long long)i, v[i]}); dump("vector_reused", c); }
    { std::array<int, 256> a; a.fill(9); gil::fill_histogram(gil::const_view(img), a); std::vector<std::pair<long long, long long>> c; for (size_t i = 0; i < a.size(); ++i) c.push_back({(long long)i, a[i]}); dump("array_reused", c); }
    { std::map<int, int> m; m[3] = 11; m[999] = 4; gil::fill_histogram(gil::const_view(img), m); std::vector<std::pair<long long, long long>> c; for (auto& kv : m) c.push_back({kv.first, kv.second}); dump("map_reused", c); }
    { std::vector<int> v(256, 5); gil::fill_histogram(gil::const_view(img), v, true); std::vector<std::pair<long long, long long>> c; for (size_t i = 0; i < v.size(); ++i) c.push_back({(long long)i, v[i] - 5}); dump("vector_accumulate", c); }
}

// every 16-bit value exactly once: the std::array filler must put value p into bin floor(p * (N - 1) / 65535)
static void array_full16() {
    gil::gray16_image_t img(256, 256); int i = 0; for (auto& p : gil::view(img)) p = gil::gray16_pixel_t((uint16_t)i++);
    { static std::array<int, 65536> a; a.fill(0); gil::fill_histogram(gil::const_view(img), a); J("ArrFull").num("n", 65536).arr("counts", a).emit(); }
    { std::array<int, 256> a{}; gil::fill_histogram(gil::const_view(img), a); J("ArrFull").num("n", 256).arr("counts", a).emit(); }
    { std::array<int, 16> a{}; gil::fill_histogram(gil::const_view(img), a); J("ArrFull").num("n", 16).arr("counts", a).emit(); }
}
int main(int argc, char** argv) {
    vt::Args args(argc, argv); A = &args; vt::install_handlers(); vt::T().open(args.out.c_str());
    long idx = 0; auto mine = [&]() { return (idx++ % args.nshards) == args.shard; };
    int N = args.thorough() ? 5 : 4;
    for (int w = 0; w <= N; ++w) for (int h = 0; h <= N; ++h) {
        if (!args.thorough() && (w + h) % 2 == 1 && w * h > 3) continue;
        vt::Rng rng(args.seed * 257 + w * 19 + h);
        if (mine()) vt::isolated([&] { fills<gil::gray8_image_t, 0>("gray8", w, h, rng); fills<gil::gray16_image_t, 0>("gray16", w, h, rng); });
        if (mine()) vt::isolated([&] { fills<gil::gray8s_image_t, 0>("gray8s", w, h, rng); fills<gil::rgb8_image_t, 1>("rgb8", w, h, rng); });
        if (mine()) vt::isolated([&] { fills<gil::rgb8_image_t, 0, 2>("rgb8", w, h, rng); fills<gil::rgb8_image_t, 0, 1, 2>("rgb8", w, h, rng); });
        if (mine()) vt::isolated([&] { fills<gil::rgba8_image_t, 3, 0, 1, 2>("rgba8", w, h, rng); fills<gil::rgb16s_image_t, 2, 1>("rgb16s", w, h, rng); });
        if (mine()) vt::isolated([&] { subs<gil::rgb8_image_t>("rgb8", w, h, rng); stdfill(w, h, rng); });
    }
    if (mine()) vt::isolated([&] { array_full16(); }, 120);
    J("End").num("events", vt::T().events).emit(); vt::T().close(); return 0;
}
