// C20 conformance driver: line / circle / ellipse rasterizers.  Emitted point sequences, point_count(), and the
// effect of apply_rasterizer on a tight view embedded in a canary image.  Validated by Trace_Raster.tla.
#include <boost/gil.hpp>
#include <boost/gil/extension/rasterization/line.hpp>
#include <boost/gil/extension/rasterization/circle.hpp>
#include <boost/gil/extension/rasterization/ellipse.hpp>
#include <boost/gil/extension/rasterization/apply_rasterizer.hpp>
#include "lib/trace.hpp"
namespace gil = boost::gil;
using vt::J;
static vt::Args* A;

static std::string pts_json(const std::vector<gil::point_t>& v) { std::string s = "["; for (size_t i = 0; i < v.size(); ++i) { if (i) s += ','; s += "[" + std::to_string(v[i].x) + "," + std::to_string(v[i].y) + "]"; } return s + "]"; }

// bounds-checked recorder output iterator
struct Rec { std::vector<gil::point_t>* v; size_t cap; bool* over;
    Rec& operator*() { return *this; } Rec& operator++() { return *this; } Rec operator++(int) { return *this; }
    Rec& operator=(gil::point_t const& p) { if (v->size() >= cap) *over = true; else v->push_back(p); return *this; } };

// draw into a view of exactly (vw x vh) placed at (M,M) of a canary image; returns number of pixels changed outside it
template <class F> long apply_in_canary(int vw, int vh, F draw, std::vector<gil::point_t>* drawn = nullptr) {
    const int M = 6;
    gil::gray8_image_t big(vw + 2 * M, vh + 2 * M); gil::fill_pixels(gil::view(big), gil::gray8_pixel_t(0));
    auto sub = gil::subimage_view(gil::view(big), M, M, vw, vh);
    draw(sub);
    long outside = 0;
    for (int y = 0; y < big.height(); ++y) for (int x = 0; x < big.width(); ++x) if (gil::view(big)(x, y)[0] != 0) {
        bool in = x >= M && x < M + vw && y >= M && y < M + vh; if (!in) ++outside; else if (drawn) drawn->push_back({x - M, y - M}); }
    return outside;
}

static void line(int sx, int sy, int ex, int ey) {
    gil::bresenham_line_rasterizer rz({sx, sy}, {ex, ey});
    long cnt = rz.point_count(); std::vector<gil::point_t> pts; bool over = false;
    rz(Rec{&pts, (size_t)cnt + 8, &over});
    // apply to a view that just contains the bounding box (coordinates translated to the box origin)
    int mnx = std::min(sx, ex), mny = std::min(sy, ey), vw = std::abs(ex - sx) + 1, vh = std::abs(ey - sy) + 1;
    long outside = 0; bool ok = vt::isolated([&] {
        gil::bresenham_line_rasterizer rz2({sx - mnx, sy - mny}, {ex - mnx, ey - mny});
        long o = apply_in_canary(vw, vh, [&](auto& v) { gil::apply_rasterizer(v, rz2, gil::gray8_pixel_t(255)); });
        J("Applied").num("outside", o).emit(); });
    (void)ok; (void)outside;
    J("Line").num("sx", sx).num("sy", sy).num("ex", ex).num("ey", ey).num("count", cnt).boolean("overrun", over).raw("pts", pts_json(pts)).emit();
}
template <class RZ> void circle(const char* kind, int cx, int cy, int r) {
    RZ rz({cx, cy}, r); long cnt = rz.point_count(); std::vector<gil::point_t> pts; bool over = false;
    rz(Rec{&pts, (size_t)cnt + 16, &over});
    vt::isolated([&] { RZ rz2({r, r}, r);
        long o = apply_in_canary(2 * r + 1, 2 * r + 1, [&](auto& v) { gil::apply_rasterizer(v, rz2, gil::gray8_pixel_t(255)); });
        J("Applied").num("outside", o).emit(); });
    J("Circle").str("kind", kind).num("cx", cx).num("cy", cy).num("r", r).num("count", cnt).boolean("overrun", over).raw("pts", pts_json(pts)).emit();
}
static void ellipse(int a, int b) {
    // trajectory (first quadrant) and the pixels drawn into a view that just contains the bounding box; centre is 1-based
    vt::isolated([&] {
        gil::midpoint_ellipse_rasterizer rz({(unsigned)a + 1, (unsigned)b + 1}, {(unsigned)a, (unsigned)b});
        auto traj = rz.obtain_trajectory();
        std::vector<gil::point_t> drawn;
        long o = apply_in_canary(2 * a + 1, 2 * b + 1, [&](auto& v) { gil::apply_rasterizer(v, rz, gil::gray8_pixel_t(255)); }, &drawn);
        for (auto& p : drawn) { p.x -= a; p.y -= b; }
        J("Ellipse").num("a", a).num("b", b).raw("traj", pts_json(traj)).raw("drawn", pts_json(drawn)).num("outside", o).emit(); }, 10);
}

int main(int argc, char** argv) {
    vt::Args args(argc, argv); A = &args; vt::install_handlers(); vt::T().open(args.out.c_str());
    long idx = 0; auto mine = [&]() { return (idx++ % args.nshards) == args.shard; };
    int N = args.thorough() ? 20 : 8, R = args.thorough() ? 64 : 16, E = args.thorough() ? 14 : 8;
    // every end point in the window around several starts (translation invariance is part of what is checked)
    for (auto st : {std::pair<int,int>{0, 0}, {5, -3}, {-7, 11}})
        for (int dx = -N; dx <= N; ++dx) for (int dy = -N; dy <= N; ++dy) {
            if (!(st.first == 0 && st.second == 0) && !args.thorough() && (dx + dy) % 3 != 0) continue;
            if (mine()) line(st.first, st.second, st.first + dx, st.second + dy);
        }
    for (int r = 0; r <= R; ++r) for (auto c : {std::pair<int,int>{0, 0}, {3, -2}}) {
        if (mine()) circle<gil::midpoint_circle_rasterizer>("midpoint", c.first, c.second, r);
        if (mine()) circle<gil::trigonometric_circle_rasterizer>("trigonometric", c.first, c.second, r);
    }
    for (int a = 0; a <= E; ++a) for (int b = 0; b <= E; ++b) if (mine()) ellipse(a, b);
    // several shapes drawn one after the other in ONE process (large before small, repeated): an application must not depend on earlier ones
    if (mine()) vt::isolated([&] {
        for (int round = 0; round < 2; ++round)
            for (int r : {2, 9, 30, 5, 0, 17, 1, 12}) {
                { gil::midpoint_circle_rasterizer rz({r, r}, r); std::vector<gil::point_t> drawn;
                  long o = apply_in_canary(2 * r + 1, 2 * r + 1, [&](auto& v) { gil::apply_rasterizer(v, rz, gil::gray8_pixel_t(255)); }, &drawn);
                  J("SeqApplied").str("what", "circle/midpoint").num("arg", r).num("arg2", 0).num("outside", o).num("drawn", (long long)drawn.size()).num("count", (long long)rz.point_count()).emit(); }
                { gil::trigonometric_circle_rasterizer rz({r, r}, r); std::vector<gil::point_t> drawn;
                  long o = apply_in_canary(2 * r + 1, 2 * r + 1, [&](auto& v) { gil::apply_rasterizer(v, rz, gil::gray8_pixel_t(255)); }, &drawn);
                  J("SeqApplied").str("what", "circle/trigonometric").num("arg", r).num("arg2", 0).num("outside", o).num("drawn", (long long)drawn.size()).num("count", (long long)rz.point_count()).emit(); }
            }
        for (auto ab : {std::pair<int,int>{12, 3}, {2, 9}, {1, 1}, {7, 7}, {3, 14}, {0, 4}}) {
            int a = ab.first, b = ab.second;
            gil::midpoint_ellipse_rasterizer rz({(unsigned)a + 1, (unsigned)b + 1}, {(unsigned)a, (unsigned)b}); std::vector<gil::point_t> drawn;
            long o = apply_in_canary(2 * a + 1, 2 * b + 1, [&](auto& v) { gil::apply_rasterizer(v, rz, gil::gray8_pixel_t(255)); }, &drawn);
            J("SeqApplied").str("what", "ellipse").num("arg", a).num("arg2", b).num("outside", o).num("drawn", (long long)drawn.size()).num("count", -1).emit();
        }
    }, 60);
    J("End").num("events", vt::T().events).emit(); vt::T().close(); return 0;
}
