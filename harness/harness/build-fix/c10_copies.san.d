harness/build-fix/c10_copies.san: c10_copies.cpp \
 /tmp/mut/fix/include/boost/gil.hpp \
 /tmp/mut/fix/include/boost/gil/algorithm.hpp \
 /tmp/mut/fix/include/boost/gil/metafunctions.hpp \
 /tmp/mut/fix/include/boost/gil/channel.hpp \
 /tmp/mut/fix/include/boost/gil/utilities.hpp \
 /tmp/mut/fix/include/boost/gil/detail/mp11.hpp \
 /tmp/mut/fix/include/boost/gil/dynamic_step.hpp \
 /tmp/mut/fix/include/boost/gil/concepts/dynamic_step.hpp \
 /tmp/mut/fix/include/boost/gil/concepts/fwd.hpp \
 /tmp/mut/fix/include/boost/gil/concepts/concept_check.hpp \
 /tmp/mut/fix/include/boost/gil/concepts.hpp \
 /tmp/mut/fix/include/boost/gil/concepts/channel.hpp \
 /tmp/mut/fix/include/boost/gil/concepts/basic.hpp \
 /tmp/mut/fix/include/boost/gil/concepts/color.hpp \
 /tmp/mut/fix/include/boost/gil/concepts/color_base.hpp \
 /tmp/mut/fix/include/boost/gil/concepts/image.hpp \
 /tmp/mut/fix/include/boost/gil/concepts/image_view.hpp \
 /tmp/mut/fix/include/boost/gil/concepts/pixel.hpp \
 /tmp/mut/fix/include/boost/gil/concepts/pixel_based.hpp \
 /tmp/mut/fix/include/boost/gil/concepts/detail/type_traits.hpp \
 /tmp/mut/fix/include/boost/gil/concepts/pixel_dereference.hpp \
 /tmp/mut/fix/include/boost/gil/concepts/pixel_iterator.hpp \
 /tmp/mut/fix/include/boost/gil/concepts/pixel_locator.hpp \
 /tmp/mut/fix/include/boost/gil/concepts/point.hpp \
 /tmp/mut/fix/include/boost/gil/concepts/detail/utility.hpp \
 /tmp/mut/fix/include/boost/gil/pixel_iterator.hpp \
 /tmp/mut/fix/include/boost/gil/pixel.hpp \
 /tmp/mut/fix/include/boost/gil/color_base.hpp \
 /tmp/mut/fix/include/boost/gil/color_base_algorithm.hpp \
 /tmp/mut/fix/include/boost/gil/pixel_numeric_operations.hpp \
 /tmp/mut/fix/include/boost/gil/channel_numeric_operations.hpp \
 /tmp/mut/fix/include/boost/gil/image.hpp \
 /tmp/mut/fix/include/boost/gil/image_view.hpp \
 /tmp/mut/fix/include/boost/gil/iterator_from_2d.hpp \
 /tmp/mut/fix/include/boost/gil/locator.hpp \
 /tmp/mut/fix/include/boost/gil/step_iterator.hpp \
 /tmp/mut/fix/include/boost/gil/pixel_iterator_adaptor.hpp \
 /tmp/mut/fix/include/boost/gil/point.hpp \
 /tmp/mut/fix/include/boost/gil/detail/std_common_type.hpp \
 /tmp/mut/fix/include/boost/gil/bit_aligned_pixel_iterator.hpp \
 /tmp/mut/fix/include/boost/gil/bit_aligned_pixel_reference.hpp \
 /tmp/mut/fix/include/boost/gil/image_view_factory.hpp \
 /tmp/mut/fix/include/boost/gil/color_convert.hpp \
 /tmp/mut/fix/include/boost/gil/channel_algorithm.hpp \
 /tmp/mut/fix/include/boost/gil/promote_integral.hpp \
 /tmp/mut/fix/include/boost/gil/typedefs.hpp \
 /tmp/mut/fix/include/boost/gil/cmyk.hpp \
 /tmp/mut/fix/include/boost/gil/device_n.hpp \
 /tmp/mut/fix/include/boost/gil/gray.hpp \
 /tmp/mut/fix/include/boost/gil/rgb.hpp \
 /tmp/mut/fix/include/boost/gil/planar_pixel_iterator.hpp \
 /tmp/mut/fix/include/boost/gil/rgba.hpp \
 /tmp/mut/fix/include/boost/gil/detail/is_channel_integral.hpp \
 /tmp/mut/fix/include/boost/gil/detail/type_traits.hpp \
 /tmp/mut/fix/include/boost/gil/histogram.hpp \
 /tmp/mut/fix/include/boost/gil/packed_pixel.hpp \
 /tmp/mut/fix/include/boost/gil/planar_pixel_reference.hpp \
 /tmp/mut/fix/include/boost/gil/position_iterator.hpp \
 /tmp/mut/fix/include/boost/gil/premultiply.hpp \
 /tmp/mut/fix/include/boost/gil/extension/rasterization/circle.hpp \
 /tmp/mut/fix/include/boost/gil/detail/math.hpp \
 /tmp/mut/fix/include/boost/gil/image_processing/kernel.hpp \
 /tmp/mut/fix/include/boost/gil/extension/rasterization/apply_rasterizer.hpp \
 /tmp/mut/fix/include/boost/gil/extension/rasterization/ellipse.hpp \
 /tmp/mut/fix/include/boost/gil/extension/rasterization/line.hpp \
 /tmp/mut/fix/include/boost/gil/virtual_locator.hpp \
 /tmp/mut/fix/include/boost/gil/image_processing/adaptive_histogram_equalization.hpp \
 /tmp/mut/fix/include/boost/gil/image_processing/histogram_equalization.hpp \
 /tmp/mut/fix/include/boost/gil/extension/image_processing/diffusion.hpp \
 /tmp/mut/fix/include/boost/gil/image_processing/filter.hpp \
 /tmp/mut/fix/include/boost/gil/image_processing/convolve.hpp \
 /tmp/mut/fix/include/boost/gil/image_processing/harris.hpp \
 /tmp/mut/fix/include/boost/gil/image_processing/hessian.hpp \
 /tmp/mut/fix/include/boost/gil/image_processing/histogram_matching.hpp \
 /tmp/mut/fix/include/boost/gil/extension/image_processing/hough_parameter.hpp \
 /tmp/mut/fix/include/boost/gil/extension/image_processing/hough_transform.hpp \
 /tmp/mut/fix/include/boost/gil/image_processing/morphology.hpp \
 /tmp/mut/fix/include/boost/gil/image_processing/threshold.hpp \
 /tmp/mut/fix/include/boost/gil/image_processing/numeric.hpp \
 /tmp/mut/fix/include/boost/gil/image_processing/scaling.hpp \
 lib/trace.hpp
/tmp/mut/fix/include/boost/gil.hpp:
/tmp/mut/fix/include/boost/gil/algorithm.hpp:
/tmp/mut/fix/include/boost/gil/metafunctions.hpp:
/tmp/mut/fix/include/boost/gil/channel.hpp:
/tmp/mut/fix/include/boost/gil/utilities.hpp:
/tmp/mut/fix/include/boost/gil/detail/mp11.hpp:
/tmp/mut/fix/include/boost/gil/dynamic_step.hpp:
/tmp/mut/fix/include/boost/gil/concepts/dynamic_step.hpp:
/tmp/mut/fix/include/boost/gil/concepts/fwd.hpp:
/tmp/mut/fix/include/boost/gil/concepts/concept_check.hpp:
/tmp/mut/fix/include/boost/gil/concepts.hpp:
/tmp/mut/fix/include/boost/gil/concepts/channel.hpp:
/tmp/mut/fix/include/boost/gil/concepts/basic.hpp:
/tmp/mut/fix/include/boost/gil/concepts/color.hpp:
/tmp/mut/fix/include/boost/gil/concepts/color_base.hpp:
/tmp/mut/fix/include/boost/gil/concepts/image.hpp:
/tmp/mut/fix/include/boost/gil/concepts/image_view.hpp:
/tmp/mut/fix/include/boost/gil/concepts/pixel.hpp:
/tmp/mut/fix/include/boost/gil/concepts/pixel_based.hpp:
/tmp/mut/fix/include/boost/gil/concepts/detail/type_traits.hpp:
/tmp/mut/fix/include/boost/gil/concepts/pixel_dereference.hpp:
/tmp/mut/fix/include/boost/gil/concepts/pixel_iterator.hpp:
/tmp/mut/fix/include/boost/gil/concepts/pixel_locator.hpp:
/tmp/mut/fix/include/boost/gil/concepts/point.hpp:
/tmp/mut/fix/include/boost/gil/concepts/detail/utility.hpp:
/tmp/mut/fix/include/boost/gil/pixel_iterator.hpp:
/tmp/mut/fix/include/boost/gil/pixel.hpp:
/tmp/mut/fix/include/boost/gil/color_base.hpp:
/tmp/mut/fix/include/boost/gil/color_base_algorithm.hpp:
/tmp/mut/fix/include/boost/gil/pixel_numeric_operations.hpp:
/tmp/mut/fix/include/boost/gil/channel_numeric_operations.hpp:
/tmp/mut/fix/include/boost/gil/image.hpp:
/tmp/mut/fix/include/boost/gil/image_view.hpp:
/tmp/mut/fix/include/boost/gil/iterator_from_2d.hpp:
/tmp/mut/fix/include/boost/gil/locator.hpp:
/tmp/mut/fix/include/boost/gil/step_iterator.hpp:
/tmp/mut/fix/include/boost/gil/pixel_iterator_adaptor.hpp:
/tmp/mut/fix/include/boost/gil/point.hpp:
/tmp/mut/fix/include/boost/gil/detail/std_common_type.hpp:
/tmp/mut/fix/include/boost/gil/bit_aligned_pixel_iterator.hpp:
/tmp/mut/fix/include/boost/gil/bit_aligned_pixel_reference.hpp:
/tmp/mut/fix/include/boost/gil/image_view_factory.hpp:
/tmp/mut/fix/include/boost/gil/color_convert.hpp:
/tmp/mut/fix/include/boost/gil/channel_algorithm.hpp:
/tmp/mut/fix/include/boost/gil/promote_integral.hpp:
/tmp/mut/fix/include/boost/gil/typedefs.hpp:
/tmp/mut/fix/include/boost/gil/cmyk.hpp:
/tmp/mut/fix/include/boost/gil/device_n.hpp:
/tmp/mut/fix/include/boost/gil/gray.hpp:
/tmp/mut/fix/include/boost/gil/rgb.hpp:
/tmp/mut/fix/include/boost/gil/planar_pixel_iterator.hpp:
/tmp/mut/fix/include/boost/gil/rgba.hpp:
/tmp/mut/fix/include/boost/gil/detail/is_channel_integral.hpp:
/tmp/mut/fix/include/boost/gil/detail/type_traits.hpp:
/tmp/mut/fix/include/boost/gil/histogram.hpp:
/tmp/mut/fix/include/boost/gil/packed_pixel.hpp:
/tmp/mut/fix/include/boost/gil/planar_pixel_reference.hpp:
/tmp/mut/fix/include/boost/gil/position_iterator.hpp:
/tmp/mut/fix/include/boost/gil/premultiply.hpp:
/tmp/mut/fix/include/boost/gil/extension/rasterization/circle.hpp:
/tmp/mut/fix/include/boost/gil/detail/math.hpp:
/tmp/mut/fix/include/boost/gil/image_processing/kernel.hpp:
/tmp/mut/fix/include/boost/gil/extension/rasterization/apply_rasterizer.hpp:
/tmp/mut/fix/include/boost/gil/extension/rasterization/ellipse.hpp:
/tmp/mut/fix/include/boost/gil/extension/rasterization/line.hpp:
/tmp/mut/fix/include/boost/gil/virtual_locator.hpp:
/tmp/mut/fix/include/boost/gil/image_processing/adaptive_histogram_equalization.hpp:
/tmp/mut/fix/include/boost/gil/image_processing/histogram_equalization.hpp:
/tmp/mut/fix/include/boost/gil/extension/image_processing/diffusion.hpp:
/tmp/mut/fix/include/boost/gil/image_processing/filter.hpp:
/tmp/mut/fix/include/boost/gil/image_processing/convolve.hpp:
/tmp/mut/fix/include/boost/gil/image_processing/harris.hpp:
/tmp/mut/fix/include/boost/gil/image_processing/hessian.hpp:
/tmp/mut/fix/include/boost/gil/image_processing/histogram_matching.hpp:
/tmp/mut/fix/include/boost/gil/extension/image_processing/hough_parameter.hpp:
/tmp/mut/fix/include/boost/gil/extension/image_processing/hough_transform.hpp:
/tmp/mut/fix/include/boost/gil/image_processing/morphology.hpp:
/tmp/mut/fix/include/boost/gil/image_processing/threshold.hpp:
/tmp/mut/fix/include/boost/gil/image_processing/numeric.hpp:
/tmp/mut/fix/include/boost/gil/image_processing/scaling.hpp:
lib/trace.hpp:
