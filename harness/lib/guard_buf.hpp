// Buffers of exactly the requested size flush against PROT_NONE pages, so that any access
// before or after the buffer is observed as SIGSEGV (an observation instrument, not an oracle).
#pragma once
#include <sys/mman.h>
#include <cstddef>
#include <cstdint>
#include <cstring>
#include <unistd.h>

namespace vt {
struct GuardBuf {
    unsigned char* base = nullptr; size_t maplen = 0; size_t page = 4096;
    unsigned char* data = nullptr; size_t size = 0;
    enum Where { AtEnd, AtStart };
    GuardBuf() {}
    GuardBuf(size_t n, Where w) { alloc(n, w); }
    GuardBuf(const GuardBuf&) = delete;
    ~GuardBuf() { release(); }
    void release() { if (base) munmap(base, maplen); base = nullptr; }
    // AtEnd: data+n is the first byte of an inaccessible page (over-runs fault)
    // AtStart: data-1 is the last byte of an inaccessible page (under-runs fault)
    unsigned char* alloc(size_t n, Where w) {
        release();
        page = (size_t)sysconf(_SC_PAGESIZE);
        size_t body = ((n + page - 1) / page) * page; if (body == 0) body = page;
        maplen = body + 2 * page;
        base = (unsigned char*)mmap(nullptr, maplen, PROT_READ | PROT_WRITE, MAP_PRIVATE | MAP_ANONYMOUS, -1, 0);
        if (base == (unsigned char*)MAP_FAILED) _exit(2);
        mprotect(base, page, PROT_NONE);
        mprotect(base + page + body, page, PROT_NONE);
        data = (w == AtEnd) ? base + page + body - n : base + page;
        size = n;
        return data;
    }
};
} // namespace vt
