// ndjson trace writer for the GIL conformance harnesses.
// One event per line; crashes become a final {"e":"Fault",...} event so that
// a trace is never silently truncated.
#pragma once
#include <cstdio>
#include <cstdlib>
#include <cstring>
#include <csignal>
#include <cstdint>
#include <string>
#include <vector>
#include <exception>
#include <unistd.h>
#include <fcntl.h>
#include <sys/wait.h>
#include <sys/resource.h>

namespace vt {

struct Trace {
    int fd = -1;
    std::string buf;
    long events = 0;
    void open(const char* path) {
        fd = ::open(path, O_WRONLY | O_CREAT | O_TRUNC | O_APPEND, 0644);
        if (fd < 0) { perror(path); _exit(2); }
        buf.reserve(1 << 20);
    }
    void flush() {
        if (fd < 0) { buf.clear(); return; }
        size_t off = 0;
        while (off < buf.size()) {
            ssize_t n = ::write(fd, buf.data() + off, buf.size() - off);
            if (n <= 0) _exit(2);
            off += (size_t)n;
        }
        buf.clear();
    }
    void line(const std::string& s) {
        buf += s; buf += '\n'; ++events;
        if (buf.size() > (1u << 20)) flush();
    }
    void close() { if (fd >= 0) { flush(); ::close(fd); fd = -1; } }
};

inline Trace& T() { static Trace t; return t; }

// ---- tiny JSON builder -------------------------------------------------
struct J {
    std::string s; bool first = true;
    J() { s = "{"; }
    explicit J(const char* ev) { s = "{"; str("e", ev); }
    void key(const char* k) { if (!first) s += ','; first = false; s += '"'; s += k; s += "\":"; }
    J& num(const char* k, long long v) { key(k); s += std::to_string(v); return *this; }
    J& boolean(const char* k, bool v) { key(k); s += v ? "true" : "false"; return *this; }
    J& str(const char* k, const std::string& v) {
        key(k); s += '"';
        for (char c : v) { if (c == '"' || c == '\\') { s += '\\'; s += c; } else if ((unsigned char)c < 32) { char b[8]; snprintf(b, 8, "\\u%04x", c); s += b; } else s += c; }
        s += '"'; return *this;
    }
    J& raw(const char* k, const std::string& v) { key(k); s += v; return *this; }
    template <class It> J& arr(const char* k, It b, It e) {
        key(k); s += '[';
        bool f = true; for (; b != e; ++b) { if (!f) s += ','; f = false; s += std::to_string((long long)*b); }
        s += ']'; return *this;
    }
    template <class V> J& arr(const char* k, const V& v) { return arr(k, v.begin(), v.end()); }
    std::string done() { return s + "}"; }
    void emit() { T().line(done()); }
};

template <class V> inline std::string jarr(const V& v) {
    std::string s = "["; bool f = true;
    for (auto const& x : v) { if (!f) s += ','; f = false; s += std::to_string((long long)x); }
    return s + "]";
}
inline std::string jarr_raw(const std::vector<std::string>& v) {
    std::string s = "["; bool f = true;
    for (auto const& x : v) { if (!f) s += ','; f = false; s += x; }
    return s + "]";
}
// 32-bit (or wider, up to 2^47) value as 16-bit words, most significant first
inline std::string words2(uint64_t v) { return "[" + std::to_string((v >> 16) & 0xffffffffu) + "," + std::to_string(v & 0xffff) + "]"; }

// ---- crash handling ----------------------------------------------------
inline void fault_exit(const char* kind) {
    // async-signal-unsafe in principle, but we are dying anyway and single threaded
    T().line(std::string("{\"e\":\"Fault\",\"kind\":\"") + kind + "\"}");
    T().close();
    _exit(0);
}
inline void on_signal(int sig) {
    const char* k = sig == SIGSEGV ? "sigsegv" : sig == SIGFPE ? "sigfpe" : sig == SIGABRT ? "abort" : sig == SIGBUS ? "sigbus" : (sig == SIGALRM || sig == SIGXCPU) ? "timeout" : "signal";
    fault_exit(k);
}
inline void on_terminate() { fault_exit("terminate"); }
inline void install_handlers() {
    std::set_terminate(on_terminate);
    for (int s : {SIGSEGV, SIGFPE, SIGABRT, SIGBUS, SIGALRM, SIGXCPU}) {
        struct sigaction sa; memset(&sa, 0, sizeof sa); sa.sa_handler = on_signal; sa.sa_flags = SA_NODEFER;
        sigaction(s, &sa, nullptr);
    }
}

// Run fn() in a forked child so that a crash there is one observed event and the
// enumeration continues.  The child appends to the same trace file (O_APPEND); if it
// does not exit cleanly the parent records the Fault.  Returns true on clean exit.
template <class F> inline bool isolated(F fn, unsigned timeout_s = 20) {
    T().flush();
    pid_t pid = fork();
    if (pid < 0) { perror("fork"); _exit(2); }
    if (pid == 0) {
        // the watchdog counts CPU seconds of the child (a loaded machine or a stalled disk must not look like a hang);
        // a generous wall-clock alarm remains as a backstop for a child that blocks without using the CPU
        { struct rlimit rl; rl.rlim_cur = timeout_s; rl.rlim_max = timeout_s + 5; setrlimit(RLIMIT_CPU, &rl); }
        alarm(timeout_s * 20 + 120);
        fn();
        T().flush();
        _exit(0);
    }
    int st = 0; waitpid(pid, &st, 0);
    if (WIFEXITED(st) && WEXITSTATUS(st) == 0) return true;
    std::string kind;
    if (WIFSIGNALED(st)) kind = "signal" + std::to_string(WTERMSIG(st));
    else if (WEXITSTATUS(st) == 77) kind = "asan";
    else if (WEXITSTATUS(st) == 78) kind = "ubsan";
    else kind = "exit" + std::to_string(WEXITSTATUS(st));
    T().line("{\"e\":\"Fault\",\"kind\":\"" + kind + "\"}");
    T().flush();
    return false;
}

// deterministic PRNG (splitmix64)
struct Rng {
    uint64_t s;
    explicit Rng(uint64_t seed) : s(seed * 0x9E3779B97F4A7C15ull + 0x1234567) {}
    uint64_t next() { uint64_t z = (s += 0x9E3779B97F4A7C15ull); z = (z ^ (z >> 30)) * 0xBF58476D1CE4E5B9ull; z = (z ^ (z >> 27)) * 0x94D049BB133111EBull; return z ^ (z >> 31); }
    uint32_t below(uint32_t n) { return n ? (uint32_t)(next() % n) : 0; }
    int range(int lo, int hi) { return lo + (int)below((uint32_t)(hi - lo + 1)); }
};

struct Args {
    std::string out = "trace.ndjson"; std::string tier = "quick"; uint64_t seed = 1; int shard = 0, nshards = 1;
    std::vector<std::string> rest;
    Args(int argc, char** argv) {
        for (int i = 1; i < argc; ++i) {
            std::string a = argv[i];
            auto val = [&](const char* n) -> const char* { size_t l = strlen(n); return a.compare(0, l, n) == 0 ? a.c_str() + l : nullptr; };
            if (auto v = val("--out=")) out = v; else if (auto v = val("--tier=")) tier = v;
            else if (auto v = val("--seed=")) seed = strtoull(v, 0, 10);
            else if (auto v = val("--shard=")) { shard = atoi(v); const char* sl = strchr(v, '/'); nshards = sl ? atoi(sl + 1) : 1; }
            else rest.push_back(a);
        }
    }
    bool thorough() const { return tier == "thorough"; }
};

} // namespace vt

