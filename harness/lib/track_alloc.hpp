// Tracking allocator: every allocate/deallocate is recorded (and optionally traced); blocks are
// registered so that a harness can find the block a pixel lives in.  Supports identity (equal /
// unequal allocators), configurable propagation traits and fault injection.
#pragma once
#include <map>
#include <new>
#include <memory>
#include <cstddef>
#include <cstdlib>
#include <type_traits>
#include "trace.hpp"

namespace vt {
struct Block { long id; size_t size; int alloc; bool live; };
struct AllocWorld {
    std::map<const void*, Block> blocks;      // by address; freed blocks stay (live=false) until the address is reused
    long next_id = 1; long nalloc = 0; long fail_at = -1; bool trace = false;
    long live_bytes = 0, live_blocks = 0;
    void reset() { for (auto& kv : blocks) if (kv.second.live) ::operator delete(const_cast<void*>(kv.first)); blocks.clear(); next_id = 1; nalloc = 0; fail_at = -1; live_bytes = 0; live_blocks = 0; }
    const std::pair<const void* const, Block>* find_containing(const void* p) const {
        auto it = blocks.upper_bound(p);
        if (it == blocks.begin()) return nullptr; --it;
        if (!it->second.live) return nullptr;
        const unsigned char* b = (const unsigned char*)it->first;
        if ((const unsigned char*)p >= b && (const unsigned char*)p < b + it->second.size + 1) return &*it;   // +1: one-past-end
        return nullptr;
    }
};
inline AllocWorld& world() { static AllocWorld w; return w; }

template <class T, bool POCMA = true, bool POCCA = true, bool POCS = true>
struct track_alloc {
    using value_type = T;
    using propagate_on_container_move_assignment = std::integral_constant<bool, POCMA>;
    using propagate_on_container_copy_assignment = std::integral_constant<bool, POCCA>;
    using propagate_on_container_swap = std::integral_constant<bool, POCS>;
    using is_always_equal = std::false_type;
    template <class U> struct rebind { using other = track_alloc<U, POCMA, POCCA, POCS>; };
    int id = 0;
    track_alloc() = default;
    explicit track_alloc(int i) : id(i) {}
    template <class U> track_alloc(const track_alloc<U, POCMA, POCCA, POCS>& o) : id(o.id) {}
    T* allocate(std::size_t n) {
        AllocWorld& w = world();
        long k = w.nalloc++;
        if (w.fail_at >= 0 && k == w.fail_at) { if (w.trace) J("AllocFail").num("a", id).num("size", (long long)(n * sizeof(T))).emit(); throw std::bad_alloc(); }
        void* p = ::operator new(n * sizeof(T));
        Block b{w.next_id++, n * sizeof(T), id, true};
        w.blocks[p] = b; w.live_bytes += (long)b.size; w.live_blocks++;
        if (w.trace) J("Alloc").num("a", id).num("blk", b.id).num("size", (long long)b.size).emit();
        return (T*)p;
    }
    void deallocate(T* p, std::size_t n) {
        AllocWorld& w = world();
        auto it = w.blocks.find(p);
        bool known = it != w.blocks.end() && it->second.live;
        if (w.trace) {
            J j("Free"); j.num("a", id).num("size", (long long)(n * sizeof(T)));
            if (known) j.num("blk", it->second.id).num("bsize", (long long)it->second.size).num("balloc", it->second.alloc);
            else j.num("blk", it != w.blocks.end() ? -it->second.id : 0).num("bsize", 0).num("balloc", -1);
            j.emit();
        }
        if (!known) return;                       // double free / foreign pointer: recorded, not executed
        it->second.live = false; w.live_bytes -= (long)it->second.size; w.live_blocks--;
        ::operator delete(p);
    }
    friend bool operator==(const track_alloc& a, const track_alloc& b) { return a.id == b.id; }
    friend bool operator!=(const track_alloc& a, const track_alloc& b) { return a.id != b.id; }
};
} // namespace vt
