// X01 (extension, not one of the listed properties): numeric helpers of GIL against Numeric.tla.
//   Round  : iround / ifloor / iceil on dyadic arguments k/8 (float and double), and on points
//   Point  : point<T> arithmetic and comparisons
//   ChanOp : channel_*_t function objects (int32 result type)
//   PixOp  : pixel_*_t function objects, operands in different channel orders (rgb / bgr)
//   Kernel : generate_{normalized,unnormalized}_mean, generate_gaussian_kernel, Sobel / Scharr generators
//   Premul : premultiply function object and premultiply_view
//   Virt   : views over virtual_2d_locator (values computed from the coordinates) under the view factories
#include <boost/gil.hpp>
#include <boost/gil/premultiply.hpp>
#include <boost/gil/pixel_numeric_operations.hpp>
#include <boost/gil/channel_numeric_operations.hpp>
#include <boost/gil/image_processing/numeric.hpp>
#include <boost/gil/virtual_locator.hpp>
#include <cmath>
#include "lib/trace.hpp"
namespace gil = boost::gil;
using vt::J;

template <class T> static void rounds(const char* tn) {
    for (int k = -40; k <= 40; ++k) {
        T x = (T)k / (T)8;
        J("Round").str("f", "iround").str("t", tn).num("k", k).num("r", (long long)gil::iround(x)).emit();
        J("Round").str("f", "ifloor").str("t", tn).num("k", k).num("r", (long long)gil::ifloor(x)).emit();
        J("Round").str("f", "iceil").str("t", tn).num("k", k).num("r", (long long)gil::iceil(x)).emit();
    }
    for (int kx = -12; kx <= 12; kx += 3) for (int ky = -12; ky <= 12; ky += 5) {
        gil::point<T> p((T)kx / 8, (T)ky / 8);
        auto a = gil::iround(p), b = gil::ifloor(p), c = gil::iceil(p);
        J("RoundPt").str("t", tn).num("kx", kx).num("ky", ky).arr("round", std::vector<long>{(long)a.x, (long)a.y})
            .arr("floor", std::vector<long>{(long)b.x, (long)b.y}).arr("ceil", std::vector<long>{(long)c.x, (long)c.y}).emit();
    }
}

static void points() {
    using P = gil::point<std::ptrdiff_t>;
    for (long ax = -3; ax <= 3; ax += 2) for (long ay = -2; ay <= 4; ay += 3) for (long bx = -2; bx <= 2; bx += 2) for (long by = -1; by <= 3; by += 2) {
        P a(ax, ay), b(bx, by);
        auto pj = [](P p) { return std::vector<long>{(long)p.x, (long)p.y}; };
        P s = a + b, d = a - b, n = -a;
        P acc = a; acc += b; P acc2 = a; acc2 -= b;
        J e("Point"); e.arr("a", pj(a)).arr("b", pj(b)).arr("add", pj(s)).arr("sub", pj(d)).arr("neg", pj(n)).arr("addeq", pj(acc)).arr("subeq", pj(acc2))
            .boolean("eq", a == b).boolean("ne", a != b).num("a0", (long long)a[0]).num("a1", (long long)a[1])
            .num("ax0", (long long)gil::axis_value<0>(a)).num("ax1", (long long)gil::axis_value<1>(a));
        for (long sc : {2L, -3L}) {
            P m1 = a * sc, m2 = sc * a, dv = a / sc; P me = a; me *= sc; P de = a; de /= sc;
            std::string k = sc == 2 ? "p" : "m";
            e.arr(("mul" + k).c_str(), pj(m1)).arr(("lmul" + k).c_str(), pj(m2)).arr(("div" + k).c_str(), pj(dv)).arr(("muleq" + k).c_str(), pj(me)).arr(("diveq" + k).c_str(), pj(de));
        }
        e.arr("shl", pj(P(ax < 0 ? -ax : ax, ay < 0 ? -ay : ay) << 2)).arr("shr", pj(P((ax < 0 ? -ax : ax) * 8, (ay < 0 ? -ay : ay) * 8) >> 2));
        e.emit();
    }
}

static void chanops() {
    using I = std::int32_t;
    for (I a = -7; a <= 9; a += 2) for (I b = -5; b <= 6; ++b) {
        J e("ChanOp"); e.num("a", a).num("b", b)
            .num("plus", gil::channel_plus_t<I, I, I>()(a, b)).num("minus", gil::channel_minus_t<I, I, I>()(a, b))
            .num("mul", gil::channel_multiplies_t<I, I, I>()(a, b))
            .num("pluss", gil::channel_plus_scalar_t<I, int, I>()(a, b)).num("minuss", gil::channel_minus_scalar_t<I, int, I>()(a, b))
            .num("muls", gil::channel_multiplies_scalar_t<I, int, I>()(a, b));
        if (b != 0) e.num("div", gil::channel_divides_t<I, I, I>()(a, b)).num("divs", gil::channel_divides_scalar_t<I, int, I>()(a, b));
        I h = a; gil::channel_halves_t<I>()(h); I z = a; gil::channel_zeros_t<I>()(z); I as = 99; gil::channel_assigns_t<I, I>()(a, as);
        e.num("half", h).num("zero", z).num("assign", as);
        // unsigned 8-bit operands widened into an int result
        std::uint8_t ua = (std::uint8_t)(a + 100), ub = (std::uint8_t)(b + 200);
        e.num("ua", ua).num("ub", ub).num("uplus", gil::channel_plus_t<std::uint8_t, std::uint8_t, int>()(ua, ub))
            .num("uminus", gil::channel_minus_t<std::uint8_t, std::uint8_t, int>()(ua, ub)).num("umul", gil::channel_multiplies_t<std::uint8_t, std::uint8_t, int>()(ua, ub));
        e.emit();
    }
}

template <class P> static std::vector<long> sem(P const& p) {
    return {(long)gil::semantic_at_c<0>(p), (long)gil::semantic_at_c<1>(p), (long)gil::semantic_at_c<2>(p)};
}
template <class P1, class P2> static void pixops_pair(const char* l1, const char* l2, vt::Rng& r) {
    using R = gil::pixel<std::int32_t, gil::rgb_layout_t>;
    for (int t = 0; t < 12; ++t) {
        P1 a; P2 b;
        gil::semantic_at_c<0>(a) = r.range(-50, 50); gil::semantic_at_c<1>(a) = r.range(-50, 50); gil::semantic_at_c<2>(a) = r.range(-50, 50);
        gil::semantic_at_c<0>(b) = r.range(2, 9) * (r.below(2) ? 1 : -1); gil::semantic_at_c<1>(b) = r.range(1, 9); gil::semantic_at_c<2>(b) = -r.range(1, 9);
        int s = r.range(-4, 4); if (s == 0) s = 3;
        R plus = gil::pixel_plus_t<P1, P2, R>()(a, b), minus = gil::pixel_minus_t<P1, P2, R>()(a, b);
        R mul = gil::pixel_multiplies_t<P1, P2, R>()(a, b), div = gil::pixel_divides_t<P1, P2, R>()(a, b);
        R muls = gil::pixel_multiplies_scalar_t<P1, int, R>()(a, s), divs = gil::pixel_divides_scalar_t<P1, int, R>()(a, s);
        P1 h = a; gil::pixel_halves_t<P1>()(h); P1 z = a; gil::pixel_zeros_t<P1>()(z);
        P2 as = b; gil::pixel_assigns_t<P1, P2>()(a, as);
        J("PixOp").str("l1", l1).str("l2", l2).arr("a", sem(a)).arr("b", sem(b)).num("s", s).arr("plus", sem(plus)).arr("minus", sem(minus)).arr("mul", sem(mul))
            .arr("div", sem(div)).arr("muls", sem(muls)).arr("divs", sem(divs)).arr("half", sem(h)).arr("zero", sem(z)).arr("assign", sem(as)).emit();
    }
}

template <class K> static void kernel_ev(const char* name, K const& k, double scale, const char* exc = "none") {
    std::vector<long long> v;
    for (auto x : k) v.push_back((long long)std::llround((double)x * scale));
    J("Kernel").str("name", name).str("exc", exc).num("n", (long long)k.size()).num("cx", (long long)k.center_x()).num("cy", (long long)k.center_y()).num("scale", (long long)scale).arr("v", v).emit();
}
static void kernels() {
    kernel_ev("sobel_dx", gil::generate_dx_sobel(1), 1); kernel_ev("sobel_dy", gil::generate_dy_sobel(1), 1);
    kernel_ev("scharr_dx", gil::generate_dx_scharr(1), 1); kernel_ev("scharr_dy", gil::generate_dy_scharr(1), 1);
    kernel_ev("identity", gil::generate_dx_sobel(0), 1); kernel_ev("identity", gil::generate_dy_sobel(0), 1);
    kernel_ev("identity", gil::generate_dx_scharr(0), 1); kernel_ev("identity", gil::generate_dy_scharr(0), 1);
    for (std::size_t n : {1u, 3u, 5u, 7u}) {
        kernel_ev("mean", gil::generate_normalized_mean(n), 1 << 24);
        kernel_ev("ones", gil::generate_unnormalized_mean(n), 1);
        for (double sigma : {0.5, 1.0, 2.5}) {
            auto g = gil::generate_gaussian_kernel(n, sigma);
            std::vector<long long> v; for (auto x : g) v.push_back((long long)std::llround((double)x * (1 << 24)));
            J("Kernel").str("name", "gauss").str("exc", "none").num("n", (long long)g.size()).num("cx", (long long)g.center_x()).num("cy", (long long)g.center_y())
                .num("scale", 1 << 24).num("sigma8", (long long)(sigma * 8)).arr("v", v).emit();
        }
    }
    for (std::size_t n : {2u, 4u}) {
        const char* ex[3] = {"none", "none", "none"};
        try { gil::generate_normalized_mean(n); } catch (std::invalid_argument const&) { ex[0] = "invalid_argument"; }
        try { gil::generate_unnormalized_mean(n); } catch (std::invalid_argument const&) { ex[1] = "invalid_argument"; }
        try { gil::generate_gaussian_kernel(n, 1.0); } catch (std::invalid_argument const&) { ex[2] = "invalid_argument"; }
        J("KernelEven").num("n", (long long)n).str("mean", ex[0]).str("ones", ex[1]).str("gauss", ex[2]).emit();
    }
}

static void premul() {
    vt::Rng r(5);
    for (int t = 0; t < 300; ++t) {
        gil::rgba8_pixel_t s((uint8_t)r.below(256), (uint8_t)r.below(256), (uint8_t)r.below(256), (uint8_t)(t < 20 ? (t % 2 ? 255 : 0) : r.below(256)));
        gil::rgb8_pixel_t d3(1, 2, 3); gil::rgba8_pixel_t d4(1, 2, 3, 4);
        gil::premultiply()(s, d3); gil::premultiply()(s, d4);
        J("Premul").arr("src", std::vector<int>{s[0], s[1], s[2], s[3]}).arr("rgb", std::vector<int>{d3[0], d3[1], d3[2]}).arr("rgba", std::vector<int>{d4[0], d4[1], d4[2], d4[3]}).emit();
    }
    // premultiply_view over an image
    gil::rgba8_image_t img(3, 2);
    int i = 0; for (auto& p : gil::view(img)) { p = gil::rgba8_pixel_t((uint8_t)(10 + 40 * i), (uint8_t)(250 - 30 * i), (uint8_t)(7 * i), (uint8_t)(51 * i)); ++i; }
    auto pv = gil::premultiply_view<gil::rgb8_pixel_t>(gil::const_view(img));
    std::vector<std::string> rows;
    for (int y = 0; y < 2; ++y) for (int x = 0; x < 3; ++x) {
        auto s = gil::const_view(img)(x, y); gil::rgb8_pixel_t d = pv(x, y);
        rows.push_back(J().arr("src", std::vector<int>{s[0], s[1], s[2], s[3]}).arr("rgb", std::vector<int>{d[0], d[1], d[2]}).done());
    }
    J("PremulView").num("w", (long long)pv.width()).num("h", (long long)pv.height()).raw("px", vt::jarr_raw(rows)).emit();
}

// ---- virtual locator: pixel value = 7 + x + 100 y --------------------------------------------------------
struct coord_fn {
    using point_t = gil::point_t;
    using const_t = coord_fn;
    using value_type = gil::gray16_pixel_t;
    using reference = value_type;
    using const_reference = value_type;
    using argument_type = point_t;
    using result_type = reference;
    static constexpr bool is_mutable = false;
    result_type operator()(point_t const& p) const { return value_type((std::uint16_t)(7 + p.x + 100 * p.y)); }
};
using vloc_t = gil::virtual_2d_locator<coord_fn, false>;
using vview_t = gil::image_view<vloc_t>;

template <class V> static std::vector<long> vals(V const& v) {
    std::vector<long> r;
    for (std::ptrdiff_t y = 0; y < v.height(); ++y) for (std::ptrdiff_t x = 0; x < v.width(); ++x) r.push_back((long)gil::at_c<0>(typename V::value_type(v(x, y))));
    return r;
}
template <class V> static std::vector<long> vals_1d(V const& v) {
    std::vector<long> r;
    for (auto it = v.begin(); it != v.end(); ++it) r.push_back((long)gil::at_c<0>(typename V::value_type(*it)));
    return r;
}
template <class V> static void virt_ev(std::string const& ops, int w, int h, V const& v) {
    J("Virt").raw("ops", ops).num("w", w).num("h", h).num("rw", (long long)v.width()).num("rh", (long long)v.height()).arr("vals", vals(v)).arr("vals1d", vals_1d(v)).emit();
}
static std::string op1(const char* n, std::vector<long> a = {}) { return J().str("op", n).arr("args", a).done(); }

template <class V> static void virt_second(std::string const& first, int w, int h, V const& v) {
    virt_ev("[" + first + "]", w, h, v);
    int vw = (int)v.width(), vh = (int)v.height();
    virt_ev("[" + first + "," + op1("flipUD") + "]", w, h, gil::flipped_up_down_view(v));
    virt_ev("[" + first + "," + op1("flipLR") + "]", w, h, gil::flipped_left_right_view(v));
    virt_ev("[" + first + "," + op1("transposed") + "]", w, h, gil::transposed_view(v));
    virt_ev("[" + first + "," + op1("rot90cw") + "]", w, h, gil::rotated90cw_view(v));
    virt_ev("[" + first + "," + op1("rot90ccw") + "]", w, h, gil::rotated90ccw_view(v));
    virt_ev("[" + first + "," + op1("rot180") + "]", w, h, gil::rotated180_view(v));
    virt_ev("[" + first + "," + op1("subsampled", {2, 1}) + "]", w, h, gil::subsampled_view(v, 2, 1));
    virt_ev("[" + first + "," + op1("subsampled", {1, 2}) + "]", w, h, gil::subsampled_view(v, 1, 2));
    if (vw >= 2 && vh >= 2) virt_ev("[" + first + "," + op1("subimage", {1, 1, vw - 1, vh - 1}) + "]", w, h, gil::subimage_view(v, 1, 1, vw - 1, vh - 1));
    if (vw >= 1 && vh >= 1) virt_ev("[" + first + "," + op1("subimage", {0, 0, vw - 1, vh}) + "]", w, h, gil::subimage_view(v, 0, 0, vw - 1, vh));
}
static void virtuals() {
    for (int w = 1; w <= 4; ++w) for (int h = 1; h <= 3; ++h) {
        vview_t v(gil::point_t(w, h), vloc_t(gil::point_t(0, 0), gil::point_t(1, 1), coord_fn()));
        virt_second(op1("same"), w, h, v);
        virt_second(op1("flipUD"), w, h, gil::flipped_up_down_view(v));
        virt_second(op1("flipLR"), w, h, gil::flipped_left_right_view(v));
        virt_second(op1("transposed"), w, h, gil::transposed_view(v));
        virt_second(op1("rot90cw"), w, h, gil::rotated90cw_view(v));
        virt_second(op1("rot90ccw"), w, h, gil::rotated90ccw_view(v));
        virt_second(op1("rot180"), w, h, gil::rotated180_view(v));
        virt_second(op1("subsampled", {2, 2}), w, h, gil::subsampled_view(v, 2, 2));
        if (w >= 2) virt_second(op1("subimage", {1, 0, w - 1, h}), w, h, gil::subimage_view(v, 1, 0, w - 1, h));
    }
}

int main(int argc, char** argv) {
    vt::Args args(argc, argv);
    vt::install_handlers();
    vt::T().open(args.out.c_str());
    vt::Rng r(args.seed);
    vt::isolated([&] { rounds<float>("float"); rounds<double>("double"); points(); });
    vt::isolated([&] { chanops(); });
    vt::isolated([&] {
        using rgb_t = gil::pixel<std::int32_t, gil::rgb_layout_t>; using bgr_t = gil::pixel<std::int32_t, gil::bgr_layout_t>;
        pixops_pair<rgb_t, rgb_t>("rgb", "rgb", r); pixops_pair<rgb_t, bgr_t>("rgb", "bgr", r); pixops_pair<bgr_t, rgb_t>("bgr", "rgb", r); pixops_pair<bgr_t, bgr_t>("bgr", "bgr", r);
    });
    vt::isolated([&] { kernels(); });
    vt::isolated([&] { premul(); });
    vt::isolated([&] { virtuals(); });
    J("End").num("events", vt::T().events).emit();
    vt::T().close();
    return 0;
}
