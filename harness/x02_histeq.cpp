// X02 (extension): histogram equalisation against HistEq.tla.
//   EqMap  : histogram_equalization(histogram) -> colour map and destination histogram
//   EqView : histogram_equalization(src_view, dst_view) on gray8 / rgb8 images (per channel)
#include <boost/gil.hpp>
#include <boost/gil/image_processing/histogram_equalization.hpp>
#include "lib/trace.hpp"
namespace gil = boost::gil;
using vt::J;

template <class H> std::string hist_json(H const& h) {
    std::vector<std::pair<long long, long long>> v;
    for (auto const& kv : h) v.push_back({(long long)std::get<0>(kv.first), (long long)std::llround((double)kv.second)});
    std::sort(v.begin(), v.end());
    std::string s = "[";
    for (size_t i = 0; i < v.size(); ++i) { if (i) s += ','; s += "[" + std::to_string(v[i].first) + "," + std::to_string(v[i].second) + "]"; }
    return s + "]";
}
int main(int argc, char** argv) {
    vt::Args args(argc, argv); vt::install_handlers(); vt::T().open(args.out.c_str());
    vt::Rng rng(args.seed * 71 + 5);
    int N = args.thorough() ? 400 : 80;
    vt::isolated([&] {
        for (int t = 0; t < N; ++t) {
            int w = 1 + rng.below(5), h = 1 + rng.below(4), alphabet = 1 + rng.below(6), base = rng.below(200), spread = 1 + rng.below(50);
            gil::gray8_image_t img(w, h);
            std::vector<long> vals;
            for (auto& p : gil::view(img)) { p = gil::gray8_pixel_t((uint8_t)std::min(255, base + (int)rng.below(alphabet) * spread)); vals.push_back(p[0]); }
            gil::histogram<unsigned char> hist, dst;
            gil::fill_histogram(gil::const_view(img), hist, 1, false, true);
            auto cmap = gil::histogram_equalization(hist, dst);
            std::vector<std::pair<long long, long long>> m; for (auto const& kv : cmap) m.push_back({(long long)kv.first, (long long)kv.second});
            std::string ms = "["; for (size_t i = 0; i < m.size(); ++i) { if (i) ms += ','; ms += "[" + std::to_string(m[i].first) + "," + std::to_string(m[i].second) + "]"; } ms += "]";
            J("EqMap").arr("vals", vals).raw("hist", hist_json(hist)).raw("map", ms).raw("dst", hist_json(dst)).emit();
            gil::gray8_image_t out(w, h);
            gil::histogram_equalization(gil::const_view(img), gil::view(out));
            std::vector<long> ov; for (auto& p : gil::view(out)) ov.push_back(p[0]);
            J("EqView").str("type", "gray8").num("ch", 0).arr("src", vals).arr("dst", ov).emit();
        }
        for (int t = 0; t < N / 4; ++t) {
            int w = 1 + rng.below(4), h = 1 + rng.below(3);
            gil::rgb8_image_t img(w, h), out(w, h);
            for (auto& p : gil::view(img)) p = gil::rgb8_pixel_t((uint8_t)(rng.below(4) * 60), (uint8_t)(10 + rng.below(3) * 100), (uint8_t)rng.below(256));
            gil::histogram_equalization(gil::const_view(img), gil::view(out));
            for (int c = 0; c < 3; ++c) {
                std::vector<long> sv, ov; for (auto& p : gil::view(img)) sv.push_back(p[c]); for (auto& p : gil::view(out)) ov.push_back(p[c]);
                J("EqView").str("type", "rgb8").num("ch", c).arr("src", sv).arr("dst", ov).emit();
            }
        }
    }, 300);
    J("End").num("events", vt::T().events).emit(); vt::T().close(); return 0;
}
