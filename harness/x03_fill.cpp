// X03 (extension): an image built or recreated WITH A FILL VALUE holds that value in every pixel, for every pixel organisation
// (interleaved, planar, packed, bit-aligned), every shape and alignment, on the allocating and on the storage-reusing path of recreate.
// One FillInit event per (image type, way, shape, alignment):
//   "ctor-fill"            Img im(w, h, fv, al)                      / Img im(point, fv, al)
//   "recreate-fill-grow"   Img im(1, 1, al0); im.recreate(w, h, fv, al)       (must allocate unless w*h <= 1)
//   "recreate-fill-reuse"  Img im(w+2, h+1, al) painted; im.recreate(w, h, fv, al)   (storage is large enough)
//   "recreate-fill-same"   Img im(w, h, al) painted; im.recreate(w, h, fv, al)       (same dimensions and alignment: may be a no-op)
// The event carries the requested and resulting dimensions, the fill value and every pixel (colour order), and the pixels before.
#include <boost/gil.hpp>
#include "lib/trace.hpp"
namespace gil = boost::gil;
using vt::J;
static vt::Args* A;
static long g_idx = 0;
static bool mine() { return (g_idx++ % A->nshards) == A->shard; }

template <class P> std::vector<long> chans(P const& p) {
    std::vector<long> r;
    boost::mp11::mp_for_each<boost::mp11::mp_iota_c<gil::num_channels<P>::value>>([&](auto K) { r.push_back((long)gil::semantic_at_c<decltype(K)::value>(p)); });
    return r;
}
template <class View> std::vector<long> flat(View const& v) {
    std::vector<long> r;
    for (int y = 0; y < v.height(); ++y) for (int x = 0; x < v.width(); ++x) { typename View::value_type p(v(x, y)); auto c = chans(p); r.insert(r.end(), c.begin(), c.end()); }
    return r;
}
template <class P> P rnd_pixel(vt::Rng& rng) {
    P p;
    gil::static_for_each(p, [&](auto&& ch) { using C = std::decay_t<decltype(ch)>; long mx = (long)gil::channel_traits<C>::max_value();
        ch = static_cast<typename gil::channel_traits<C>::value_type>((1 + (long)rng.below(250)) % (mx + 1)); });
    return p;
}
template <class Img> void paint(Img& img, vt::Rng& rng) {
    for (int y = 0; y < img.height(); ++y) for (int x = 0; x < img.width(); ++x) gil::view(img)(x, y) = rnd_pixel<typename Img::value_type>(rng);
}
template <class Img> void emit(const char* how, const char* tn, int w, int h, int al, typename Img::value_type const& fv, std::vector<long> const& before, int bw, int bh, int bal, Img const& im) {
    J("FillInit").str("how", how).str("type", tn).num("w", w).num("h", h).num("al", al).num("nc", gil::num_channels<Img>::value).arr("fv", chans(fv))
        .num("bw", bw).num("bh", bh).num("bal", bal).arr("before", before).num("rw", im.width()).num("rh", im.height()).arr("px", flat(gil::const_view(im))).emit();
}
template <class Img> void type(const char* tn) {
    static const int dims[][2] = {{0, 0}, {1, 1}, {5, 4}, {6, 3}, {3, 1}, {1, 5}, {7, 2}, {9, 2}, {0, 3}, {2, 0}};
    vt::Rng rng(A->seed * 23 + 5);
    using P = typename Img::value_type; using pt = typename Img::point_t;
    for (auto& wh : dims) for (int al : {0, 1, 4, 8, 16}) {
        if (!mine()) continue;
        int w = wh[0], h = wh[1];
        P fv = rnd_pixel<P>(rng);
        { if ((w + h + al) % 2) { Img im(w, h, fv, (std::size_t)al); emit("ctor-fill", tn, w, h, al, fv, {}, 0, 0, 0, im); }
          else { Img im(pt(w, h), fv, (std::size_t)al); emit("ctor-fill", tn, w, h, al, fv, {}, 0, 0, 0, im); } }
        { int al0 = (al == 8) ? 0 : al; Img im(1, 1, (std::size_t)al0); paint(im, rng); auto b = flat(gil::const_view(im));
          if ((w + h) % 2) im.recreate(w, h, fv, (std::size_t)al); else im.recreate(pt(w, h), fv, (std::size_t)al);
          emit("recreate-fill-grow", tn, w, h, al, fv, b, 1, 1, al0, im); }
        { Img im(w + 2, h + 1, (std::size_t)al); paint(im, rng); auto b = flat(gil::const_view(im));
          im.recreate(w, h, fv, (std::size_t)al); emit("recreate-fill-reuse", tn, w, h, al, fv, b, w + 2, h + 1, al, im); }
        { Img im(w, h, (std::size_t)al); paint(im, rng); auto b = flat(gil::const_view(im));
          im.recreate(w, h, fv, (std::size_t)al); emit("recreate-fill-same", tn, w, h, al, fv, b, w, h, al, im); }
        { Img im(w, h, (std::size_t)al); paint(im, rng); auto b = flat(gil::const_view(im)); int al2 = al == 16 ? 0 : 16;      // same dimensions, other alignment: not a no-op
          im.recreate(w, h, fv, (std::size_t)al2); emit("recreate-fill-realign", tn, w, h, al2, fv, b, w, h, al, im); }
    }
}
int main(int argc, char** argv) {
    vt::Args args(argc, argv); A = &args; vt::install_handlers(); vt::T().open(args.out.c_str());
    using pk565_t = gil::packed_image3_type<std::uint16_t, 5, 6, 5, gil::rgb_layout_t>::type;
    using pk332_t = gil::packed_image3_type<std::uint8_t, 3, 3, 2, gil::bgr_layout_t>::type;
    using ba565_t = gil::bit_aligned_image3_type<5, 6, 5, gil::rgb_layout_t>::type;
    using ba332_t = gil::bit_aligned_image3_type<3, 3, 2, gil::bgr_layout_t>::type;
    using ba1_t = gil::bit_aligned_image1_type<1, gil::gray_layout_t>::type;
    using ba4_t = gil::bit_aligned_image1_type<4, gil::gray_layout_t>::type;
    using ba7_t = gil::bit_aligned_image1_type<7, gil::gray_layout_t>::type;
    vt::isolated([&] { type<gil::gray8_image_t>("gray8"); type<gil::rgb8_image_t>("rgb8"); type<gil::bgr8_image_t>("bgr8"); type<gil::rgba8_image_t>("rgba8"); type<gil::rgb16_image_t>("rgb16"); }, 300);
    vt::isolated([&] { type<gil::rgb8_planar_image_t>("rgb8_planar"); type<gil::rgba8_planar_image_t>("rgba8_planar"); type<gil::rgb16_planar_image_t>("rgb16_planar"); type<gil::cmyk8_planar_image_t>("cmyk8_planar"); }, 300);
    vt::isolated([&] { type<pk565_t>("pk565"); type<pk332_t>("pk332"); }, 300);
    vt::isolated([&] { type<ba565_t>("ba565"); type<ba332_t>("ba332"); type<ba1_t>("ba1"); type<ba4_t>("ba4"); type<ba7_t>("ba7"); }, 300);
    J("End").num("events", vt::T().events).emit(); vt::T().close(); return 0;
}
