// X05 (extension): files WRITTEN by GIL decode, with an independent decoder, to the pixels of the view that was written.
// C12 round-trips through GIL's own reader, so a writer and a reader that agree on a wrong convention satisfy it; BMP / PNM / TARGA
// writes are already compared byte by byte with the specification's encoders (I_Encode of IoRoundTrip.tla).  Here:
//   PNG  : libpng (png_read_image, no transformations besides byte order)  gray8 gray16 rgb8 rgba8 rgb16 rgba16, interleaved / planar / bgr(a) views
//   TIFF : libtiff TIFFReadRGBAImageOriented for 8-bit gray / rgb (strip and tiled, several compressions), TIFFReadScanline for 16-bit strip files
//   JPEG : libjpeg decode of a CONSTANT image (within one level) and of the dimensions
// One Written event per file: source pixels (colour order) and decoded pixels.
#include <boost/gil.hpp>
#include <boost/gil/extension/io/png.hpp>
#include <boost/gil/extension/io/tiff.hpp>
#include <boost/gil/extension/io/jpeg.hpp>
#include <png.h>
#include <tiffio.h>
#include <jpeglib.h>
#include <unistd.h>
#include "lib/trace.hpp"
namespace gil = boost::gil;
using vt::J;
static vt::Args* A;
static std::string g_tmp;
static long g_idx = 0;
static bool mine() { return (g_idx++ % A->nshards) == A->shard; }

template <class View> std::vector<long> flat(View const& v) {       // colour (semantic) order
    std::vector<long> r; using P = typename View::value_type;
    for (int y = 0; y < v.height(); ++y) for (int x = 0; x < v.width(); ++x) { P p(v(x, y));
        boost::mp11::mp_for_each<boost::mp11::mp_iota_c<gil::num_channels<P>::value>>([&](auto K) { r.push_back((long)gil::semantic_at_c<decltype(K)::value>(p)); }); }
    return r;
}
template <class Img> void fill_random(Img& img, vt::Rng& rng) {
    for (int y = 0; y < img.height(); ++y) for (int x = 0; x < img.width(); ++x) { typename Img::value_type p;
        gil::static_for_each(p, [&](auto& c) { using C = typename std::remove_reference<decltype(c)>::type; c = C((long long)(rng.next() % ((unsigned long long)gil::channel_traits<C>::max_value() + 1))); });
        gil::view(img)(x, y) = p; }
}
static void emit(const char* fmt, const char* type, const char* variant, int w, int h, int nc, std::vector<long> const& src, bool ok, int dw, int dh, int dnc, int dbits, std::vector<long> const& dec) {
    J("Written").str("fmt", fmt).str("type", type).str("variant", variant).num("w", w).num("h", h).num("nc", nc).arr("src", src)
        .boolean("decoded", ok).num("dw", dw).num("dh", dh).num("dnc", dnc).num("dbits", dbits).arr("dec", dec).emit();
}
// ---- independent decoders ----------------------------------------------------------------------------------------
static bool png_decode(std::string const& path, int& w, int& h, int& nc, int& bits, std::vector<long>& px) {
    FILE* f = fopen(path.c_str(), "rb"); if (!f) return false;
    png_structp p = png_create_read_struct(PNG_LIBPNG_VER_STRING, 0, 0, 0); png_infop i = png_create_info_struct(p);
    if (setjmp(png_jmpbuf(p))) { png_destroy_read_struct(&p, &i, 0); fclose(f); return false; }
    png_init_io(p, f); png_read_info(p, i);
    w = png_get_image_width(p, i); h = png_get_image_height(p, i); bits = png_get_bit_depth(p, i); nc = png_get_channels(p, i);
    if (png_get_color_type(p, i) == PNG_COLOR_TYPE_PALETTE || bits < 8) { png_destroy_read_struct(&p, &i, 0); fclose(f); return false; }
    size_t rb = png_get_rowbytes(p, i); std::vector<std::vector<unsigned char>> rows(h, std::vector<unsigned char>(rb)); std::vector<png_bytep> rp(h); for (int y = 0; y < h; ++y) rp[y] = rows[y].data();
    png_read_image(p, rp.data()); png_read_end(p, 0); png_destroy_read_struct(&p, &i, 0); fclose(f);
    for (int y = 0; y < h; ++y) for (int x = 0; x < w * nc; ++x) px.push_back(bits == 8 ? rows[y][x] : (long)rows[y][2 * x] * 256 + rows[y][2 * x + 1]);     // PNG is big-endian
    return true;
}
static bool tiff_decode(std::string const& path, int& w, int& h, int& nc, int& bits, std::vector<long>& px) {
    TIFF* t = TIFFOpen(path.c_str(), "r"); if (!t) return false;
    uint32_t W = 0, H = 0; uint16_t spp = 1, bps = 8, planar = PLANARCONFIG_CONTIG, photo = 0; TIFFGetField(t, TIFFTAG_IMAGEWIDTH, &W); TIFFGetField(t, TIFFTAG_IMAGELENGTH, &H);
    TIFFGetFieldDefaulted(t, TIFFTAG_SAMPLESPERPIXEL, &spp); TIFFGetFieldDefaulted(t, TIFFTAG_BITSPERSAMPLE, &bps); TIFFGetFieldDefaulted(t, TIFFTAG_PLANARCONFIG, &planar); TIFFGetField(t, TIFFTAG_PHOTOMETRIC, &photo);
    w = (int)W; h = (int)H; nc = spp; bits = bps;
    if (bps == 8 && spp <= 3) {        // the library's own colour pipeline: packed ABGR, asked for with the origin at the top left
        std::vector<uint32_t> raster((size_t)W * H);
        if (!TIFFReadRGBAImageOriented(t, W, H, raster.data(), ORIENTATION_TOPLEFT, 0)) { TIFFClose(t); return false; }
        for (size_t k = 0; k < raster.size(); ++k) { if (spp == 1) px.push_back(TIFFGetR(raster[k])); else { px.push_back(TIFFGetR(raster[k])); px.push_back(TIFFGetG(raster[k])); px.push_back(TIFFGetB(raster[k])); } }
        TIFFClose(t); return true;
    }
    if (bps == 16 && planar == PLANARCONFIG_CONTIG && !TIFFIsTiled(t)) {
        std::vector<unsigned char> row(TIFFScanlineSize(t));
        for (uint32_t y = 0; y < H; ++y) { if (TIFFReadScanline(t, row.data(), y, 0) < 0) { TIFFClose(t); return false; }
            for (uint32_t x = 0; x < W * spp; ++x) { uint16_t v; memcpy(&v, &row[2 * x], 2); px.push_back(v); } }       // libtiff delivers samples in host byte order
        TIFFClose(t); return true;
    }
    TIFFClose(t); return false;
}
static bool jpeg_decode(std::string const& path, int& w, int& h, int& nc, std::vector<long>& px) {
    FILE* f = fopen(path.c_str(), "rb"); if (!f) return false;
    jpeg_decompress_struct c; jpeg_error_mgr e; c.err = jpeg_std_error(&e); jpeg_create_decompress(&c); jpeg_stdio_src(&c, f); jpeg_read_header(&c, TRUE); jpeg_start_decompress(&c);
    w = c.output_width; h = c.output_height; nc = c.output_components; std::vector<unsigned char> row((size_t)w * nc); JSAMPROW rp = row.data();
    while (c.output_scanline < c.output_height) { jpeg_read_scanlines(&c, &rp, 1); for (auto v : row) px.push_back(v); }
    jpeg_finish_decompress(&c); jpeg_destroy_decompress(&c); fclose(f); return true;
}
// ---- one case ---------------------------------------------------------------------------------------------------------
template <class Tag, class View, class Info> void one(const char* fmt, const char* type, const char* variant, View const& v, Info const& info, bool use_info) {
    std::string path = g_tmp + "/w_" + std::to_string(getpid()) + "." + fmt;
    vt::isolated([&] {
        if (use_info) gil::write_view(path, v, info); else gil::write_view(path, v, Tag());
        int w = 0, h = 0, nc = 0, bits = 8; std::vector<long> px; bool ok = false;
        if (std::string(fmt) == "png") ok = png_decode(path, w, h, nc, bits, px);
        else if (std::string(fmt) == "tif") ok = tiff_decode(path, w, h, nc, bits, px);
        else ok = jpeg_decode(path, w, h, nc, px);
        emit(fmt, type, variant, (int)v.width(), (int)v.height(), gil::num_channels<View>::value, flat(v), ok, w, h, nc, bits, px);
    }, 60);
    remove(path.c_str());
}
template <class Tag, class Img, class Planar, class Info> void orgs(const char* fmt, const char* type, int w, int h, vt::Rng& rng, Info const& info, bool use_info, std::string const& var, bool with_planar) {
    Img img(w, h); fill_random(img, rng);
    one<Tag>(fmt, type, (var + "interleaved").c_str(), gil::const_view(img), info, use_info);
    if (with_planar) { Planar pl(img.dimensions()); gil::copy_pixels(gil::const_view(img), gil::view(pl)); one<Tag>(fmt, type, (var + "planar").c_str(), gil::const_view(pl), info, use_info); }
    Img big(w + 3, h + 2); fill_random(big, rng);
    one<Tag>(fmt, type, (var + "subview").c_str(), gil::subimage_view(gil::const_view(big), 2, 1, w, h), info, use_info);
}
int main(int argc, char** argv) {
    vt::Args args(argc, argv); A = &args; vt::install_handlers(); vt::T().open(args.out.c_str());
    g_tmp = args.rest.size() > 0 ? args.rest[0] : "/tmp";
    std::vector<std::pair<int,int>> dims = {{1, 1}, {3, 2}, {5, 4}, {17, 3}, {16, 16}, {33, 18}};
    if (args.thorough()) { for (int w = 2; w <= 9; ++w) dims.push_back({w, 1 + w % 4}); dims.push_back({64, 40}); }
    vt::Rng rng(args.seed * 311 + 7);
    for (auto d : dims) { int w = d.first, h = d.second;
        gil::image_write_info<gil::png_tag> gi;
        if (mine()) orgs<gil::png_tag, gil::gray8_image_t, gil::gray8_image_t>("png", "gray8", w, h, rng, gi, false, "", false);
        if (mine()) orgs<gil::png_tag, gil::gray16_image_t, gil::gray16_image_t>("png", "gray16", w, h, rng, gi, false, "", false);
        if (mine()) orgs<gil::png_tag, gil::rgb8_image_t, gil::rgb8_planar_image_t>("png", "rgb8", w, h, rng, gi, false, "", true);
        if (mine()) orgs<gil::png_tag, gil::rgba8_image_t, gil::rgba8_planar_image_t>("png", "rgba8", w, h, rng, gi, false, "", true);
        if (mine()) orgs<gil::png_tag, gil::rgb16_image_t, gil::rgb16_planar_image_t>("png", "rgb16", w, h, rng, gi, false, "", true);
        if (mine()) orgs<gil::png_tag, gil::rgba16_image_t, gil::rgba16_planar_image_t>("png", "rgba16", w, h, rng, gi, false, "", true);
        if (mine()) orgs<gil::png_tag, gil::bgr8_image_t, gil::rgb8_planar_image_t>("png", "bgr8", w, h, rng, gi, false, "", false);
        if (mine()) orgs<gil::png_tag, gil::bgra8_image_t, gil::rgba8_planar_image_t>("png", "bgra8", w, h, rng, gi, false, "", false);
        { gil::image_write_info<gil::png_tag> gii; gii._interlace_method = PNG_INTERLACE_ADAM7;
          if (mine()) orgs<gil::png_tag, gil::rgb8_image_t, gil::rgb8_planar_image_t>("png", "rgb8", w, h, rng, gii, true, "interlaced/", true);
          if (mine()) orgs<gil::png_tag, gil::rgba16_image_t, gil::rgba16_planar_image_t>("png", "rgba16", w, h, rng, gii, true, "interlaced/", false); }
        struct TV { const char* name; int comp; bool tiled; };
        for (TV tv : {TV{"strip/none/", COMPRESSION_NONE, false}, TV{"strip/lzw/", COMPRESSION_LZW, false}, TV{"strip/deflate/", COMPRESSION_ADOBE_DEFLATE, false}, TV{"strip/packbits/", COMPRESSION_PACKBITS, false},
                      TV{"tile/none/", COMPRESSION_NONE, true}, TV{"tile/lzw/", COMPRESSION_LZW, true}}) {
            gil::image_write_info<gil::tiff_tag> fi; fi._compression = tv.comp; fi._is_tiled = tv.tiled; fi._tile_width = 16; fi._tile_length = 16; fi._photometric_interpretation = PHOTOMETRIC_MINISBLACK;
            gil::image_write_info<gil::tiff_tag> fr = fi; fr._photometric_interpretation = PHOTOMETRIC_RGB;
            if (mine()) orgs<gil::tiff_tag, gil::gray8_image_t, gil::gray8_image_t>("tif", "gray8", w, h, rng, fi, true, tv.name, false);
            if (mine()) orgs<gil::tiff_tag, gil::rgb8_image_t, gil::rgb8_planar_image_t>("tif", "rgb8", w, h, rng, fr, true, tv.name, true);
            if (mine()) orgs<gil::tiff_tag, gil::bgr8_image_t, gil::rgb8_planar_image_t>("tif", "bgr8", w, h, rng, fr, true, tv.name, false);
            if (mine() && !tv.tiled) orgs<gil::tiff_tag, gil::rgb16_image_t, gil::rgb16_planar_image_t>("tif", "rgb16", w, h, rng, fr, true, tv.name, false);
            if (mine() && !tv.tiled) orgs<gil::tiff_tag, gil::gray16_image_t, gil::gray16_image_t>("tif", "gray16", w, h, rng, fi, true, tv.name, false);
        }
        // JPEG: constant images at maximum quality
        if (mine()) { gil::image_write_info<gil::jpeg_tag> ji(100);
            for (int level : {0, 37, 128, 255}) { gil::gray8_image_t g(w, h, gil::gray8_pixel_t((std::uint8_t)level), 0); one<gil::jpeg_tag>("jpg", "gray8", ("const" + std::to_string(level) + "/").c_str(), gil::const_view(g), ji, true); }
            gil::rgb8_image_t c(w, h, gil::rgb8_pixel_t(200, 100, 50), 0); one<gil::jpeg_tag>("jpg", "rgb8", "const/", gil::const_view(c), ji, true);
            gil::bgr8_image_t cb(w, h, gil::bgr8_pixel_t(50, 100, 200), 0); one<gil::jpeg_tag>("jpg", "bgr8", "const/", gil::const_view(cb), ji, true); }
    }
    J("End").num("events", vt::T().events).emit(); vt::T().close(); return 0;
}
