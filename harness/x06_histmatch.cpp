// X06 (extension): histogram matching against specs/HistMatch.tla.
//   Match     : histogram_matching(src_hist, ref_hist, dst_hist) on random small integer histograms: the map and the destination histogram
//   MatchView : histogram_matching(src_view, ref_view, dst_view) on small gray8 / rgb8 images (per channel): the destination pixels
#include <boost/gil.hpp>
#include <boost/gil/image_processing/histogram_matching.hpp>
#include <set>
#include "lib/trace.hpp"
namespace gil = boost::gil;
using vt::J;

static std::string pairs(std::vector<std::pair<long,long>> const& v) { std::string s = "["; for (size_t i = 0; i < v.size(); ++i) { if (i) s += ','; s += "[" + std::to_string(v[i].first) + "," + std::to_string(v[i].second) + "]"; } return s + "]"; }

int main(int argc, char** argv) {
    vt::Args args(argc, argv); vt::install_handlers(); vt::T().open(args.out.c_str());
    vt::Rng rng(args.seed * 53 + 11);
    int N = args.thorough() ? 1500 : 300;
    for (int it = 0; it < N; ++it) vt::isolated([&] {
        int ns = 1 + (int)rng.below(5), nr = 1 + (int)rng.below(5);
        gil::histogram<int> s, r, d; std::vector<std::pair<long,long>> sv, rv;
        auto build = [&](gil::histogram<int>& h, std::vector<std::pair<long,long>>& v, int n) {
            std::set<int> keys; while ((int)keys.size() < n) keys.insert((int)rng.below(12) - 2);
            long tot = 0; for (int k : keys) { long c = (long)rng.below(5); if (it % 3 == 0) c = (long)rng.below(3); h(k) = (double)c; v.push_back({k, c}); tot += c; }
            if (tot == 0) { h(*keys.begin()) = 1; v[0].second = 1; } };
        build(s, sv, ns); build(r, rv, nr);
        d(99) = 7;                                                    // previous contents of the destination must be discarded
        auto m = gil::histogram_matching(s, r, d);
        std::vector<std::pair<long,long>> mv, dv; for (auto& kv : m) mv.push_back({kv.first, kv.second});
        for (auto k : d.sorted_keys()) dv.push_back({std::get<0>(k), (long)d[k]});
        J("Match").raw("src", pairs(sv)).raw("ref", pairs(rv)).raw("map", pairs(mv)).raw("dst", pairs(dv)).emit();
    }, 60);
    int NV = args.thorough() ? 200 : 60;
    for (int it = 0; it < NV; ++it) vt::isolated([&] {
        int w = 1 + (int)rng.below(4), h = 1 + (int)rng.below(3), rw = 1 + (int)rng.below(4), rh = 1 + (int)rng.below(3);
        int alpha = 2 + (int)rng.below(5);            // small value alphabets so that keys repeat
        if (it % 2 == 0) {
            gil::gray8_image_t a(w, h), b(rw, rh), o(w, h);
            for (auto& p : gil::view(a)) p[0] = (std::uint8_t)(rng.below(alpha) * 37 % 256); for (auto& p : gil::view(b)) p[0] = (std::uint8_t)(rng.below(alpha) * 53 % 256);
            gil::histogram_matching(gil::const_view(a), gil::const_view(b), gil::view(o));
            std::vector<long> sp, rp, dp; for (auto& p : gil::view(a)) sp.push_back(p[0]); for (auto& p : gil::view(b)) rp.push_back(p[0]); for (auto& p : gil::view(o)) dp.push_back(p[0]);
            J("MatchView").str("type", "gray8").num("ch", 0).arr("src", sp).arr("ref", rp).arr("dst", dp).emit();
        } else {
            gil::rgb8_image_t a(w, h), b(rw, rh), o(w, h);
            for (auto& p : gil::view(a)) for (int c = 0; c < 3; ++c) p[c] = (std::uint8_t)(rng.below(alpha) * (31 + 6 * c) % 256);
            for (auto& p : gil::view(b)) for (int c = 0; c < 3; ++c) p[c] = (std::uint8_t)(rng.below(alpha) * (47 + 4 * c) % 256);
            gil::histogram_matching(gil::const_view(a), gil::const_view(b), gil::view(o));
            for (int c = 0; c < 3; ++c) { std::vector<long> sp, rp, dp; for (auto& p : gil::view(a)) sp.push_back(p[c]); for (auto& p : gil::view(b)) rp.push_back(p[c]); for (auto& p : gil::view(o)) dp.push_back(p[c]);
                J("MatchView").str("type", "rgb8").num("ch", c).arr("src", sp).arr("ref", rp).arr("dst", dp).emit(); }
        }
    }, 60);
    J("End").num("events", vt::T().events).emit(); vt::T().close(); return 0;
}
