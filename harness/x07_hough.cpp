// X07 (extension): integer part of the Hough transforms against specs/Hough.tla.
//   Param  : hough_parameter<std::ptrdiff_t>::from_step_size / from_step_count
//   Circle : hough_circle_transform_brute over small random edge maps, radius / centre ranges that reach the image border (circles sticking out)
#include <boost/gil.hpp>
#include <boost/gil/extension/image_processing/hough_parameter.hpp>
#include <boost/gil/extension/image_processing/hough_transform.hpp>
#include <boost/gil/extension/rasterization/circle.hpp>
#include "lib/trace.hpp"
namespace gil = boost::gil;
using vt::J;
using param_t = gil::hough_parameter<std::ptrdiff_t>;
static std::string pts(std::vector<gil::point_t> const& v) { std::string s = "["; for (size_t i = 0; i < v.size(); ++i) { if (i) s += ','; s += "[" + std::to_string(v[i].x) + "," + std::to_string(v[i].y) + "]"; } return s + "]"; }

int main(int argc, char** argv) {
    vt::Args args(argc, argv); vt::install_handlers(); vt::T().open(args.out.c_str());
    vt::Rng rng(args.seed * 71 + 3);
    int N = args.thorough() ? 14 : 8;
    for (int mid = 0; mid <= N; mid += 1 + (mid > 3)) for (int n = 0; n <= N; ++n) for (int s = 1; s <= N; ++s) {
        { auto p = param_t::from_step_size(mid, n, s); J("Param").str("kind", "step_size").num("mid", mid).num("n", n).num("arg", s).num("start", (long long)p.start_point).num("step", (long long)p.step_size).num("count", (long long)p.step_count).emit(); }
        { auto p = param_t::from_step_count(mid, n, (std::size_t)s); J("Param").str("kind", "step_count").num("mid", mid).num("n", n).num("arg", s).num("start", (long long)p.start_point).num("step", (long long)p.step_size).num("count", (long long)p.step_count).emit(); }
    }
    int NC = args.thorough() ? 400 : 120;
    for (int it = 0; it < NC; ++it) vt::isolated([&] {
        int w = 1 + (int)rng.below(7), h = 1 + (int)rng.below(6);
        gil::gray8_image_t img(w, h, gil::gray8_pixel_t(0), 0); std::vector<gil::point_t> set;
        for (int y = 0; y < h; ++y) for (int x = 0; x < w; ++x) if (rng.below(100) < 45) { gil::view(img)(x, y) = gil::gray8_pixel_t((std::uint8_t)(1 + rng.below(255))); set.push_back({x, y}); }
        param_t rp{(std::ptrdiff_t)rng.below(4), 1, 1 + rng.below(2)};
        bool border = it % 4 != 0;       // three quarters of the cases let circles stick out of the image
        param_t xp, yp;
        if (border) { xp = param_t{0, 1 + (std::ptrdiff_t)rng.below(2), 1}; xp.step_count = (std::size_t)((w - 1) / xp.step_size + 1); yp = param_t{0, 1, (std::size_t)h}; }
        else { std::ptrdiff_t rmax = rp.start_point + (std::ptrdiff_t)rp.step_count - 1; if (w <= 2 * rmax || h <= 2 * rmax) return;
               xp = param_t{rmax, 1, (std::size_t)(w - 2 * rmax)}; yp = param_t{rmax, 1, (std::size_t)(h - 2 * rmax)}; }
        std::vector<gil::gray16_image_t> out(rp.step_count, gil::gray16_image_t(xp.step_count, yp.step_count, gil::gray16_pixel_t(0), 0)); std::vector<gil::gray16_view_t> ov;
        for (auto& o : out) ov.push_back(gil::view(o));
        gil::hough_circle_transform_brute(gil::const_view(img), rp, xp, yp, ov.begin(), gil::midpoint_circle_rasterizer{{0, 0}, 0});
        for (std::size_t ri = 0; ri < rp.step_count; ++ri) {
            std::ptrdiff_t radius = rp.start_point + (std::ptrdiff_t)ri * rp.step_size;
            gil::midpoint_circle_rasterizer rz{{0, 0}, radius}; std::vector<gil::point_t> cp(rz.point_count()); rz(cp.begin());
            std::vector<long> acc; for (std::size_t yi = 0; yi < yp.step_count; ++yi) for (std::size_t xi = 0; xi < xp.step_count; ++xi) acc.push_back((long)ov[ri](xi, yi)[0]);
            J("Circle").num("w", w).num("h", h).raw("set", pts(set)).num("radius", (long long)radius).raw("pts", pts(cp))
                .num("xstart", (long long)xp.start_point).num("xstep", (long long)xp.step_size).num("xcount", (long long)xp.step_count)
                .num("ystart", (long long)yp.start_point).num("ystep", (long long)yp.step_size).num("ycount", (long long)yp.step_count).boolean("border", border).arr("acc", acc).emit();
        }
    }, 60);
    J("End").num("events", vt::T().events).emit(); vt::T().close(); return 0;
}
