// X08 (extension): chroma-subsampled images against specs/Subchroma.tla.  For every J:a:b factor set and every shape up to 6x5 the planes are
// painted through the plane views with position-identifying values and every pixel is read through the subchroma view.
#include <boost/gil.hpp>
#include <boost/gil/extension/toolbox/image_types/subchroma_image.hpp>
#include "lib/trace.hpp"
namespace gil = boost::gil; namespace mp11 = boost::mp11;
using vt::J;
template <int A, int B> void factor(int WM, int HM) {
    using img_t = gil::subchroma_image<gil::rgb8_pixel_t, mp11::mp_list_c<int, 4, A, B>>;
    for (int w = 1; w <= WM; ++w) for (int h = 1; h <= HM; ++h) vt::isolated([&] {
        img_t img(w, h); auto v = view(img);
        auto yv = v.y_plane_view(); auto vv = v.v_plane_view(); auto uv = v.u_plane_view();
        J e("Sub"); e.num("a", A).num("b", B).num("w", w).num("h", h).num("rw", (long long)v.width()).num("rh", (long long)v.height())
            .num("vw", (long long)vv.width()).num("vh", (long long)vv.height()).num("uw", (long long)uv.width()).num("uh", (long long)uv.height());
        for (int y = 0; y < yv.height(); ++y) for (int x = 0; x < yv.width(); ++x) yv(x, y)[0] = (std::uint8_t)(1 + x + 10 * y);
        for (int y = 0; y < vv.height(); ++y) for (int x = 0; x < vv.width(); ++x) vv(x, y)[0] = (std::uint8_t)(100 + x + 10 * y);
        for (int y = 0; y < uv.height(); ++y) for (int x = 0; x < uv.width(); ++x) uv(x, y)[0] = (std::uint8_t)(180 + x + 10 * y);
        std::vector<long> at, fn;
        for (int y = 0; y < h; ++y) for (int x = 0; x < w; ++x) { auto p = *v.xy_at(x, y); at.push_back(p[0]); at.push_back(p[1]); at.push_back(p[2]); auto q = v(x, y); fn.push_back(q[0]); fn.push_back(q[1]); fn.push_back(q[2]); }
        e.arr("p_xyat", at).arr("p_call", fn).emit();
    }, 60);
}
int main(int argc, char** argv) {
    vt::Args args(argc, argv); vt::install_handlers(); vt::T().open(args.out.c_str());
    int WM = args.thorough() ? 9 : 6, HM = args.thorough() ? 9 : 5;
    factor<4, 4>(WM, HM); factor<4, 0>(WM, HM); factor<2, 2>(WM, HM); factor<2, 0>(WM, HM); factor<1, 1>(WM, HM); factor<1, 0>(WM, HM);
    J("End").num("events", vt::T().events).emit(); vt::T().close(); return 0;
}
