// X09 (extension): view constructors over caller-provided raw data against specs/RawViews.tla.  Built only when the instantiation probe of
// tools/props/x09.py compiles (planar_devicen_view did not instantiate on the pinned tree).  Buffers of exactly h * rowbytes bytes lie flush against
// an inaccessible page (vt::GuardBuf), every channel of every pixel is read and written through the view.
#include <boost/gil.hpp>
#include "lib/trace.hpp"
#include "lib/guard_buf.hpp"
#include <memory>
namespace gil = boost::gil;
using vt::J;
template <class View> void emit(const char* kind, int nc, int w, int h, int rb, std::vector<std::vector<long>> const& planes, View const& v) {
    std::vector<long> px; for (int y = 0; y < h; ++y) for (int x = 0; x < w; ++x) for (int k = 0; k < nc; ++k) px.push_back((long)v(x, y)[k]);
    std::string pj = "["; for (size_t i = 0; i < planes.size(); ++i) { if (i) pj += ','; pj += vt::jarr(planes[i]); } pj += "]";
    J("RawView").str("kind", kind).num("nc", nc).num("w", w).num("h", h).num("rb", rb).raw("planes", pj).num("rw", (long long)v.width()).num("rh", (long long)v.height()).arr("px", px).emit();
}
int main(int argc, char** argv) {
    vt::Args args(argc, argv); vt::install_handlers(); vt::T().open(args.out.c_str());
    vt::Rng rng(args.seed * 17 + 1);
    int WM = args.thorough() ? 7 : 4, HM = args.thorough() ? 5 : 3;
    for (int w = 1; w <= WM; ++w) for (int h = 1; h <= HM; ++h) for (int pad : {0, 1, 3}) vt::isolated([&] {
        int rb = w + pad; std::vector<std::unique_ptr<vt::GuardBuf>> g; for (int k = 0; k < 5; ++k) g.emplace_back(new vt::GuardBuf((size_t)rb * h, vt::GuardBuf::AtEnd));
        std::vector<std::vector<long>> pl(5); unsigned char* c[5];
        for (int k = 0; k < 5; ++k) { c[k] = g[k]->data; for (int i = 0; i < rb * h; ++i) { c[k][i] = (unsigned char)rng.below(256); pl[k].push_back(c[k][i]); } }
        auto sub = [&](int n) { return std::vector<std::vector<long>>(pl.begin(), pl.begin() + n); };
        emit("planar_devicen2", 2, w, h, rb, sub(2), gil::planar_devicen_view(w, h, c[0], c[1], rb));
        emit("planar_devicen3", 3, w, h, rb, sub(3), gil::planar_devicen_view(w, h, c[0], c[1], c[2], rb));
        emit("planar_devicen4", 4, w, h, rb, sub(4), gil::planar_devicen_view(w, h, c[0], c[1], c[2], c[3], rb));
        emit("planar_devicen5", 5, w, h, rb, sub(5), gil::planar_devicen_view(w, h, c[0], c[1], c[2], c[3], c[4], rb));
        emit("planar_rgb", 3, w, h, rb, sub(3), gil::planar_rgb_view(w, h, c[0], c[1], c[2], rb));
        emit("planar_rgba", 4, w, h, rb, sub(4), gil::planar_rgba_view(w, h, c[0], c[1], c[2], c[3], rb));
        emit("planar_cmyk", 4, w, h, rb, sub(4), gil::planar_cmyk_view(w, h, c[0], c[1], c[2], c[3], rb));
        // interleaved data: 1, 3 and 4 channels
        { int nc = 3, irb = w * nc + pad; vt::GuardBuf b((size_t)irb * h, vt::GuardBuf::AtEnd); std::vector<long> bl; for (int i = 0; i < irb * h; ++i) { b.data[i] = (unsigned char)rng.below(256); bl.push_back(b.data[i]); }
          emit("interleaved3", nc, w, h, irb, {bl}, gil::interleaved_view(w, h, (gil::rgb8_pixel_t*)b.data, irb)); }
        { int nc = 4, irb = w * nc + pad; vt::GuardBuf b((size_t)irb * h, vt::GuardBuf::AtEnd); std::vector<long> bl; for (int i = 0; i < irb * h; ++i) { b.data[i] = (unsigned char)rng.below(256); bl.push_back(b.data[i]); }
          emit("interleaved4", nc, w, h, irb, {bl}, gil::interleaved_view(w, h, (gil::rgba8_pixel_t*)b.data, irb)); }
        { int nc = 1, irb = w * nc + pad; vt::GuardBuf b((size_t)irb * h, vt::GuardBuf::AtEnd); std::vector<long> bl; for (int i = 0; i < irb * h; ++i) { b.data[i] = (unsigned char)rng.below(256); bl.push_back(b.data[i]); }
          emit("interleaved1", nc, w, h, irb, {bl}, gil::interleaved_view(w, h, (gil::gray8_pixel_t*)b.data, irb)); }
    }, 60);
    J("End").num("events", vt::T().events).emit(); vt::T().close(); return 0;
}
