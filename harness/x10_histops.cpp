// X10 (extension): container operations of gil::histogram against specs/HistOps.tla: equals (both directions), operator==, nearest_key, min_key, max_key, sorted_keys.
#include <boost/gil.hpp>
#include <set>
#include "lib/trace.hpp"
namespace gil = boost::gil;
using vt::J;
static std::string pairs(std::vector<std::pair<long,long>> const& v) { std::string s = "["; for (size_t i = 0; i < v.size(); ++i) { if (i) s += ','; s += "[" + std::to_string(v[i].first) + "," + std::to_string(v[i].second) + "]"; } return s + "]"; }
int main(int argc, char** argv) {
    vt::Args args(argc, argv); vt::install_handlers(); vt::T().open(args.out.c_str());
    vt::Rng rng(args.seed * 97 + 13);
    int N = args.thorough() ? 3000 : 600;
    for (int it = 0; it < N; ++it) {
        gil::histogram<int> a, b; std::vector<std::pair<long,long>> av, bv;
        int na = 1 + (int)rng.below(4); std::set<int> ka; while ((int)ka.size() < na) ka.insert((int)rng.below(8) - 2);
        for (int k : ka) { long c = (long)rng.below(3); a(k) = (double)c; av.push_back({k, c}); }
        int mode = it % 4;              // 0: b = a; 1: b = a plus one bin; 2: b = a with one count changed; 3: unrelated
        if (mode == 3) { int nb = 1 + (int)rng.below(4); std::set<int> kb; while ((int)kb.size() < nb) kb.insert((int)rng.below(8) - 2); for (int k : kb) { long c = (long)rng.below(3); b(k) = (double)c; bv.push_back({k, c}); } }
        else { for (auto& kv : av) { b((int)kv.first) = (double)kv.second; bv.push_back(kv); }
               if (mode == 1) { int k = 20 + (int)rng.below(3); long c = 1 + (long)rng.below(2); b(k) = (double)c; bv.push_back({k, c}); }
               if (mode == 2) { bv[0].second += 1; b((int)bv[0].first) = (double)bv[0].second; } }
        int probe = (int)rng.below(12) - 3;
        std::vector<long> sk; for (auto k : a.sorted_keys()) sk.push_back(std::get<0>(k));
        J("HistOps").raw("a", pairs(av)).raw("b", pairs(bv)).boolean("a_equals_b", a.equals(b)).boolean("b_equals_a", b.equals(a)).boolean("op_eq", a == b)
            .num("probe", probe).num("nearest", (long long)std::get<0>(a.nearest_key(std::make_tuple(probe)))).num("min", (long long)std::get<0>(a.min_key())).num("max", (long long)std::get<0>(a.max_key())).arr("sorted", sk).emit();
    }
    J("End").num("events", vt::T().events).emit(); vt::T().close(); return 0;
}
