------------------------------- MODULE Channel -------------------------------
(***************************************************************************)
(* Channel arithmetic of Boost.GIL: channel_convert (C06), channel_multiply*)
(* and channel_invert (C07).                                               *)
(*                                                                         *)
(* A channel model is a record [kind, bits, w]:                            *)
(*   kind "u" unsigned integral, "s" signed integral, "f" float in [0,1]   *)
(*   bits number of value bits (1..16, 32);  w = width in bits of the      *)
(*   C++ base type that carries it (8,16,32,64)                            *)
(* All values are in the *shifted unsigned* representation v - min, so a   *)
(* model with n bits ranges over 0..2^n-1 whatever its signedness (this is *)
(* "the documented shift to the unsigned range").                          *)
(*                                                                         *)
(* P_ operators state the property; I_ operators transcribe                *)
(* channel_algorithm.hpp.                                                  *)
(***************************************************************************)
EXTENDS GilInt

\* (a scoped integer channel declares its own range: max - min)
ChRange(m) == IF "range" \in DOMAIN m THEN m.range ELSE Pow2(m.bits) - 1          \* m.bits <= 16

-----------------------------------------------------------------------------
(* Property layer, narrow (<= 16 bit) integral models, complete tables     *)

\* allowed results for source value v: less than one destination unit from
\* the exact linear map v * rd / rs   (rs, rd: the ranges, hoisted out of the table loops)
P_ConvAllowedR(rs, rd, v) ==
    LET qr == MulDivQR(v, rd, rs) IN
    IF qr[2] = 0 THEN {qr[1]} ELSE {qr[1], qr[1] + 1}
P_ConvAllowed(S, D, v) == P_ConvAllowedR(ChRange(S), ChRange(D), v)

P_ConvNearR(rs, rd, v, out) ==
    LET qr == MulDivQR(v, rd, rs) IN out = qr[1] \/ (qr[2] # 0 /\ out = qr[1] + 1)
P_ConvInRange(D, out)    == out >= 0 /\ out <= ChRange(D)

\* tbl[i] = convert(i-1), i in 1..ChRange(S)+1 ; returns the set of violated clauses
\* as records [clause, v] (first offending source value only, per clause)
P_ConvTable(S, D, same, tbl) ==
    LET rs  == ChRange(S)
        rd  == ChRange(D)
        n   == rs + 1
        InR(i)  == tbl[i] >= 0 /\ tbl[i] <= rd
        Near(i) == P_ConvNearR(rs, rd, i-1, tbl[i])
        Mono(i) == i = 1 \/ tbl[i-1] <= tbl[i]
        Id(i)   == tbl[i] = i-1
        b2  == FirstBad(n, InR)
        b3  == FirstBad(n, Near)
        b4  == FirstBad(n, Mono)
        b5  == IF same THEN FirstBad(n, Id) ELSE 0
    IN IF Len(tbl) # n THEN {[clause |-> "P_ConvTotal", v |-> Len(tbl)]} ELSE
       (IF tbl[1] # 0 THEN {[clause |-> "P_ConvMin", v |-> 0]} ELSE {})
       \cup (IF tbl[n] # rd THEN {[clause |-> "P_ConvMax", v |-> n-1]} ELSE {})
       \cup (IF b2 # 0 THEN {[clause |-> "P_ConvInRange", v |-> b2-1]} ELSE {})
       \cup (IF b2 = 0 /\ b3 # 0 THEN {[clause |-> "P_ConvNear", v |-> b3-1]} ELSE {})
       \cup (IF b4 # 0 THEN {[clause |-> "P_ConvMonotone", v |-> b4-1]} ELSE {})
       \cup (IF b5 # 0 THEN {[clause |-> "P_ConvIdentity", v |-> b5-1]} ELSE {})

\* back[i] = convert_DS(convert_SD(i-1)), required to be i-1 when D has at least as many levels
P_ConvRoundTrip(S, D, back) ==
    IF ChRange(D) < ChRange(S) THEN {} ELSE
    LET n == ChRange(S) + 1
        Ok(i) == back[i] = i-1
        b == IF Len(back) # n THEN 1 ELSE FirstBad(n, Ok)
    IN IF b # 0 THEN {[clause |-> "P_ConvRoundTrip", v |-> b-1]} ELSE {}

-----------------------------------------------------------------------------
(* Property layer, wide models (32-bit integral, float): sampled values as *)
(* Big naturals.  rS, rD are the ranges as Bigs; float is scaled by 2^30.  *)
(* |out*rS - v*rD| < rS + tol   where tol = rS*rD / 2^22 (float32 precision*)
(* relative to the full range) when a float or 32-bit model is involved.   *)

P_ConvNearW(rS, rD, v, out, slack) ==
    LET lhs == BigAbsDiff(BigMul(out, rS), BigMul(v, rD))
        prod == BigMul(rS, rD)
        \* prod / 2^22 rounded up = (prod shifted right by 2 bytes) / 64 + 1 ; we compare
        \* 2^22 * lhs < 2^22 * rS + prod  instead (no division needed)
        k22  == <<0, 0, 64>>                      \* 2^22
    IN IF slack
       THEN BigLe(BigMul(k22, lhs), BigAdd(BigMul(k22, rS), prod))
       ELSE BigLt(lhs, rS)

-----------------------------------------------------------------------------
(* Property layer, multiply / invert                                       *)

\* r within one unit (inclusive) of a*b/max
P_MulNearR(r, a, b, out) ==
    LET qr == MulDivQR(a, b, r) IN
    out = qr[1] \/ out = qr[1] + 1 \/ (qr[2] = 0 /\ out = qr[1] - 1)
P_MulAllowed(m, a, b) == {o \in 0..ChRange(m) : P_MulNearR(ChRange(m), a, b, o)}

P_Invert(m, v) == ChRange(m) - v

-----------------------------------------------------------------------------
(* Implementation-shaped layer: channel_converter_unsigned for integral    *)
(* models of at most 16 value bits (after the signed shift).               *)

\* (v*m) mod 2^16 without overflow
MulMod16(v, m) == (((((v \div 256) * m) % 256) * 256) + (v % 256) * m) % 65536

Deviation_TruncatingCast == FALSE   \* TRUE reproduces the pre-fix defect (product cast to dest base type)

I_ConvPathR(ms, md, same) ==
    IF same THEN "identity"
    ELSE IF ms < md THEN (IF md % ms = 0 THEN "mul" ELSE "nondiv_up")
    ELSE (IF ms % md = 0 THEN "div" ELSE "nondiv_down")
I_ConvPath(S, D) == I_ConvPathR(ChRange(S), ChRange(D), S = D)

\* The set of results the implementation can produce: a singleton except on the
\* double-based path, where an exact tie may fall either way (IEEE rounding is not modelled).
I_ConvR(path, ms, md, dw, v) ==
    CASE path = "identity" -> {v}
      [] path = "mul"      -> {v * (md \div ms)}
      [] path = "div"      -> LET dv == ms \div md IN {(v + dv \div 2) \div dv}
      [] path = "nondiv_up" ->
            IF Deviation_TruncatingCast
            THEN (IF dw = 8 THEN {((v * md) % 256) \div ms}
                  ELSE IF dw = 16 THEN {MulMod16(v, md) \div ms}
                  ELSE {MulDivQR(v, md, ms)[1]})
            ELSE {MulDivQR(v, md, ms)[1]}
      [] path = "nondiv_down" ->
            \* double div = ms/md ; div2 = trunc(div/2) ; trunc((v+div2)/div)
            LET div2 == ms \div (2 * md)
                qr   == MulDivQR(v + div2, md, ms)
            IN IF qr[2] = 0 /\ qr[1] > 0 THEN {qr[1] - 1, qr[1]} ELSE {qr[1]}
I_Conv(S, D, v) == I_ConvR(I_ConvPath(S, D), ChRange(S), ChRange(D), D.w, v)

\* channel_multiplier_unsigned: uint8 -> div255, uint16 -> /65535, generic -> trunc(a/max*b)
Div255(x) == LET t == x + 128 IN (t + (t \div 256)) \div 256
\* flavour: "div255" (uint8_t), "exact" (uint16_t: integer product / 65535), "generic" (double:
\* max(a,b)/max * min(a,b), truncated -- may land one below an exactly integral quotient)
I_MulFlavour(m) == IF m.native /\ m.bits = 8 THEN "div255" ELSE IF m.native /\ m.bits = 16 THEN "exact" ELSE "generic"
I_MulSet(fl, r, a, b) ==
    LET qr == MulDivQR(a, b, r) IN
    CASE fl = "div255" -> {Div255(a * b)}
      [] fl = "exact"  -> {qr[1]}
      [] fl = "generic" -> IF qr[2] = 0 /\ qr[1] > 0 /\ a # r /\ b # r THEN {qr[1] - 1, qr[1]} ELSE {qr[1]}
=============================================================================
