------------------------------ MODULE ColorBase ------------------------------
(***************************************************************************)
(* Colour bases and pixels (C05).  A layout is a channel mapping           *)
(* map[s] = physical index of the s-th colour of the colour space          *)
(* (1-based here); a pixel is its sequence of physical channel values.     *)
(* P_: operations pair channels by colour.  I_: the index arithmetic of    *)
(* color_base.hpp (mapping_transform: destination physical k takes the     *)
(* source physical element  smap[ position of k in dmap ]).                *)
(***************************************************************************)
EXTENDS GilInt

Sem(map, phys, s) == phys[map[s]]                          \* value of colour s
IsPerm(m) == {m[i] : i \in 1..Len(m)} = 1..Len(m)

\* after dst = src : every colour of dst equals that colour of src
P_Assigned(smap, sphys, dmap, dafter) == \A s \in 1..Len(smap) : Sem(dmap, dafter, s) = Sem(smap, sphys, s)
P_EqualPix(m1, p1, m2, p2) == \A s \in 1..Len(m1) : Sem(m1, p1, s) = Sem(m2, p2, s)

\* I_: converting construction, as homogeneous_color_base does it
PosIn(m, k) == CHOOSE i \in 1..Len(m) : m[i] = k
I_MappingTransform(dmap, smap, k) == smap[PosIn(dmap, k)]
I_Construct(smap, sphys, dmap) == [k \in 1..Len(dmap) |-> sphys[I_MappingTransform(dmap, smap, k)]]
=============================================================================
