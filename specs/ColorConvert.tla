----------------------------- MODULE ColorConvert -----------------------------
(***************************************************************************)
(* Default colour conversion between gray, rgb, rgba, cmyk (C09).          *)
(* P_: the clauses of the property (neutrals, range, order, closeness to   *)
(* the luminance weights, round trip, alpha rules).                        *)
(* I_: the 8-bit arithmetic of color_convert.hpp (fixed-point luminance,   *)
(* rgb->cmyk with its double scaling, cmyk->rgb via channel_multiply and   *)
(* channel_invert, alpha premultiplication).                               *)
(***************************************************************************)
EXTENDS Channel            \* Div255 and the channel laws come from Channel.tla

Mul8(a, b) == Div255(a * b)

\* I_: rgb8 -> gray8
I_Lum8(r, g, b) == (4915 * r + 9667 * g + 1802 * b + 8192) \div 16384
\* I_: rgb8 -> cmyk8.  (c-k)*s with s = 255.0/(255-k) in double, truncated: the exact quotient, or one below it
\* when the quotient is an exact integer and the double product falls short.  Set of possible results per channel.
I_Cmyk8Chan(c, k) == IF k = 255 THEN {0}
                     ELSE LET num == (c - k) * 255 den == 255 - k q == num \div den IN
                          IF num % den = 0 /\ q > 0 THEN {q - 1, q} ELSE {q}
I_K(r, g, b) == Min2(255 - r, Min2(255 - g, 255 - b))
\* I_: cmyk8 -> rgb8 (per channel)
I_FromCmyk8(c, k) == 255 - Min2(255, Mul8(c, 255 - k) + k)

\* P_ clauses on 8-bit values
P_LumNear(r, g, b, y)  == Abs(100 * y - (30 * r + 59 * g + 11 * b)) <= 100
P_Within1(a, b)        == Abs(a - b) <= 1
P_InRange8(x)          == x >= 0 /\ x <= 255
=============================================================================
