------------------------------- MODULE Convolve -------------------------------
(***************************************************************************)
(* 1-D / 2-D correlation and convolution with boundary policies, and the   *)
(* boundary extension helpers (C15).  Images are sequences of rows of      *)
(* integers (single channel; multi-channel images are checked per channel).*)
(* P_: the textbook sums.  I_: the row-buffer assembly of                  *)
(* correlate_rows_impl (left/right fills, the width < kernel branch, the   *)
(* size-1 shortcut) and reverse_kernel's centre arithmetic.                *)
(***************************************************************************)
EXTENDS GilInt

W(img) == IF Len(img) = 0 THEN 0 ELSE Len(img[1])
H(img) == Len(img)
Pix(img, x, y) == img[y + 1][x + 1]                       \* 0-based coordinates

Clamp(v, lo, hi) == IF v < lo THEN lo ELSE IF v > hi THEN hi ELSE v
\* the sample at (possibly out-of-range) x of row y under a boundary option; pad = the padded source
\* (big image and the offset of the view in it) for extend_padded
Sample(img, x, y, opt, pad) ==
    IF x >= 0 /\ x < W(img) /\ y >= 0 /\ y < H(img) THEN Pix(img, x, y)
    ELSE CASE opt = "extend_zero"     -> 0
           [] opt = "extend_constant" -> Pix(img, Clamp(x, 0, W(img) - 1), Clamp(y, 0, H(img) - 1))
           [] opt = "extend_padded"   -> Pix(pad.big, x + pad.ox, y + pad.oy)
           [] OTHER -> 0

RevSeq(s) == [i \in 1..Len(s) |-> s[Len(s) + 1 - i]]

\* correlation along x of one pixel: sum_k src(x + k - c) * ker(k), k = 0..K-1, c = centre (0-based)
CorrAt(img, x, y, ker, c, opt, pad) ==
    SumSeq([k \in 1..Len(ker) |-> Sample(img, x + (k - 1) - c, y, opt, pad) * ker[k]])
WindowInside(w, x, K, c) == x - c >= 0 /\ x - c + K - 1 <= w - 1

\* expected destination image of correlate_rows
P_CorrRows(img, ker, c, opt, pad, dstBefore) ==
    [yy \in 1..H(img) |-> [xx \in 1..W(img) |->
        LET x == xx - 1 y == yy - 1 IN
        IF opt \in {"extend_zero", "extend_constant", "extend_padded"} THEN CorrAt(img, x, y, ker, c, opt, pad)
        ELSE IF WindowInside(W(img), x, Len(ker), c) THEN CorrAt(img, x, y, ker, c, "extend_zero", pad)
        ELSE IF opt = "output_zero" THEN 0 ELSE dstBefore[yy][xx]]]
Transpose(img) == IF H(img) = 0 THEN <<>> ELSE [x \in 1..W(img) |-> [y \in 1..H(img) |-> img[y][x]]]
TransposePad(pad) == [big |-> Transpose(pad.big), ox |-> pad.oy, oy |-> pad.ox]
\* columns = rows on the transposed image;  convolution = correlation with the reversed kernel (centre mirrored)
P_CorrCols(img, ker, c, opt, pad, dstBefore) ==
    Transpose(P_CorrRows(Transpose(img), ker, c, opt, TransposePad(pad), Transpose(dstBefore)))
P_ConvRows(img, ker, c, opt, pad, d0) == P_CorrRows(img, RevSeq(ker), Len(ker) - 1 - c, opt, pad, d0)
P_ConvCols(img, ker, c, opt, pad, d0) == P_CorrCols(img, RevSeq(ker), Len(ker) - 1 - c, opt, pad, d0)

\* box_filter (image_processing/filter.hpp) = detail::convolve_1d with K taps of weight 1: convolve_rows into the destination,
\* then convolve_cols of the destination into itself (so under output_ignore the second pass keeps what the first one wrote)
Ones(K) == [k \in 1..K |-> 1]
P_BoxFilter(img, K, c, opt, pad, d0) ==
    LET r1 == P_ConvRows(img, Ones(K), c, opt, pad, d0) IN P_ConvCols(r1, Ones(K), c, opt, pad, r1)
\* what a user expects of it: the sum over the K x K window that reaches c to the right / below and K-1-c to the left / above
P_BoxWindowSum(img, K, c, opt) ==
    [yy \in 1..H(img) |-> [xx \in 1..W(img) |->
        LET x == xx - 1 y == yy - 1 lo == 0 - (K - 1 - c)
            inside == x + lo >= 0 /\ x + c <= W(img) - 1 /\ y + lo >= 0 /\ y + c <= H(img) - 1
        IN IF opt = "output_zero" /\ ~inside THEN 0
           ELSE SumSeq([i \in 1..(K * K) |-> Sample(img, x + lo + ((i - 1) % K), y + lo + ((i - 1) \div K),
                                                     IF opt = "output_zero" THEN "extend_zero" ELSE opt, [big |-> <<>>, ox |-> 0, oy |-> 0])])]]

\* zero-extended 2-D convolution with a K x K kernel (rows of the kernel: ker2[j+1][i+1] = K(i,j)), centre (cx, cy)
P_Conv2D(img, ker2, cx, cy) ==
    LET K == Len(ker2) IN
    [yy \in 1..H(img) |-> [xx \in 1..W(img) |->
        SumSeq([t \in 1..(K * K) |->
            LET i == (t - 1) % K j == (t - 1) \div K IN
            Sample(img, (xx - 1) + cx - i, (yy - 1) + cy - j, "extend_zero", <<>>) * ker2[j + 1][i + 1]])]]

\* boundary extension by n pixels in the given directions
P_Extend(img, n, opt, pad, dx, dy) ==
    [yy \in 1..(H(img) + 2 * n * dy) |-> [xx \in 1..(W(img) + 2 * n * dx) |->
        Sample(img, (xx - 1) - n * dx, (yy - 1) - n * dy, opt, pad)]]

-----------------------------------------------------------------------------
(* I_: one row of correlate_rows_impl *)
I_Buffer(row, K, c, opt, padrow) ==       \* the accumulation buffer of width + K - 1 samples
    LET w == Len(row) l == c r == K - 1 - c IN
    CASE opt = "extend_zero"     -> [i \in 1..l |-> 0] \o row \o [i \in 1..r |-> 0]
      [] opt = "extend_constant" -> [i \in 1..l |-> row[1]] \o row \o [i \in 1..r |-> row[w]]
      [] opt = "extend_padded"   -> padrow
I_CorrelateBuffer(buf, ker, n) == [i \in 1..n |-> SumSeq([k \in 1..Len(ker) |-> buf[i + k - 1] * ker[k]])]
I_CorrRow(row, ker, c, opt, padrow, dstrow) ==
    LET w == Len(row) K == Len(ker) IN
    IF w = 0 THEN dstrow
    ELSE IF K = 1 THEN [i \in 1..w |-> row[i] * ker[1]]
    ELSE IF opt \in {"output_zero", "output_ignore"}
    THEN (IF w < K THEN (IF opt = "output_zero" THEN [i \in 1..w |-> 0] ELSE dstrow)
          ELSE LET mid == I_CorrelateBuffer(row, ker, w + 1 - K) IN
               [i \in 1..w |-> IF i <= c THEN (IF opt = "output_zero" THEN 0 ELSE dstrow[i])
                               ELSE IF i <= c + w + 1 - K THEN mid[i - c]
                               ELSE (IF opt = "output_zero" THEN 0 ELSE dstrow[i])])
    ELSE I_CorrelateBuffer(I_Buffer(row, K, c, opt, padrow), ker, w)
I_ReverseKernel(ker, c) == <<RevSeq(ker), Len(ker) - 1 - c>>      \* result.center() = kernel.right_size()
=============================================================================
