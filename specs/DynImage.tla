------------------------------ MODULE DynImage ------------------------------
(***************************************************************************)
(* State machine of any_image / any_image_view variables (C14, Part B of    *)
(* DynImageBase.tla): every public operation is one action; the properties  *)
(* are the value semantics the statement promises (deep images, shallow     *)
(* views, recreate keeps the held type, bad_cast changes nothing).          *)
(***************************************************************************)
EXTENDS DynImageBase

VARIABLES st, last, ret
vars == <<st, last, ret>>
Init == st = S0 /\ last = NoOp /\ ret = "none"
Do(o) == Enabled(st, o) /\ st' = Apply(st, o) /\ last' = o /\ ret' = Result(st, o)
Next == \E o \in AllOps(st) : Do(o)

-----------------------------------------------------------------------------
(* Properties of the state machine                                           *)
LiveImgs == {v \in ImgVars : st.img[v].live}
LiveViews == {v \in ViewVars : st.view[v].live}
\* deep values: image variables never share storage, every buffer has exactly one owner and the right size
P_Deep == /\ \A v, u \in LiveImgs : v # u => st.img[v].buf # st.img[u].buf
          /\ DOMAIN st.heap = {st.img[v].buf : v \in LiveImgs}
          /\ \A v \in LiveImgs : Len(st.heap[st.img[v].buf]) = st.img[v].w * st.img[v].h
\* shallow views: a live view is a rectangle of the buffer of a live image of the same alternative
P_ViewsAlias == \A v \in LiveViews : \E u \in LiveImgs :
                   /\ st.img[u].buf = st.view[v].buf /\ st.img[u].tag = st.view[v].tag /\ st.view[v].bw = st.img[u].w
                   /\ st.view[v].x + st.view[v].w <= st.img[u].w /\ st.view[v].y + st.view[v].h <= st.img[u].h
\* action properties
P_RecreateKeepsType == [][last'.op = "Recreate" => st'.img[last'.a].tag = st.img[last'.a].tag
                                                  /\ st'.img[last'.a].w = last'.w /\ st'.img[last'.a].h = last'.h]_vars
P_BadCastNoChange == [][ret' = "bad_cast" => st' = st]_vars
P_QueriesPure == [][last'.op \in {"EqImg", "EqView", "EqPixels"} => st' = st]_vars
\* a write through a view changes the pixels of exactly the image it aliases
P_WriteOneOwner == [][last'.op \in {"FillView", "CopyPixels"} =>
                        \A u \in ImgVars : (st.img[u].live /\ st.img[u].buf # st.view[last'.a].buf)
                                              => Obs(st').imgs[u] = Obs(st).imgs[u]]_vars
\* copies are equal to their source and independent of it afterwards
P_CopyEqual == [][last'.op \in {"CopyCtor", "Assign"} =>
                    Result(st', Op("EqImg", last'.a, last'.b, 0, 0, 0, 0, 0, 0)) = "true"]_vars
P_ViewCopyEqual == [][(last'.op \in {"CopyView", "AssignView"} /\ st'.view[last'.a].w * st'.view[last'.a].h > 0) =>
                    Result(st', Op("EqView", last'.a, last'.b, 0, 0, 0, 0, 0, 0)) = "true"]_vars
=============================================================================
