---------------------------- MODULE DynImageBase ----------------------------
(***************************************************************************)
(* Run-time typed images and views (C14): any_image / any_image_view of     *)
(* extension/dynamic_image behave exactly like the concrete object they     *)
(* hold.                                                                    *)
(*                                                                          *)
(* Part A (pure): the alternatives of a type list are descriptors           *)
(* [space, bits, planar, order]; a pixel grid is [w, h, px] with px the     *)
(* row-major sequence of pixels, each a sequence of channel values in       *)
(* SEMANTIC channel order.  P_ operators give, for every view               *)
(* transformation and every algorithm overload, the result the concrete     *)
(* operation has (coordinates from Views.tla) and the alternative it is     *)
(* wrapped in; binary algorithms between incompatible alternatives raise    *)
(* bad_cast and leave the destination unchanged.                            *)
(*                                                                          *)
(* Part B (state machine): variables holding any_image values (deep: each   *)
(* owns its buffer) and any_image_view values (shallow: a rectangle of some *)
(* image's buffer).  Every public operation is one action, given as a pure  *)
(* function Apply(s, op) of the abstract state so that the model checker,   *)
(* the history exporter and the trace validator step the same definition.   *)
(***************************************************************************)
EXTENDS Views, TLC

-----------------------------------------------------------------------------
(* Part A: alternatives, compatibility, transformations, algorithms         *)

NChOf(space) == CASE space = "gray" -> 1 [] space = "rgb" -> 3 [] space = "rgba" -> 4 [] space = "cmyk" -> 4
\* pixels_are_compatible / views_are_compatible: same colour space and same channel type per semantic
\* channel; channel order in memory and planar/interleaved organisation do not matter
Compat(a, b) == a.space = b.space /\ a.bits = b.bits

Grid(w, h, px) == [w |-> w, h |-> h, px |-> px]
At(g, x, y) == g.px[y * g.w + x + 1]
XOf(i, w) == (i - 1) % w
YOf(i, w) == (i - 1) \div w

\* physical channel n (0-based) of a pixel given in semantic order; order[n+1] = semantic index of physical n
NthOf(alt, p, n) == <<p[alt.order[n + 1] + 1]>>

\* the alternative a transformed view is wrapped in
P_TAlt(t, args, alt, target) ==
    CASE t = "nthch" -> [space |-> "gray", bits |-> alt.bits]
      [] t = "ccv"   -> [space |-> target.space, bits |-> target.bits]
      [] OTHER       -> [space |-> alt.space, bits |-> alt.bits]

\* the pixels of t(args)(g); "ccv" pixels are taken from the concrete reference (C09 owns conversion values)
P_TGrid(t, args, alt, g) ==
    LET d == P_Dims(t, args, g.w, g.h) IN
    Grid(d[1], d[2],
         [i \in 1..(d[1] * d[2]) |->
            LET s == P_Src(t, args, g.w, g.h, XOf(i, d[1]), YOf(i, d[1]))
                p == At(g, s[1], s[2])
            IN IF t = "nthch" THEN NthOf(alt, p, args[1]) ELSE p])

\* source pixels a transformed view can reach
P_Covered(t, args, g) ==
    LET d == P_Dims(t, args, g.w, g.h) IN
    {P_Src(t, args, g.w, g.h, x, y) : x \in 0..(d[1] - 1), y \in 0..(d[2] - 1)}

\* the source after every pixel of the transformed view was assigned marker m (a pixel of the result type)
P_WriteThrough(t, args, alt, g, m) ==
    LET cov == P_Covered(t, args, g) IN
    [i \in 1..(g.w * g.h) |->
        IF <<XOf(i, g.w), YOf(i, g.w)>> \in cov
        THEN (IF t = "nthch" THEN [g.px[i] EXCEPT ![alt.order[args[1] + 1] + 1] = m[1]] ELSE m)
        ELSE g.px[i]]

ConstPx(n, p) == [i \in 1..n |-> p]

\* binary algorithms: [exc, dst, ret]; dims of src and dst are equal (precondition of the concrete algorithms)
Outcome(exc, dst, ret) == [exc |-> exc, dst |-> dst, ret |-> ret]
P_Copy(sa, da, src, dst0)  == IF Compat(sa, da) THEN Outcome("none", src, "none") ELSE Outcome("bad_cast", dst0, "none")
P_Equal(sa, da, src, dst0) == IF Compat(sa, da) THEN Outcome("none", dst0, IF src = dst0 THEN "true" ELSE "false")
                              ELSE Outcome("bad_cast", dst0, "none")
\* custom converter of the harness: every destination channel := k
P_ConvertConst(sa, da, src, dst0, k) ==
    IF Compat(sa, da) THEN Outcome("none", src, "none")
    ELSE Outcome("none", [i \in 1..Len(dst0) |-> [c \in 1..NChOf(da.space) |-> k]], "none")
\* nearest-neighbour resampling under an integer translation (dx,dy): dst(x,y) = src(x+dx,y+dy) where inside
P_Resample(sa, da, w, h, src, dst0, dx, dy) ==
    IF ~Compat(sa, da) THEN Outcome("bad_cast", dst0, "none")
    ELSE Outcome("none",
                 [i \in 1..(w * h) |->
                    LET x == XOf(i, w) + dx  y == YOf(i, w) + dy
                    IN IF x >= 0 /\ x < w /\ y >= 0 /\ y < h THEN src[y * w + x + 1] ELSE dst0[i]],
                 "none")
P_Fill(va, da, val, dst0) == IF Compat(va, da) THEN Outcome("none", ConstPx(Len(dst0), val), "none")
                             ELSE Outcome("bad_cast", dst0, "none")
\* the harness functor: n-th visited pixel (row-major, 1-based) gets semantic channel 0 := n; returns the count
\* bytes between two row starts of an image of alternative alt, w pixels wide, created with row alignment al (0 / 1: none)
P_RowBytes(alt, w, al) == LET raw == IF alt.planar THEN w * (alt.bits \div 8) ELSE w * NChOf(alt.space) * (alt.bits \div 8)
                          IN IF al > 1 THEN Align(raw, al) ELSE raw
P_ForEach(dst0) == Outcome("none", [i \in 1..Len(dst0) |-> [dst0[i] EXCEPT ![1] = i]], ToString(Len(dst0)))

-----------------------------------------------------------------------------
(* Part B: value semantics of any_image (deep) and any_image_view (shallow)  *)

CONSTANTS ImgVars,      \* names of any_image variables
          ViewVars,     \* names of any_image_view variables
          Tags,         \* indices into the type list
          ClassOf,      \* tag -> compatibility class
          DimSet, Vals

DeadImg  == [live |-> FALSE, tag |-> 0, w |-> 0, h |-> 0, buf |-> 0]
DeadView == [live |-> FALSE, tag |-> 0, buf |-> 0, x |-> 0, y |-> 0, w |-> 0, h |-> 0, bw |-> 0]
S0 == [img |-> [v \in ImgVars |-> DeadImg], view |-> [v \in ViewVars |-> DeadView], heap |-> <<>>]

NoOp == [op |-> "none", a |-> 0, b |-> 0, t |-> 0, w |-> 0, h |-> 0, k |-> 0, x |-> 0, y |-> 0]
Op(name, a, b, t, w, h, k, x, y) == [op |-> name, a |-> a, b |-> b, t |-> t, w |-> w, h |-> h, k |-> k, x |-> x, y |-> y]

FreshBuf(s) == CHOOSE b \in 1..(Cardinality(DOMAIN s.heap) + 1) : b \notin DOMAIN s.heap
WithBuf(heap, b, px) == [i \in DOMAIN heap \cup {b} |-> IF i = b THEN px ELSE heap[i]]
WithoutBuf(heap, b)  == [i \in DOMAIN heap \ {b} |-> heap[i]]
\* views into a released buffer dangle: no operation may use them any more
DropViews(view, b) == [v \in DOMAIN view |-> IF view[v].live /\ view[v].buf = b THEN DeadView ELSE view[v]]

\* heap index of pixel (x,y) of a view, and the pixels seen through it (row-major)
VIdx(vw, x, y) == (vw.y + y) * vw.bw + vw.x + x + 1
ViewPx(s, vw) == [i \in 1..(vw.w * vw.h) |-> s.heap[vw.buf][VIdx(vw, XOf(i, vw.w), YOf(i, vw.w))]]
ImgPx(s, im) == s.heap[im.buf]
InRect(vw, i) == LET x == XOf(i, vw.bw)  y == YOf(i, vw.bw)
                 IN x >= vw.x /\ x < vw.x + vw.w /\ y >= vw.y /\ y < vw.y + vw.h
FullView(im) == [live |-> TRUE, tag |-> im.tag, buf |-> im.buf, x |-> 0, y |-> 0, w |-> im.w, h |-> im.h, bw |-> im.w]

\* replace the value of image variable v by a fresh deep value (its old buffer, if any, is released)
SetImg(s, v, t, w, h, px) ==
    LET old == s.img[v]
        h1  == IF old.live THEN WithoutBuf(s.heap, old.buf) ELSE s.heap
        vw1 == IF old.live THEN DropViews(s.view, old.buf) ELSE s.view
        s1  == [s EXCEPT !.heap = h1, !.view = vw1]
        b   == FreshBuf(s1)
    IN [s1 EXCEPT !.img[v] = [live |-> TRUE, tag |-> t, w |-> w, h |-> h, buf |-> b], !.heap = WithBuf(h1, b, px)]

SameDims(p, q) == p.w = q.w /\ p.h = q.h
ViewCompat(p, q) == ClassOf[p.tag] = ClassOf[q.tag]

Enabled(s, o) ==
    CASE o.op = "Ctor"     -> ~s.img[o.a].live
      [] o.op = "CopyCtor" -> ~s.img[o.a].live /\ s.img[o.b].live
      [] o.op = "Assign"   -> s.img[o.a].live /\ s.img[o.b].live
      [] o.op = "AssignT"  -> s.img[o.a].live
      [] o.op = "Recreate" -> s.img[o.a].live
      [] o.op = "Destroy"  -> s.img[o.a].live
      [] o.op = "ViewOf"   -> s.img[o.b].live
      [] o.op = "SubView"  -> s.view[o.b].live /\ o.x + o.w <= s.view[o.b].w /\ o.y + o.h <= s.view[o.b].h
      [] o.op = "CopyView" -> s.view[o.b].live /\ o.a # o.b
      [] o.op = "AssignView" -> s.view[o.b].live /\ s.view[o.a].live /\ o.a # o.b
      [] o.op = "FillView" -> s.view[o.a].live
      [] o.op = "CopyPixels" -> s.view[o.a].live /\ s.view[o.b].live /\ SameDims(s.view[o.a], s.view[o.b])
                                /\ s.view[o.a].buf # s.view[o.b].buf
      [] o.op = "EqImg"    -> s.img[o.a].live /\ s.img[o.b].live
      [] o.op = "EqView"   -> s.view[o.a].live /\ s.view[o.b].live /\ s.view[o.a].w * s.view[o.a].h > 0
                              /\ s.view[o.b].w * s.view[o.b].h > 0
      [] o.op = "EqPixels" -> s.view[o.a].live /\ s.view[o.b].live /\ SameDims(s.view[o.a], s.view[o.b])
      [] OTHER -> FALSE

\* result reported by the call: "none", "true", "false" or "bad_cast"
Result(s, o) ==
    CASE o.op = "FillView"   -> IF ClassOf[o.t] = ClassOf[s.view[o.a].tag] THEN "none" ELSE "bad_cast"
      [] o.op = "CopyPixels" -> IF ViewCompat(s.view[o.a], s.view[o.b]) THEN "none" ELSE "bad_cast"
      [] o.op = "EqImg"      -> LET p == s.img[o.a]  q == s.img[o.b]
                                IN IF p.tag = q.tag /\ SameDims(p, q) /\ ImgPx(s, p) = ImgPx(s, q) THEN "true" ELSE "false"
      [] o.op = "EqView"     -> LET p == s.view[o.a]  q == s.view[o.b]
                                IN IF p.tag = q.tag /\ p.buf = q.buf /\ p.x = q.x /\ p.y = q.y /\ SameDims(p, q)
                                   THEN "true" ELSE "false"
      [] o.op = "EqPixels"   -> LET p == s.view[o.a]  q == s.view[o.b]
                                IN IF ~ViewCompat(p, q) THEN "bad_cast"
                                   ELSE IF ViewPx(s, p) = ViewPx(s, q) THEN "true" ELSE "false"
      [] OTHER -> "none"

WriteRect(s, vw, px) ==     \* px: row-major pixels of the view's rectangle
    [s EXCEPT !.heap[vw.buf] =
        [i \in 1..Len(@) |-> IF InRect(vw, i)
                             THEN px[(YOf(i, vw.bw) - vw.y) * vw.w + (XOf(i, vw.bw) - vw.x) + 1]
                             ELSE @[i]]]

Apply(s, o) ==
    CASE o.op = "Ctor"     -> SetImg(s, o.a, o.t, o.w, o.h, ConstPx(o.w * o.h, o.k))
      [] o.op = "CopyCtor" -> SetImg(s, o.a, s.img[o.b].tag, s.img[o.b].w, s.img[o.b].h, ImgPx(s, s.img[o.b]))
      \* (self-assignment included: the value is kept, views into the variable are released like for any assignment)
      [] o.op = "Assign"   -> SetImg(s, o.a, s.img[o.b].tag, s.img[o.b].w, s.img[o.b].h, ImgPx(s, s.img[o.b]))
      [] o.op = "AssignT"  -> SetImg(s, o.a, o.t, o.w, o.h, ConstPx(o.w * o.h, o.k))
      [] o.op = "Recreate" -> SetImg(s, o.a, s.img[o.a].tag, o.w, o.h, ConstPx(o.w * o.h, o.k))      \* held type preserved
      [] o.op = "Destroy"  -> [s EXCEPT !.img[o.a] = DeadImg, !.heap = WithoutBuf(s.heap, s.img[o.a].buf),
                                        !.view = DropViews(s.view, s.img[o.a].buf)]
      [] o.op = "ViewOf"   -> [s EXCEPT !.view[o.a] = FullView(s.img[o.b])]
      [] o.op = "SubView"  -> LET p == s.view[o.b] IN
                              [s EXCEPT !.view[o.a] = [p EXCEPT !.x = p.x + o.x, !.y = p.y + o.y, !.w = o.w, !.h = o.h]]
      [] o.op \in {"CopyView", "AssignView"} -> [s EXCEPT !.view[o.a] = s.view[o.b]]
      [] o.op = "FillView" -> IF Result(s, o) = "none"
                              THEN WriteRect(s, s.view[o.a], ConstPx(s.view[o.a].w * s.view[o.a].h, o.k)) ELSE s
      [] o.op = "CopyPixels" -> IF Result(s, o) = "none"                                            \* a := pixels of b
                                THEN WriteRect(s, s.view[o.a], ViewPx(s, s.view[o.b])) ELSE s
      [] OTHER -> s

\* what a program can observe of the state
Obs(s) == [imgs  |-> [v \in ImgVars |-> IF s.img[v].live
                         THEN [live |-> TRUE, tag |-> s.img[v].tag, w |-> s.img[v].w, h |-> s.img[v].h, px |-> ImgPx(s, s.img[v])]
                         ELSE [live |-> FALSE, tag |-> 0, w |-> 0, h |-> 0, px |-> <<>>]],
           views |-> [v \in ViewVars |-> IF s.view[v].live
                         THEN [live |-> TRUE, tag |-> s.view[v].tag, w |-> s.view[v].w, h |-> s.view[v].h, px |-> ViewPx(s, s.view[v])]
                         ELSE [live |-> FALSE, tag |-> 0, w |-> 0, h |-> 0, px |-> <<>>]]]

\* all operation records over the constants
AllOps(s) ==
    LET IV == ImgVars  VV == ViewVars IN
         {Op("Ctor", a, 0, t, d[1], d[2], k, 0, 0) : a \in IV, t \in Tags, d \in DimSet, k \in Vals}
    \cup {Op("CopyCtor", a, b, 0, 0, 0, 0, 0, 0) : a \in IV, b \in IV}
    \cup {Op("Assign", a, b, 0, 0, 0, 0, 0, 0) : a \in IV, b \in IV}
    \cup {Op("AssignT", a, 0, t, d[1], d[2], k, 0, 0) : a \in IV, t \in Tags, d \in DimSet, k \in Vals}
    \cup {Op("Recreate", a, 0, 0, d[1], d[2], k, al, 0) : a \in IV, d \in DimSet, k \in Vals, al \in {0, 16}}     \* x = row alignment
    \cup {Op("Destroy", a, 0, 0, 0, 0, 0, 0, 0) : a \in IV}
    \cup {Op("ViewOf", a, b, 0, 0, 0, 0, 0, 0) : a \in VV, b \in IV}
    \cup UNION {{Op("SubView", a, b, 0, w, h, 0, x, y) : w \in 0..(s.view[b].w - x), h \in 0..(s.view[b].h - y)}
                : a \in VV, b \in {v \in VV : s.view[v].live}, x \in 0..2, y \in 0..2}
    \cup {Op("CopyView", a, b, 0, 0, 0, 0, 0, 0) : a \in VV, b \in VV}
    \cup {Op("AssignView", a, b, 0, 0, 0, 0, 0, 0) : a \in VV, b \in VV}
    \cup {Op("FillView", a, 0, t, 0, 0, k, 0, 0) : a \in VV, t \in Tags, k \in Vals}
    \cup {Op("CopyPixels", a, b, 0, 0, 0, 0, 0, 0) : a \in VV, b \in VV}
    \cup {Op("EqImg", a, b, 0, 0, 0, 0, 0, 0) : a \in IV, b \in IV}
    \cup {Op("EqView", a, b, 0, 0, 0, 0, 0, 0) : a \in VV, b \in VV}
    \cup {Op("EqPixels", a, b, 0, 0, 0, 0, 0, 0) : a \in VV, b \in VV}
=============================================================================
