--------------------------- MODULE Export_DynImage ---------------------------
(* Behaviour export: every history of exactly MaxOps operations that TLC        *)
(* reaches (BFS: all of them; -simulate: the sampled ones) is collected in a     *)
(* TLC register and written as ndjson (IOEnv.OUT) when TLC finishes.             *)
(* Run with -workers 1.                                                          *)
EXTENDS MC_DynImage, Json, IOUtils
ASSUME TLCSet(1, <<>>)
Collect    == (nops = MaxOps /\ pend = "none") => TLCSet(1, Append(TLCGet(1), [ops |-> hist]))
\* -simulate evaluates invariants on every successor it generates, not only on the one it follows: the extra
\* "done" step has exactly one successor, so exactly the followed behaviours are collected
CollectSim == (pend = "done") => TLCSet(1, Append(TLCGet(1), [ops |-> hist]))
Dump == ndJsonSerialize(IOEnv.OUT, TLCGet(1))
=============================================================================
