SPECIFICATION MCSpec
CONSTANTS
  ImgVars = {1, 2}
  ViewVars = {1, 2}
  Tags = {1, 2, 3}
  ClassOf <- MCClassOf
  DimSet <- MCDimsSmall
  Vals = {1, 2}
  MaxOps = 2
INVARIANTS Collect Inv_Deep Inv_ViewsAlias
POSTCONDITION Dump
CHECK_DEADLOCK FALSE
