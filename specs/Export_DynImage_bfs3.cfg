SPECIFICATION MCSpec
CONSTANTS
  ImgVars = {1, 2}
  ViewVars = {1, 2}
  Tags = {1, 2, 4}
  ClassOf <- MCClassOf
  DimSet <- MCDimsSmall
  Vals = {1, 2}
  MaxOps = 3
INVARIANTS Collect Inv_Deep Inv_ViewsAlias
POSTCONDITION Dump
CHECK_DEADLOCK FALSE
