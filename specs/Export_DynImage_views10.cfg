SPECIFICATION ViewsSpec
CONSTANTS
  ImgVars = {1, 2}
  ViewVars = {1, 2}
  Tags = {1, 2, 3, 4, 5, 6, 7}
  ClassOf <- MCClassOf
  DimSet <- MCDimsBig
  Vals = {1, 2, 3}
  MaxOps = 10
INVARIANTS CollectSim Inv_Deep Inv_ViewsAlias
POSTCONDITION Dump
CHECK_DEADLOCK FALSE
