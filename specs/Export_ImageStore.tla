-------------------------- MODULE Export_ImageStore --------------------------
(* Behaviour export: every history of exactly MaxOps public operations that   *)
(* TLC reaches (BFS: all of them; -simulate: the followed ones) is collected  *)
(* in a TLC register and written as ndjson (IOEnv.OUT) when TLC finishes.     *)
(* -simulate evaluates invariants on every successor it generates, not only   *)
(* on the one it follows, so a history is collected in an extra "done" step   *)
(* that has exactly one successor.  Run with -workers 1.                       *)
EXTENDS MC_ImageStore, Json, IOUtils
CONSTANT Trait
VARIABLE done
ASSUME TLCSet(1, <<>>)
ExInit == Init /\ done = FALSE
ExNext == \/ (Next /\ done' = done)
          \/ (nops = MaxOps /\ ~done /\ done' = TRUE /\ UNCHANGED mvars)
ExSpec == ExInit /\ [][ExNext]_<<mvars, done>>
Collect == done => TLCSet(1, Append(TLCGet(1), [trait |-> Trait, ops |-> hist]))
Dump == ndJsonSerialize(IOEnv.OUT, TLCGet(1))
=============================================================================
