-------------------------- MODULE Export_ImageStore --------------------------
(* Behaviour export: every history of exactly MaxOps public operations that   *)
(* TLC reaches (BFS: all of them; -simulate: the sampled ones) is collected   *)
(* in a TLC register and written as ndjson (IOEnv.OUT) when TLC finishes.     *)
(* Run with -workers 1.                                                        *)
EXTENDS MC_ImageStore, Json, IOUtils
CONSTANT Trait
ASSUME TLCSet(1, <<>>)
Collect == (nops = MaxOps) => TLCSet(1, Append(TLCGet(1), [trait |-> Trait, ops |-> hist]))
Dump == ndJsonSerialize(IOEnv.OUT, TLCGet(1))
=============================================================================
