SPECIFICATION ExSpec
CONSTANTS
  Handles = {1, 2}
  DimSet <- MCDims
  AlignSet = {0, 4, 16}
  AllocSet = {0, 1}
  POCMA = FALSE
  POCS = FALSE
  Psz = 4
  MaxOps = 2
  ExcludeOpenFindings = TRUE
  Trait = "noprop"
INVARIANTS Collect Inv_NoErrors Inv_NoLeak Inv_OneBlock Inv_Sized Inv_ElemBalance
POSTCONDITION Dump
CHECK_DEADLOCK FALSE
