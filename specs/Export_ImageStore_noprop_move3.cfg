SPECIFICATION ExSpec
CONSTANTS
  Handles = {1, 2}
  DimSet <- MCDimsMove
  AlignSet = {0, 16}
  AllocSet = {0, 1}
  POCMA = FALSE
  POCS = FALSE
  Psz = 4
  MaxOps = 3
  ExcludeOpenFindings = TRUE
  Trait = "noprop"
INVARIANTS Collect
POSTCONDITION Dump
CHECK_DEADLOCK FALSE
