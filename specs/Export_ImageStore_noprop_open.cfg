SPECIFICATION ExSpec
CONSTANTS
  Handles = {1, 2}
  DimSet <- MCDims
  AlignSet = {0, 4, 16}
  AllocSet = {0, 1}
  POCMA = FALSE
  POCS = FALSE
  Psz = 4
  MaxOps = 4
  ExcludeOpenFindings = FALSE
  Trait = "noprop"
INVARIANTS Collect
POSTCONDITION Dump
CHECK_DEADLOCK FALSE
