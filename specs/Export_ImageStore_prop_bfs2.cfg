SPECIFICATION ExSpec
CONSTANTS
  Handles = {1, 2}
  DimSet <- MCDims
  AlignSet = {0, 4, 16}
  AllocSet = {1, 2}
  POCMA = TRUE
  POCS = TRUE
  Psz = 4
  MaxOps = 2
  ExcludeOpenFindings = TRUE
  Trait = "prop"
INVARIANTS Collect Inv_NoErrors Inv_NoLeak Inv_OneBlock Inv_Sized Inv_ElemBalance
POSTCONDITION Dump
CHECK_DEADLOCK FALSE
