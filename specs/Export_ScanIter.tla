--------------------------- MODULE Export_ScanIter ---------------------------
(* Every walk of the scanline iterator up to MaxOps operations over an image of *)
(* H rows, as ndjson (IOEnv.OUT), for replay on real scanline readers.           *)
EXTENDS ScanIter, TLC, Json, IOUtils
ASSUME TLCSet(1, <<>>)
Collect == (Len(ops) > 0 /\ (Len(ops) = MaxOps \/ pos = H)) => TLCSet(1, Append(TLCGet(1), [ops |-> ops, rows |-> P_Rows(ops)]))
Dump == ndJsonSerialize(IOEnv.OUT, TLCGet(1))
=============================================================================
