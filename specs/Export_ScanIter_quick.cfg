SPECIFICATION Spec
CONSTANTS
  H = 4
  Sequential = TRUE
  MaxOps = 7
INVARIANTS Collect
POSTCONDITION Dump
CHECK_DEADLOCK FALSE
