-------------------------------- MODULE Filters --------------------------------
(***************************************************************************)
(* Thresholding, morphology and the median filter (C16), single channel    *)
(* images as sequences of rows of integers (multi-channel: per channel).   *)
(***************************************************************************)
EXTENDS GilInt

W(img) == IF Len(img) = 0 THEN 0 ELSE Len(img[1])
H(img) == Len(img)
Pix(img, x, y) == img[y + 1][x + 1]
Map(img, F(_)) == [yy \in 1..H(img) |-> [xx \in 1..W(img) |-> F(img[yy][xx])]]
Coords(img) == {<<x, y>> : x \in 0..(W(img) - 1), y \in 0..(H(img) - 1)}

\* ------------------------------------------------------------------ thresholds
P_Binary(px, t, maxv, dir) == IF dir = "regular" THEN (IF px > t THEN maxv ELSE 0) ELSE (IF px > t THEN 0 ELSE maxv)
P_Truncate(px, t, mode, dir) ==
    CASE mode = "threshold" /\ dir = "regular" -> IF px > t THEN t ELSE px
      [] mode = "threshold" /\ dir = "inverse" -> IF px > t THEN px ELSE t
      [] mode = "zero" /\ dir = "regular"      -> IF px > t THEN px ELSE 0
      [] mode = "zero" /\ dir = "inverse"      -> IF px > t THEN 0 ELSE px
\* out is the binary threshold of src for SOME single threshold (regular direction, given max value)
P_IsSomeBinary(src, out, maxv) ==
    LET hi == {Pix(src, c[1], c[2]) : c \in {d \in Coords(src) : Pix(out, d[1], d[2]) = maxv}}
        lo == {Pix(src, c[1], c[2]) : c \in {d \in Coords(src) : Pix(out, d[1], d[2]) = 0}}
    IN /\ \A c \in Coords(src) : Pix(out, c[1], c[2]) \in {0, maxv}
       /\ \A a \in lo, b \in hi : a < b

\* ------------------------------------------------------------------ morphology (symmetric structuring element)
\* se: K x K 0/1 matrix (rows), centre (K-1)/2; neighbourhood offsets of its non-zero entries plus the pixel itself
Offsets(se) == LET K == Len(se) c == (K - 1) \div 2 IN
               {<<i - 1 - c, j - 1 - c>> : i \in 1..K, j \in 1..K} \cap {<<i - 1 - c, j - 1 - c>> : i \in {a \in 1..K : TRUE}, j \in {b \in 1..K : TRUE}}
NzOffsets(se) == LET K == Len(se) c == (K - 1) \div 2 IN
                 {o \in Offsets(se) : se[o[2] + c + 1][o[1] + c + 1] # 0} \cup {<<0, 0>>}
Nbhd(img, x, y, se) == {Pix(img, x + o[1], y + o[2]) : o \in {p \in NzOffsets(se) : x + p[1] >= 0 /\ x + p[1] < W(img) /\ y + p[2] >= 0 /\ y + p[2] < H(img)}}
SetMax(S) == CHOOSE m \in S : \A v \in S : v <= m
SetMin(S) == CHOOSE m \in S : \A v \in S : m <= v
P_Dilate(img, se) == [yy \in 1..H(img) |-> [xx \in 1..W(img) |-> SetMax(Nbhd(img, xx - 1, yy - 1, se))]]
P_Erode(img, se)  == [yy \in 1..H(img) |-> [xx \in 1..W(img) |-> SetMin(Nbhd(img, xx - 1, yy - 1, se))]]
Leq(a, b) == \A yy \in 1..H(a) : \A xx \in 1..W(a) : a[yy][xx] <= b[yy][xx]

\* ------------------------------------------------------------------ median (k x k, edge replication)
Clamp(v, lo, hi) == IF v < lo THEN lo ELSE IF v > hi THEN hi ELSE v
Window(img, x, y, k) == LET r == k \div 2 IN
    [t \in 1..(k * k) |-> Pix(img, Clamp(x + ((t - 1) % k) - r, 0, W(img) - 1), Clamp(y + ((t - 1) \div k) - r, 0, H(img) - 1))]
\* m is the median of the k*k window: at most half of the samples lie strictly below it and at most half strictly above
P_IsMedian(win, m) == LET n == Len(win) IN
    /\ \E i \in 1..n : win[i] = m
    /\ Cardinality({i \in 1..n : win[i] < m}) <= n \div 2
    /\ Cardinality({i \in 1..n : win[i] > m}) <= n \div 2

\* ------------------------------------------------------------------ I_: Otsu histogram index of the 16-bit / signed branch
I_OtsuIndex(v, mn, mx) == IF mx = mn THEN 0 ELSE CDiv((v - mn) * 255, mx - mn)
=============================================================================
