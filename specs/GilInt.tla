------------------------------- MODULE GilInt -------------------------------
(***************************************************************************)
(* Shared integer vocabulary for the GIL specifications.                   *)
(*                                                                         *)
(* TLC integers are 32-bit and overflow is an error, so everything that    *)
(* can exceed 2^31 is either split (MulDiv) or done on little-endian       *)
(* base-256 limb sequences (BigXxx). C semantics (truncating division) are  *)
(* spelled CDiv / CMod; TLA+'s \div and % are floor based.                 *)
(***************************************************************************)
EXTENDS Integers, Sequences, FiniteSets

Abs(x)    == IF x < 0 THEN -x ELSE x
Min2(a,b) == IF a < b THEN a ELSE b
Max2(a,b) == IF a < b THEN b ELSE a
Sgn(x)    == IF x < 0 THEN -1 ELSE IF x > 0 THEN 1 ELSE 0

\* C++ integer division and remainder (truncation toward zero), b # 0
CDiv(a,b) == IF (a >= 0) = (b > 0) THEN Abs(a) \div Abs(b) ELSE -(Abs(a) \div Abs(b))
CMod(a,b) == a - b * CDiv(a,b)

CeilDiv(a,b) == (a + b - 1) \div b            \* a >= 0, b > 0
Align(x,a)   == IF a <= 1 THEN x ELSE x + ((a - (x % a)) % a)

RECURSIVE Pow2(_)
Pow2(n) == IF n = 0 THEN 1 ELSE 2 * Pow2(n-1)   \* n <= 30

RECURSIVE SumSeq(_)
SumSeq(s) == IF s = <<>> THEN 0 ELSE Head(s) + SumSeq(Tail(s))

SeqMax(s) == CHOOSE m \in {s[i] : i \in DOMAIN s} : \A i \in DOMAIN s : s[i] <= m
SeqMin(s) == CHOOSE m \in {s[i] : i \in DOMAIN s} : \A i \in DOMAIN s : m <= s[i]

\* first index in 1..n failing Ok, 0 if none.  TLC evaluates CHOOSE over an interval in
\* ascending order, so this is the first failure
FirstBad(n, Ok(_)) == IF \A i \in 1..n : Ok(i) THEN 0 ELSE CHOOSE i \in 1..n : ~Ok(i)

(***************************************************************************)
(* floor(v*m / d) and (v*m) mod d for 0 <= v,m <= 65535, 1 <= d <= 65535   *)
(* without leaving 31 bits: long division on the two bytes of v.           *)
(***************************************************************************)
MulDivQR(v, m, d) ==
    LET vh == v \div 256
        vl == v % 256
        t1 == vh * m
        q1 == t1 \div d
        r1 == t1 % d
        t2 == r1 * 256 + vl * m
    IN  <<q1 * 256 + (t2 \div d), t2 % d>>

(***************************************************************************)
(* Naturals as little-endian base-256 limb sequences (no leading-zero      *)
(* normalisation is required by the operators below).                      *)
(***************************************************************************)
RECURSIVE BigOfNat(_)
BigOfNat(n) == IF n < 256 THEN <<n>> ELSE <<n % 256>> \o BigOfNat(n \div 256)

\* 16-bit words, most significant first: <<hi, lo>> or <<w3,w2,w1,w0>>
RECURSIVE BigOfWords(_)
BigOfWords(ws) == IF ws = <<>> THEN <<>>
                  ELSE LET w == ws[Len(ws)] IN
                       <<w % 256, w \div 256>> \o BigOfWords(SubSeq(ws, 1, Len(ws)-1))

BigLimb(a, i) == IF i <= Len(a) THEN a[i] ELSE 0

RECURSIVE BigCarry(_, _)
\* propagate carries over a sequence of column sums (each < 2^23)
BigCarry(cols, c) ==
    IF cols = <<>> THEN (IF c = 0 THEN <<>> ELSE BigOfNat(c))
    ELSE LET t == Head(cols) + c IN <<t % 256>> \o BigCarry(Tail(cols), t \div 256)

BigAdd(a, b) ==
    LET n == Max2(Len(a), Len(b)) IN
    BigCarry([i \in 1..n |-> BigLimb(a,i) + BigLimb(b,i)], 0)

BigMul(a, b) ==
    IF a = <<>> \/ b = <<>> THEN <<>> ELSE
    LET n == Len(a) + Len(b) - 1
        Col(k) == SumSeq([i \in 1..Len(a) |->
                           IF k - i + 1 >= 1 /\ k - i + 1 <= Len(b) THEN a[i] * b[k-i+1] ELSE 0])
    IN  BigCarry([k \in 1..n |-> Col(k)], 0)

RECURSIVE BigCmpFrom(_, _, _)
BigCmpFrom(a, b, i) ==
    IF i = 0 THEN 0
    ELSE IF BigLimb(a,i) < BigLimb(b,i) THEN -1
    ELSE IF BigLimb(a,i) > BigLimb(b,i) THEN 1
    ELSE BigCmpFrom(a, b, i-1)
BigCmp(a, b) == BigCmpFrom(a, b, Max2(Len(a), Len(b)))
BigLe(a,b) == BigCmp(a,b) <= 0
BigLt(a,b) == BigCmp(a,b) < 0

RECURSIVE BigSubFrom(_, _, _, _)
\* a - b for a >= b
BigSubFrom(a, b, i, borrow) ==
    IF i > Len(a) THEN <<>>
    ELSE LET t == a[i] - BigLimb(b,i) - borrow IN
         IF t < 0 THEN <<t + 256>> \o BigSubFrom(a, b, i+1, 1)
                  ELSE <<t>>       \o BigSubFrom(a, b, i+1, 0)
BigSub(a, b) == BigSubFrom(a, b, 1, 0)
\* |a - b|
BigAbsDiff(a, b) == IF BigLe(b, a) THEN BigSub(a, b) ELSE BigSub(b, a)

\* shift left by whole bytes
BigShlBytes(a, k) == [i \in 1..k |-> 0] \o a
=============================================================================
