------------------------------- MODULE HistEq -------------------------------
(***************************************************************************)
(* Extension X02: histogram equalisation                                   *)
(* (image_processing/histogram_equalization.hpp).                          *)
(* A histogram is a sequence of <<key, count>> with strictly increasing    *)
(* keys and positive counts.  P_Map: key k goes to                         *)
(* floor(cum(k) * (max - min) / total) + min, where cum is the cumulative  *)
(* count up to and including k; consequences: the map is monotone, the     *)
(* largest key goes to max, the destination histogram conserves the mass.  *)
(***************************************************************************)
EXTENDS GilInt

Total(h) == SumSeq([i \in 1..Len(h) |-> h[i][2]])
Cum(h, i) == SumSeq([j \in 1..i |-> h[j][2]])
P_Map(h, lo, hi) == [i \in 1..Len(h) |-> <<h[i][1], (Cum(h, i) * (hi - lo)) \div Total(h) + lo>>]
\* destination histogram: mass of every destination key
P_DstCount(h, lo, hi, v) == SumSeq([i \in 1..Len(h) |-> IF P_Map(h, lo, hi)[i][2] = v THEN h[i][2] ELSE 0])
WellFormed(h) == /\ \A i \in 1..Len(h) : h[i][2] > 0
                 /\ \A i \in 1..(Len(h) - 1) : h[i][1] < h[i + 1][1]
Monotone(m) == \A i \in 1..(Len(m) - 1) : m[i][2] <= m[i + 1][2]
\* h is the histogram of the sample sequence vals
IsHistOf(h, vals) == /\ \A j \in 1..Len(vals) : \E i \in 1..Len(h) : h[i][1] = vals[j]
                     /\ \A i \in 1..Len(h) : h[i][2] = Cardinality({j \in 1..Len(vals) : vals[j] = h[i][1]})
MapOf(m, k) == LET i == CHOOSE i \in 1..Len(m) : m[i][1] = k IN m[i][2]
=============================================================================
