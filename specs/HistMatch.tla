----------------------------- MODULE HistMatch -----------------------------
(* Extension X06: histogram matching (image_processing/histogram_matching.hpp). *)
(* A histogram is given by its sorted keys and the counts of those keys.        *)
(* P_ layer: every source key is sent to a reference key whose cumulative       *)
(* frequency (scaled to the source's total) is NEAREST to the source key's      *)
(* cumulative frequency; the map is monotone; the destination histogram carries *)
(* the source's mass along the map.                                             *)
(* I_ layer: the loop as written - walk the source keys downwards, move a       *)
(* cursor down the reference keys to the last one whose cumulative count does    *)
(* not exceed the target, then take the upper neighbour if it is strictly       *)
(* nearer.  All comparisons are exact rationals (cross-multiplied).             *)
EXTENDS Naturals, Integers, Sequences, FiniteSets

Abs(x) == IF x < 0 THEN -x ELSE x
RECURSIVE SumTo(_, _)
SumTo(c, j) == IF j = 0 THEN 0 ELSE c[j] + SumTo(c, j - 1)
Cum(c) == [j \in 1..Len(c) |-> SumTo(c, j)]
Total(c) == SumTo(c, Len(c))

\* distance between reference index i and source index j, in units of 1/(ssum)
Dist(cr, cs, ssum, rsum, i, j) == Abs(cr[i] * ssum - cs[j] * rsum)

\* ---- P_ ------------------------------------------------------------------
P_IsNearest(cr, cs, ssum, rsum, i, j) == \A i2 \in 1..Len(cr) : Dist(cr, cs, ssum, rsum, i, j) <= Dist(cr, cs, ssum, rsum, i2, j)
\* idx[j] = chosen reference index of source index j
P_Match(sc, rc, idx) ==
    LET cs == Cum(sc) cr == Cum(rc) ssum == Total(sc) rsum == Total(rc) IN
    /\ Len(idx) = Len(sc)
    /\ \A j \in 1..Len(sc) : idx[j] \in 1..Len(rc) /\ P_IsNearest(cr, cs, ssum, rsum, idx[j], j)
P_Monotone(idx) == \A a, b \in 1..Len(idx) : a <= b => idx[a] <= idx[b]
\* destination count of reference index i
P_DstCount(sc, idx, i) == LET S == {j \in 1..Len(sc) : idx[j] = i} IN SumTo([j \in 1..Len(sc) |-> IF j \in S THEN sc[j] ELSE 0], Len(sc))

\* ---- I_ ------------------------------------------------------------------
I_Floor(cr, cs, ssum, rsum, j) == LET S == {i \in 1..Len(cr) : cr[i] * ssum <= cs[j] * rsum} IN IF S = {} THEN 1 ELSE CHOOSE i \in S : \A k \in S : k <= i
I_Choice(cr, cs, ssum, rsum, j) ==
    LET s == I_Floor(cr, cs, ssum, rsum, j) IN
    IF s < Len(cr) /\ Dist(cr, cs, ssum, rsum, s, j) > Dist(cr, cs, ssum, rsum, s + 1, j) THEN s + 1 ELSE s
I_Match(sc, rc) == LET cs == Cum(sc) cr == Cum(rc) ssum == Total(sc) rsum == Total(rc) IN [j \in 1..Len(sc) |-> I_Choice(cr, cs, ssum, rsum, j)]
=============================================================================
