------------------------------ MODULE HistOps ------------------------------
(* Extension X10: container operations of gil::histogram (histogram.hpp) on   *)
(* 1-D integer keys.  A histogram is a set of <<key, count>> bins.             *)
EXTENDS Integers, Sequences, FiniteSets
Bins(h) == {<<h[i][1], h[i][2]>> : i \in 1..Len(h)}
Keys(h) == {h[i][1] : i \in 1..Len(h)}
\* equals: the same bins with the same counts - an equivalence, in particular symmetric
P_Equals(a, b) == Bins(a) = Bins(b)
\* nearest_key(k): k itself if it is a key, else the largest key below k, else (no such key) k
P_Nearest(h, k) == IF k \in Keys(h) THEN k ELSE LET S == {q \in Keys(h) : q <= k} IN IF S = {} THEN k ELSE CHOOSE q \in S : \A r \in S : r <= q
P_Min(h) == CHOOSE q \in Keys(h) : \A r \in Keys(h) : q <= r
P_Max(h) == CHOOSE q \in Keys(h) : \A r \in Keys(h) : r <= q
P_IsSortedKeys(h, s) == /\ Len(s) = Cardinality(Keys(h)) /\ {s[i] : i \in 1..Len(s)} = Keys(h) /\ \A i \in 1..(Len(s) - 1) : s[i] < s[i + 1]
=============================================================================
