------------------------------- MODULE Histogram -------------------------------
(***************************************************************************)
(* Histograms (C19).  A histogram is a bag: a set of records               *)
(* [key |-> <<k1,..,kn>>, n |-> count] given as a sequence of rows          *)
(* <<k1,..,kn,count>> in the trace.  Keys of pixels: the selected channels  *)
(* divided (C++ truncating division) by the bin width.                      *)
(***************************************************************************)
EXTENDS GilInt

KeyOfRow(r)   == SubSeq(r, 1, Len(r) - 1)
CountOfRow(r) == r[Len(r)]
\* count of key k in a histogram given as rows (0 if absent); rows with the same key are summed
CountIn(rows, k) == SumSeq([i \in 1..Len(rows) |-> IF KeyOfRow(rows[i]) = k THEN CountOfRow(rows[i]) ELSE 0])
Keys(rows) == {KeyOfRow(rows[i]) : i \in 1..Len(rows)}
Total(rows) == SumSeq([i \in 1..Len(rows) |-> CountOfRow(rows[i])])
NoDupKeys(rows) == \A i, j \in 1..Len(rows) : KeyOfRow(rows[i]) = KeyOfRow(rows[j]) => i = j

PixelKey(px, dims, bw) == [d \in 1..Len(dims) |-> CDiv(px[dims[d] + 1], bw)]
LeqAll(a, b) == \A i \in 1..Len(a) : a[i] <= b[i]                       \* componentwise
RECURSIVE LexLeq(_, _)
LexLeq(a, b) == IF a = <<>> THEN TRUE ELSE IF a[1] < b[1] THEN TRUE ELSE IF a[1] > b[1] THEN FALSE ELSE LexLeq(Tail(a), Tail(b))

\* pixels counted by a fill: passing the mask and the optional limit box (componentwise on keys)
Counted(pixels, mask, useMask, dims, bw, lo, hi, useLimits) ==
    {i \in 1..Len(pixels) : /\ (~useMask \/ mask[i] = 1)
                            /\ (~useLimits \/ (LeqAll(lo, PixelKey(pixels[i], dims, bw)) /\ LeqAll(PixelKey(pixels[i], dims, bw), hi)))}
P_FillCount(pixels, mask, useMask, dims, bw, lo, hi, useLimits, k) ==
    Cardinality({i \in Counted(pixels, mask, useMask, dims, bw, lo, hi, useLimits) : PixelKey(pixels[i], dims, bw) = k})

\* cumulative histogram: sum over all keys componentwise <= k
P_Cumulative(rows, k) == SumSeq([i \in 1..Len(rows) |-> IF LeqAll(KeyOfRow(rows[i]), k) THEN CountOfRow(rows[i]) ELSE 0])
Project(k, axes) == [a \in 1..Len(axes) |-> k[axes[a] + 1]]
P_Marginal(rows, axes, k2) == SumSeq([i \in 1..Len(rows) |-> IF Project(KeyOfRow(rows[i]), axes) = k2 THEN CountOfRow(rows[i]) ELSE 0])
=============================================================================
