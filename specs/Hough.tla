-------------------------------- MODULE Hough --------------------------------
(* Extension X07: the integer part of the Hough transforms                      *)
(* (extension/image_processing/hough_parameter.hpp, hough_transform.hpp).       *)
(*  - hough_parameter<T>: the sample points start + i*step, i < count, and the  *)
(*    two factories that centre such a range on a value;                        *)
(*  - hough_circle_transform_brute: for every radius, centre (x, y) of the      *)
(*    parameter ranges: the number of points of the rasterised circle, moved to *)
(*    that centre, that are edge pixels of the input.  A point that falls       *)
(*    outside the input is not an edge pixel.                                   *)
EXTENDS Integers, Sequences, FiniteSets

Points(p) == [i \in 1..p.count |-> p.start + (i - 1) * p.step]
\* the range is centred on mid: mid is its middle point and the points are symmetric about it
P_Centred(p, mid) == /\ p.count % 2 = 1
                     /\ Points(p)[(p.count + 1) \div 2] = mid
                     /\ \A i \in 1..p.count : Points(p)[i] - mid = mid - Points(p)[p.count + 1 - i]
\* every point lies within the neighbourhood
P_Within(p, mid, n) == \A i \in 1..p.count : mid - n <= Points(p)[i] /\ Points(p)[i] <= mid + n

\* the factories as written, for an integer parameter type (C++ division truncates; all operands here are non-negative)
I_FromStepSize(mid, n, s) == [start |-> mid - s * (((2 * (n \div s) + 1)) \div 2), step |-> s, count |-> 2 * (n \div s) + 1]
I_FromStepCount(mid, n, h) == [start |-> mid - n, step |-> n \div h, count |-> 2 * h + 1]

\* ---- circle voting ------------------------------------------------------------
Inside(w, h, p) == 0 <= p[1] /\ p[1] < w /\ 0 <= p[2] /\ p[2] < h
\* circle: sequence of points of the rasterised circle about the origin (a point listed twice votes twice); set: the edge pixels
P_CircleVotes(w, h, set, circle, cx, cy) ==
    Cardinality({i \in 1..Len(circle) : LET p == <<circle[i][1] + cx, circle[i][2] + cy>> IN Inside(w, h, p) /\ p \in set})
=============================================================================
