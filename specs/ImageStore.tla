----------------------------- MODULE ImageStore -----------------------------
(***************************************************************************)
(* gil::image as a container over an allocator (C10).                      *)
(*                                                                         *)
(* Abstract state                                                          *)
(*   img[h]  : "dead" or a live image [w, h, align, alloc, blk, cap]       *)
(*             blk = id of the block it owns (0 = none), cap = the byte    *)
(*             count it recorded for it                                    *)
(*   heap    : live blocks  id -> [size, alloc]                            *)
(*   elems   : blk -> number of constructed elements living in it          *)
(*   errs    : protocol errors committed so far (double free, free with    *)
(*             wrong size / unequal allocator, destroying unconstructed    *)
(*             elements, leaked block)                                     *)
(* P_ layer: the invariants of the property.  I_ layer: the operations as  *)
(* image.hpp performs them (allocate_, create_view, swap, move_assign,     *)
(* recreate ...), each public call one action, with an allocation failure  *)
(* injectable at every allocation.                                         *)
(***************************************************************************)
EXTENDS GilInt

CONSTANTS Handles, DimSet, AlignSet, AllocSet,
          POCMA, POCS,         \* propagate_on_container_move_assignment / _swap of the allocator type
          Psz                  \* bytes per pixel (interleaved organisation)

VARIABLES img, heap, elems, errs, nextblk, fault, last
vars == <<img, heap, elems, errs, nextblk, fault, last>>

Dead == [st |-> "dead"]
Live(w, h, al, a, b, c) == [st |-> "live", w |-> w, h |-> h, align |-> al, lay |-> al, alloc |-> a, blk |-> b, cap |-> c]
IsLive(x) == img[x].st = "live"
Empty(a, al) == Live(0, 0, al, a, 0, 0)

RowBytes(w, al) == IF al > 0 THEN Align(w * Psz, al) ELSE w * Psz
Needed(w, h, al) == RowBytes(w, al) * h + (IF al > 0 THEN al - 1 ELSE 0)

-----------------------------------------------------------------------------
(* P_ layer                                                                *)
Owned == {img[x].blk : x \in {y \in Handles : IsLive(y) /\ img[y].blk # 0}}
P_NoErrors   == errs = {}
\* every live block is owned by exactly one live image, and an image owns only live blocks
P_NoLeak     == DOMAIN heap = Owned
P_OneBlock   == \A x, y \in Handles : (IsLive(x) /\ IsLive(y) /\ x # y /\ img[x].blk # 0) => img[x].blk # img[y].blk
\* a non-empty image owns a block that is large enough and whose size it recorded
P_Sized      == \A x \in Handles : (IsLive(x) /\ img[x].w * img[x].h > 0) =>
                    /\ img[x].blk \in DOMAIN heap
                    /\ heap[img[x].blk].size = img[x].cap
                    /\ img[x].cap >= Needed(img[x].w, img[x].h, img[x].lay)
\* constructed elements: exactly the pixels of the live images
SumOwnedPixels(b) == LET xs == {x \in Handles : IsLive(x) /\ img[x].blk = b} IN
                     IF xs = {} THEN 0 ELSE LET x == CHOOSE y \in xs : TRUE IN img[x].w * img[x].h
P_ElemBalance == \A b \in DOMAIN heap : elems[b] = SumOwnedPixels(b)

-----------------------------------------------------------------------------
(* I_ layer: primitive steps on a state record s = [img, heap, elems, errs, nextblk]       *)
St == [img |-> img, heap |-> heap, elems |-> elems, errs |-> errs, nextblk |-> nextblk]

Allocate(s, size, a) ==      \* returns <<state, block id>>
    LET b == s.nextblk IN
    <<[s EXCEPT !.heap = [i \in DOMAIN s.heap \cup {b} |-> IF i = b THEN [size |-> size, alloc |-> a] ELSE s.heap[i]],
                !.elems = [i \in DOMAIN s.elems \cup {b} |-> IF i = b THEN 0 ELSE s.elems[i]],
                !.nextblk = b + 1], b>>
Deallocate(s, b, size, a) ==
    IF b = 0 \/ size = 0 THEN s                                   \* image::deallocate: only if _memory && _allocated_bytes > 0
    ELSE IF b \notin DOMAIN s.heap THEN [s EXCEPT !.errs = @ \cup {"double-free"}]
    ELSE LET e1 == IF s.heap[b].size # size THEN {"free-wrong-size"} ELSE {}
             e2 == IF s.heap[b].alloc # a THEN {"free-wrong-allocator"} ELSE {}
             e3 == IF s.elems[b] # 0 THEN {"free-with-live-elements"} ELSE {}
         IN [s EXCEPT !.heap = [i \in DOMAIN s.heap \ {b} |-> s.heap[i]],
                      !.elems = [i \in DOMAIN s.elems \ {b} |-> s.elems[i]],
                      !.errs = @ \cup e1 \cup e2 \cup e3]
Construct(s, b, n) == IF n = 0 \/ b = 0 THEN s ELSE [s EXCEPT !.elems[b] = @ + n]
Destroy(s, b, n) ==
    IF n = 0 THEN s
    ELSE IF b \notin DOMAIN s.heap \/ s.elems[b] < n THEN [s EXCEPT !.errs = @ \cup {"destroy-unconstructed"}]
    ELSE [s EXCEPT !.elems[b] = @ - n]
SetImg(s, x, v) == [s EXCEPT !.img[x] = v]

\* image(dims, alignment, alloc): allocate_ + construct.  zero-area: allocate_ returns early and
\* leaves a default (0x0) view  (ZeroAreaKeepsDims = FALSE is the code's behaviour)
ZeroAreaKeepsDims == TRUE        \* FALSE reproduces the pre-fix behaviour (dimensions silently become 0x0)
MoveAssignRepaired == TRUE       \* FALSE reproduces the pre-fix move_assign for unequal non-propagating allocators
I_Create(s, x, w, h, al, a) ==
    LET size == Needed(w, h, al) IN
    IF size = 0 THEN SetImg(s, x, IF ZeroAreaKeepsDims THEN Live(w, h, al, a, 0, 0) ELSE Live(0, 0, al, a, 0, 0))
    ELSE LET r == Allocate(s, size, a) IN SetImg(Construct(r[1], r[2], w * h), x, Live(w, h, al, a, r[2], size))
\* ~image(): destruct_pixels + deallocate
I_Destroy(s, x) ==
    LET v == s.img[x] IN SetImg(Deallocate(Destroy(s, v.blk, v.w * v.h), v.blk, v.cap, v.alloc), x, Dead)
\* member swap: everything, allocator only if POCS (otherwise they must be equal: precondition)
I_SwapVals(v1, v2) ==
    <<[v2 EXCEPT !.alloc = IF POCS THEN v2.alloc ELSE v1.alloc], [v1 EXCEPT !.alloc = IF POCS THEN v1.alloc ELSE v2.alloc]>>
T == 0     \* scratch handle for the temporaries image.hpp creates (always dead between public calls)

I_CopyOf(s, x, y) == LET v == s.img[y] IN I_Create(s, x, v.w, v.h, v.align, v.alloc)      \* image(const image&)
I_SwapWith(s, x, y) == LET r == I_SwapVals(s.img[x], s.img[y]) IN SetImg(SetImg(s, x, r[1]), y, r[2])

\* x = y (copy assignment)
I_CopyAssign(s, x, y) ==
    IF s.img[x].w = s.img[y].w /\ s.img[x].h = s.img[y].h THEN s                      \* copy_pixels
    ELSE I_Destroy(I_SwapWith(I_CopyOf(s, T, y), x, T), T)

\* image(image&&)
I_MoveCtor(s, x, y) ==
    LET v == s.img[y] IN SetImg(SetImg(s, x, v), y, [Empty(v.alloc, 0) EXCEPT !.lay = 0])

I_ExchangeMemory(s, x, y) ==      \* lhs takes memory/align/cap/view of rhs; rhs becomes empty
    LET v == s.img[y] u == s.img[x] IN
    SetImg(SetImg(s, x, [v EXCEPT !.alloc = u.alloc]), y, [Empty(v.alloc, 0) EXCEPT !.lay = 0])

\* x = std::move(y), x # y
I_MoveAssign(s, x, y) ==
    LET u == s.img[x] v == s.img[y] IN
    IF POCMA \/ u.alloc = v.alloc
    THEN LET s1 == Deallocate(Destroy(s, u.blk, u.w * u.h), u.blk, u.cap, u.alloc)
             s2 == SetImg(s1, x, [u EXCEPT !.alloc = IF POCMA THEN v.alloc ELSE u.alloc, !.blk = 0, !.cap = 0, !.w = 0, !.h = 0])
         IN I_ExchangeMemory(s2, x, y)
    ELSE IF MoveAssignRepaired
    THEN \* release own storage, copy with own allocator, release the source
         LET s1 == Deallocate(Destroy(s, u.blk, u.w * u.h), u.blk, u.cap, u.alloc)
             s2 == I_Create(SetImg(s1, x, Dead), x, v.w, v.h, u.align, u.alloc)
             s3 == Deallocate(Destroy(s2, v.blk, v.w * v.h), v.blk, v.cap, v.alloc)
         IN SetImg(s3, y, [v EXCEPT !.w = 0, !.h = 0, !.blk = 0, !.cap = 0])
    ELSE IF v.blk # 0
    THEN \* allocate_and_copy into *this without releasing the old block; source keeps _memory after deallocate
         LET r  == Allocate(s, Needed(v.w, v.h, u.align), u.alloc)
             s2 == SetImg(Construct(r[1], r[2], v.w * v.h), x, [u EXCEPT !.w = v.w, !.h = v.h, !.blk = r[2], !.cap = Needed(v.w, v.h, u.align)])
             s3 == Deallocate(Destroy(s2, v.blk, v.w * v.h), v.blk, v.cap, v.alloc)
         IN SetImg(s3, y, [v EXCEPT !.w = 0, !.h = 0])
    ELSE LET s1 == Deallocate(Destroy(s, u.blk, u.w * u.h), u.blk, u.cap, u.alloc)
         IN SetImg(s1, x, [u EXCEPT !.w = 0, !.h = 0])

\* recreate(dims, alignment [, alloc]) ; a = allocator of the temporary (0 = default constructed Alloc())
I_Recreate(s, x, w, h, al, a, withAlloc) ==
    LET u == s.img[x] IN
    IF u.w = w /\ u.h = h /\ u.align = al /\ (~withAlloc \/ a = u.alloc) THEN s
    ELSE LET s0 == SetImg(s, x, [u EXCEPT !.align = al]) IN
         IF u.cap >= Needed(w, h, al)
         THEN LET s1 == Construct(Destroy(s0, u.blk, u.w * u.h), u.blk, w * h)
              IN SetImg(s1, x, [s0.img[x] EXCEPT !.w = w, !.h = h, !.lay = al])
         ELSE I_Destroy(I_SwapWith(I_Create(s0, T, w, h, al, a), x, T), T)
\* the same call when the allocation of the temporary fails: _align_in_bytes is already overwritten
\* a recreate whose allocation throws leaves the image as it was, including the recorded alignment (the pinned tree recorded the
\* requested alignment before allocating, so that a later recreate with the same arguments returned early without realigning: fixed)
I_RecreateFailed(s, x, al) == s
\* an element constructor throws while the pixels are rebuilt in the image's own storage: the old pixels are gone, none is alive;
\* the image holds no pixels and keeps its block (and records the requested alignment)
I_RecreateCtorFailedInPlace(s, x, al) ==
    LET u == s.img[x] IN SetImg(Destroy(s, u.blk, u.w * u.h), x, [u EXCEPT !.w = 0, !.h = 0, !.align = al, !.lay = al])
I_RecreateDoesSomething(s, x, w, h, al, a, withAlloc) ==
    LET u == s.img[x] IN ~(u.w = w /\ u.h = h /\ u.align = al /\ (~withAlloc \/ a = u.alloc))
I_RecreateAllocates(s, x, w, h, al, a, withAlloc) ==
    LET u == s.img[x] IN
    ~(u.w = w /\ u.h = h /\ u.align = al /\ (~withAlloc \/ a = u.alloc)) /\ u.cap < Needed(w, h, al) /\ Needed(w, h, al) > 0

Put(s) == /\ img' = s.img /\ heap' = s.heap /\ elems' = s.elems /\ errs' = s.errs /\ nextblk' = s.nextblk
=============================================================================
