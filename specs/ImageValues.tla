---------------------------- MODULE ImageValues ----------------------------
(* A small state machine over one image on top of ImageValuesBase: fills      *)
(* compose, dimensions follow the last effective call.                         *)
EXTENDS ImageValuesBase
\* ---- a small state machine over one image, for TLC: fills compose, dimensions follow the last effective call -------------
CONSTANTS Dims, Aligns, Fills
VARIABLES im
Init == \E d \in Dims, al \in Aligns, f \in Fills : im = P_CtorFill(d[1], d[2], al, f)
Recreate == \E d \in Dims, al \in Aligns, f \in Fills : im' = P_RecreateFill(im, d[1], d[2], al, f)
Next == Recreate
Spec == Init /\ [][Next]_im
\* the image is always uniformly filled and has as many pixels as its dimensions say
Inv_Uniform == Len(im.px) = im.w * im.h /\ \A i, j \in 1..Len(im.px) : im.px[i] = im.px[j]
\* a call that is not the early return leaves only the new fill value
Act_FillWins == [][\A i \in 1..Len(im'.px) : im' # im => im'.px[i] \in Fills]_im
=============================================================================
