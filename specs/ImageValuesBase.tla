---------------------------- MODULE ImageValuesBase --------------------------
(* Extension X03: what an image HOLDS after being built or recreated with a   *)
(* fill value (image.hpp: image(dims, pixel, alignment), recreate(dims, pixel,*)
(* alignment); algorithm.hpp: uninitialized_fill_pixels).  ImageStore.tla      *)
(* models who owns which block and which elements are alive; this module adds  *)
(* the pixel VALUES for the calls whose result is fully determined.            *)
(* An image value is <<w, h, al, px>> with px the row-major sequence of pixels *)
(* (each a sequence of nc channel values in colour order).                     *)
EXTENDS Naturals, Sequences, FiniteSets

Img(w, h, al, px) == [w |-> w, h |-> h, al |-> al, px |-> px]
AllOf(n, fv) == [i \in 1..n |-> fv]

\* construction with a fill value: requested dimensions, every pixel is the fill value
P_CtorFill(w, h, al, fv) == Img(w, h, al, AllOf(w * h, fv))

\* recreate with a fill value: a call that asks for the dimensions and alignment the image already has changes nothing
\* (the documented early return); every other call yields the requested dimensions with every pixel equal to the fill value,
\* whether the storage is reused or replaced
P_RecreateFill(im, w, h, al, fv) ==
    IF im.w = w /\ im.h = h /\ im.al = al THEN im ELSE Img(w, h, al, AllOf(w * h, fv))

=============================================================================
