-------------------------------- MODULE IoPaths --------------------------------
(***************************************************************************)
(* All ways of reading one file agree (C13).  The canonical image of a     *)
(* file is what a full native read_image produces; every other read path   *)
(* is a function of it.                                                    *)
(***************************************************************************)
EXTENDS GilInt
\* images: row-major sequence of pixels, width w
Crop(pix, W, x, y, w, h) == [i \in 1..(w * h) |-> pix[(y + (i - 1) \div w) * W + x + ((i - 1) % w) + 1]]
=============================================================================
