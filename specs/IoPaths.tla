-------------------------------- MODULE IoPaths --------------------------------
(***************************************************************************)
(* All ways of reading one file agree (C13).  The canonical image of a     *)
(* file is what a full native read_image produces; every other read path   *)
(* is a function of it.                                                    *)
(***************************************************************************)
EXTENDS GilInt
\* images: row-major sequence of pixels, width w
\* a read region <<x, y, w, h>> (w = 0 / h = 0: "up to the full width / height") lies inside a W x H image
RegionDims(W, H, w, h) == <<IF w = 0 THEN W ELSE w, IF h = 0 THEN H ELSE h>>
P_RegionInside(W, H, x, y, w, h) == LET d == RegionDims(W, H, w, h) IN x >= 0 /\ y >= 0 /\ w >= 0 /\ h >= 0 /\ x + d[1] <= W /\ y + d[2] <= H
Crop(pix, W, x, y, w, h) == [i \in 1..(w * h) |-> pix[(y + (i - 1) \div w) * W + x + ((i - 1) % w) + 1]]
=============================================================================
