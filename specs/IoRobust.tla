-------------------------------- MODULE IoRobust --------------------------------
(***************************************************************************)
(* Reading untrusted bytes (C11).  The file is a byte sequence; from its   *)
(* first bytes the specification derives what the header DECLARES          *)
(* (dimensions, depth, compression, palette) and how many bytes a reader   *)
(* needs to decode all pixels of the uncompressed variants.  P_: a reader  *)
(* call ends by returning or throwing; a file too short for what it        *)
(* declares is rejected.                                                   *)
(***************************************************************************)
EXTENDS GilInt, IoRoundTrip

Byte(h, i) == IF i + 1 <= Len(h) THEN h[i + 1] ELSE 0                 \* 0-based offset
U16(h, i) == Byte(h, i) + 256 * Byte(h, i + 1)
\* 32-bit little-endian fields are compared through their 16-bit halves (TLC integers are 32-bit)
U32Small(h, i) == Byte(h, i + 3) = 0 /\ Byte(h, i + 2) < 64         \* value < 2^22
U32(h, i) == U16(h, i) + 65536 * U16(h, i + 2)                        \* only when U32Small
BE32Small(h, i) == Byte(h, i) = 0 /\ Byte(h, i + 1) < 64
BE32(h, i) == Byte(h, i + 3) + 256 * Byte(h, i + 2) + 65536 * Byte(h, i + 1)

\* ------------------------------------------------------------------ BMP
BmpBpp(h) == U16(h, 28)
BmpCompression(h) == U16(h, 30)
BmpDimsSmall(h) == U32Small(h, 18) /\ U32Small(h, 22) /\ U32Small(h, 10)
BmpIsPlainTrueColour(h) == Byte(h, 0) = 66 /\ Byte(h, 1) = 77 /\ U32Small(h, 14) /\ U32(h, 14) = 40 /\ BmpBpp(h) \in {24, 32} /\ BmpCompression(h) = 0 /\ Byte(h, 32) = 0 /\ Byte(h, 33) = 0
BmpNeeded(h) == U32(h, 10) + BmpPitch(U32(h, 18), BmpBpp(h) \div 8) * U32(h, 22)
\* a BMP whose header is consistent with itself and with the file length (uncompressed, bottom-up, small): a reader has no excuse on it
BmpBitsPerPixel(h) == IF BmpBpp(h) = 15 THEN 16 ELSE BmpBpp(h)
BmpRowBytes(h) == ((U32(h, 18) * BmpBitsPerPixel(h) + 31) \div 32) * 4
BmpPaletteBytes(h) == IF BmpBpp(h) <= 8 THEN 4 * Pow2(BmpBpp(h)) ELSE 0
BmpSane(h, len) ==
    /\ Byte(h, 0) = 66 /\ Byte(h, 1) = 77 /\ U32Small(h, 14) /\ U32(h, 14) = 40
    /\ BmpBpp(h) \in {1, 4, 8, 15, 16, 24, 32} /\ BmpCompression(h) = 0 /\ Byte(h, 32) = 0 /\ Byte(h, 33) = 0
    /\ BmpDimsSmall(h) /\ U32(h, 18) >= 1 /\ U32(h, 18) < 256 /\ U32(h, 22) >= 1 /\ U32(h, 22) < 256
    /\ (BmpBpp(h) <= 8 => (U16(h, 48) = 0 /\ U16(h, 46) \in {0, Pow2(BmpBpp(h))}))
    /\ U32(h, 10) >= 54 + BmpPaletteBytes(h) /\ U32(h, 10) < 4096
    /\ len >= U32(h, 10) + BmpRowBytes(h) * U32(h, 22)
\* ------------------------------------------------------------------ TARGA
TgaType(h) == Byte(h, 2)
TgaIsRawTrueColour(h) == TgaType(h) = 2 /\ Byte(h, 1) = 0 /\ Byte(h, 16) \in {24, 32}
TgaNeeded(h) == 18 + Byte(h, 0) + U16(h, 12) * U16(h, 14) * (Byte(h, 16) \div 8)
\* ------------------------------------------------------------------ PNM (binary P5 / P6 written with single separators)
IsDigit(b) == b >= 48 /\ b <= 57
IsSpace(b) == b \in {9, 10, 13, 32}
RECURSIVE TokEnd(_, _)
TokEnd(h, i) == IF i + 1 > Len(h) \/ ~IsDigit(Byte(h, i)) THEN i ELSE TokEnd(h, i + 1)          \* first offset after a digit run
RECURSIVE NumVal(_, _, _)
NumVal(h, i, j) == IF i >= j THEN 0 ELSE IF j - i > 6 THEN 9999999 ELSE (Byte(h, j - 1) - 48) + 10 * NumVal(h, i, j - 1)
PnmSimple(h) ==      \* "P5 w h 255 " with single whitespace separators and no comments
    LET a == 3 b == TokEnd(h, a) c == b + 1 d == TokEnd(h, c) e == d + 1 f == TokEnd(h, e) IN
    /\ Byte(h, 0) = 80 /\ Byte(h, 1) \in {53, 54} /\ IsSpace(Byte(h, 2))
    /\ b > a /\ IsSpace(Byte(h, b)) /\ d > c /\ IsSpace(Byte(h, d)) /\ f > e /\ IsSpace(Byte(h, f)) /\ f + 1 <= Len(h)
    /\ NumVal(h, e, f) = 255
PnmNeeded(h) ==
    LET a == 3 b == TokEnd(h, a) c == b + 1 d == TokEnd(h, c) e == d + 1 f == TokEnd(h, e) IN
    f + 1 + NumVal(h, a, b) * NumVal(h, c, d) * (IF Byte(h, 1) = 53 THEN 1 ELSE 3)
PnmDimsSmall(h) == LET a == 3 b == TokEnd(h, a) c == b + 1 d == TokEnd(h, c) IN b - a <= 4 /\ d - c <= 4
\* a decimal token longer than the reader's 16-byte text buffer
RECURSIVE LongestDigitRun(_, _, _, _)
LongestDigitRun(h, i, curr, best) == IF i + 1 > Len(h) THEN Max2(curr, best)
                                    ELSE IF IsDigit(Byte(h, i)) THEN LongestDigitRun(h, i + 1, curr + 1, best) ELSE LongestDigitRun(h, i + 1, 0, Max2(curr, best))
\* ------------------------------------------------------------------ declared pixel count is "large" (time proportional to it is allowed)
DeclaredHuge(fmt, h) ==
    CASE fmt = "bmp" -> ~(U32Small(h, 18) /\ U32Small(h, 22)) \/ U32(h, 18) * (U32(h, 22) \div 1024 + 1) > 4096
      [] fmt = "tga" -> U16(h, 12) * (U16(h, 14) \div 1024 + 1) > 4096
      [] fmt = "png" -> ~(BE32Small(h, 16) /\ BE32Small(h, 20)) \/ BE32(h, 16) * (BE32(h, 20) \div 1024 + 1) > 4096
      [] fmt = "pnm" -> LongestDigitRun(h, 0, 0, 0) > 4
      [] OTHER -> FALSE

\* too short for what an uncompressed true-colour / binary file declares: every pixel-reading call must throw
P_TooShort(fmt, h, len) ==
    CASE fmt = "bmp" -> BmpIsPlainTrueColour(h) /\ BmpDimsSmall(h) /\ U32(h, 18) >= 1 /\ U32(h, 22) >= 1 /\ U32(h, 18) < 256 /\ U32(h, 22) < 256 /\ U32(h, 10) < 4096 /\ len < BmpNeeded(h)
      [] fmt = "tga" -> TgaIsRawTrueColour(h) /\ U16(h, 12) >= 1 /\ U16(h, 14) >= 1 /\ U16(h, 12) < 256 /\ U16(h, 14) < 256 /\ len < TgaNeeded(h)
      [] fmt = "pnm" -> PnmSimple(h) /\ PnmDimsSmall(h) /\ len < PnmNeeded(h)
      [] OTHER -> FALSE

\* families of inputs for which the pinned readers are known to be unsafe (specification-level causes)
PnmZeroDim(h) == LET a == 3 b == TokEnd(h, a) c == b + 1 d == TokEnd(h, c) IN
                 Byte(h, 0) = 80 /\ IsSpace(Byte(h, 2)) /\ b > a /\ d > c /\ (NumVal(h, a, b) = 0 \/ NumVal(h, c, d) = 0)
Cause(fmt, h, api, len) ==
    CASE fmt = "bmp" /\ BmpSane(h, len) -> "None"
      [] fmt = "pnm" /\ LongestDigitRun(h, 0, 0, 0) > 15 -> "pnm-token-longer-than-buffer"
      [] fmt = "pnm" /\ PnmZeroDim(h) -> "zero-dimension"
      [] fmt = "jpg" -> "jpeg-error-path"
      [] fmt = "tga" /\ TgaType(h) \in {9, 10, 11} -> "targa-rle"
      [] fmt = "tga" -> "targa-header-trusted"
      [] fmt = "bmp" /\ BmpCompression(h) \in {1, 2} -> "bmp-rle"
      [] fmt = "bmp" /\ BmpBpp(h) \in {1, 4, 8} -> "bmp-palette"
      [] fmt = "bmp" -> "bmp-header-trusted"
      [] fmt = "png" /\ api = "scanline_reader" -> "png-scanline-reader"
      [] fmt = "png" -> "png-libpng-error-path"
      [] OTHER -> "None"
=============================================================================
