------------------------------ MODULE IoRoundTrip ------------------------------
(***************************************************************************)
(* Writing a view and reading it back (C12).                               *)
(* P_: read(write(view)) = view for the lossless formats, bounded          *)
(* difference for JPEG.  I_: byte-exact encoders of the formats GIL        *)
(* writes itself (BMP 24/32 bpp, binary PNM P5/P6) and the matching        *)
(* decoders, so that TLC can check Decode(Encode(img)) = img for every     *)
(* padding residue, and recorded files can be compared with the model.     *)
(***************************************************************************)
EXTENDS GilInt

\* little-endian bytes of a 32/16-bit value
LE32(v) == <<v % 256, (v \div 256) % 256, (v \div 65536) % 256, (v \div 16777216) % 256>>
LE16(v) == <<v % 256, (v \div 256) % 256>>
Zeros(n) == [i \in 1..n |-> 0]
RECURSIVE Flatten(_)
Flatten(ss) == IF ss = <<>> THEN <<>> ELSE Head(ss) \o Flatten(Tail(ss))

\* img: sequence (row-major) of pixels, each a sequence of channels in colour order (r,g,b[,a])
PixAt(img, w, x, y) == img[y * w + x + 1]
BmpPitch(w, nch) == ((w * nch + 3) \div 4) * 4
I_BmpEncode(img, w, h, nch) ==
    LET pitch == BmpPitch(w, nch) data == pitch * h
        row(y) == Flatten([x \in 1..w |-> LET p == PixAt(img, w, x - 1, y) IN
                                          IF nch = 3 THEN <<p[3], p[2], p[1]>> ELSE <<p[3], p[2], p[1], p[4]>>]) \o Zeros(pitch - w * nch)
    IN <<66, 77>> \o LE32(54 + data) \o LE16(0) \o LE16(0) \o LE32(54)
       \o LE32(40) \o LE32(w) \o LE32(h) \o LE16(1) \o LE16(8 * nch) \o LE32(0) \o LE32(0) \o LE32(0) \o LE32(0) \o LE32(0) \o LE32(0)
       \o Flatten([k \in 1..h |-> row(h - k)])                          \* rows bottom-up
I_BmpDecode(bytes, w, h, nch) ==
    LET pitch == BmpPitch(w, nch) off == 54 IN
    [i \in 1..(w * h) |-> LET x == (i - 1) % w y == (i - 1) \div w base == off + (h - 1 - y) * pitch + nch * x IN
        IF nch = 3 THEN <<bytes[base + 3], bytes[base + 2], bytes[base + 1]>> ELSE <<bytes[base + 3], bytes[base + 2], bytes[base + 1], bytes[base + 4]>>]

RECURSIVE Digits(_)
Digits(n) == IF n < 10 THEN <<48 + n>> ELSE Digits(n \div 10) \o <<48 + (n % 10)>>
\* binary PNM as GIL writes it: "P5 " / "P6 ", width, space, height, space, "255 ", raw samples
I_PnmEncode(img, w, h, nch) ==
    <<80, IF nch = 1 THEN 53 ELSE 54, 32>> \o Digits(w) \o <<32>> \o Digits(h) \o <<32>> \o Digits(255) \o <<32>> \o Flatten(img)
=============================================================================
