----------------------------- MODULE MC_Channel -----------------------------
(***************************************************************************)
(* Design-level model checking of Channel.tla: the implementation-shaped   *)
(* converter / multiplier / inverter (I_ layer) is run as a scanning state *)
(* machine over every source value of every ordered pair of models, and    *)
(* the property layer (P_) is checked in every state:  I => P  on the      *)
(* bound.  Monotonicity is an action property of the scan.                 *)
(***************************************************************************)
EXTENDS Channel, TLC

CONSTANTS MaxBitsAll,     \* every ordered pair of bit widths 1..MaxBitsAll is scanned
          ExtraPairs,     \* further <<sbits, dbits>> pairs (e.g. 16-bit ones)
          MaxMulBits      \* multiply: all (a,b) for widths 1..MaxMulBits

ExtraQuick == {<<16,8>>, <<8,16>>, <<5,16>>, <<16,5>>, <<12,16>>, <<16,12>>, <<15,16>>, <<16,15>>, <<16,16>>}
ExtraNone  == {}

VARIABLES mode,           \* "conv" | "mul"
          sb, db,         \* source / destination bits (mul: sb = db = width)
          nat,            \* mul: flavour of the multiplier (div255 / exact / generic)
          v, out, back,   \* conv: source value, result, result converted back
          a, b, r         \* mul: operands and result
vars == <<mode, sb, db, nat, v, out, back, a, b, r>>

W(bits) == IF bits <= 8 THEN 8 ELSE IF bits <= 16 THEN 16 ELSE 32
Rg(bits) == Pow2(bits) - 1
ConvSet(s, d, x) == I_ConvR(I_ConvPathR(Rg(s), Rg(d), s = d), Rg(s), Rg(d), W(d), x)

Pairs == {<<s, d>> : s \in 1..MaxBitsAll, d \in 1..MaxBitsAll} \cup ExtraPairs

InitConv == /\ mode = "conv" /\ \E p \in Pairs : sb = p[1] /\ db = p[2]
            /\ nat = "none" /\ v = 0
            /\ out \in ConvSet(sb, db, 0)
            /\ back \in ConvSet(db, sb, out)
            /\ a = 0 /\ b = 0 /\ r = 0
InitMul  == /\ mode = "mul" /\ sb \in 1..MaxMulBits /\ db = sb
            /\ nat \in (IF sb = 8 THEN {"div255", "generic"} ELSE {"generic", "exact"})
            /\ v = 0 /\ out = 0 /\ back = 0
            /\ a = 0 /\ b = 0 /\ r \in I_MulSet(nat, Rg(sb), 0, 0)
Init == InitConv \/ InitMul

ScanConv == /\ mode = "conv" /\ v < Rg(sb)
            /\ v' = v + 1
            /\ out' \in ConvSet(sb, db, v + 1)
            /\ back' \in ConvSet(db, sb, out')
            /\ UNCHANGED <<mode, sb, db, nat, a, b, r>>
ScanMulB == /\ mode = "mul" /\ b < Rg(sb)
            /\ b' = b + 1 /\ r' \in I_MulSet(nat, Rg(sb), a, b + 1)
            /\ UNCHANGED <<mode, sb, db, nat, v, out, back, a>>
ScanMulA == /\ mode = "mul" /\ a < Rg(sb)
            /\ a' = a + 1 /\ r' \in I_MulSet(nat, Rg(sb), a + 1, b)
            /\ UNCHANGED <<mode, sb, db, nat, v, out, back, b>>
Next == ScanConv \/ ScanMulB \/ ScanMulA
Spec == Init /\ [][Next]_vars

-----------------------------------------------------------------------------
IsConv == mode = "conv"
IsMul  == mode = "mul"
Inv_ConvInRange == IsConv => (out >= 0 /\ out <= Rg(db))
Inv_ConvNear    == IsConv => P_ConvNearR(Rg(sb), Rg(db), v, out)
Inv_ConvMin     == (IsConv /\ v = 0) => out = 0
Inv_ConvMax     == (IsConv /\ v = Rg(sb)) => out = Rg(db)
Inv_ConvIdent   == (IsConv /\ sb = db) => out = v
Inv_ConvRoundTrip == (IsConv /\ Rg(db) >= Rg(sb)) => back = v
Inv_MulInRange  == IsMul => (r >= 0 /\ r <= Rg(sb))
Inv_MulNear     == IsMul => P_MulNearR(Rg(sb), a, b, r)
Inv_MulCommut   == IsMul => (r \in I_MulSet(nat, Rg(sb), b, a) /\ I_MulSet(nat, Rg(sb), a, b) = I_MulSet(nat, Rg(sb), b, a))
Inv_MulIdentity == IsMul => ((b = Rg(sb) => r = a) /\ (a = Rg(sb) => r = b) /\ ((a = 0 \/ b = 0) => r = 0))
Inv_Invert      == IsConv => (P_Invert([bits |-> sb], P_Invert([bits |-> sb], v)) = v
                              /\ P_Invert([bits |-> sb], v) \in 0..Rg(sb))
\* monotone scans (the nondeterministic tie of the double path may not break order either)
Act_Monotone == [][(IsConv => out' >= out) /\ (IsMul => r' >= r)]_vars
=============================================================================
