SPECIFICATION Spec
CONSTANTS
  MaxBitsAll = 16
  ExtraPairs <- ExtraNone
  MaxMulBits = 10
INVARIANTS Inv_ConvInRange Inv_ConvNear Inv_ConvMin Inv_ConvMax Inv_ConvIdent Inv_ConvRoundTrip
  Inv_MulInRange Inv_MulNear Inv_MulCommut Inv_MulIdentity Inv_Invert
PROPERTY Act_Monotone
CHECK_DEADLOCK FALSE
