----------------------------- MODULE MC_ColorBase -----------------------------
(* every ordered pair of channel mappings of 1..N channels with distinct channel  *)
(* values: converting construction pairs channels by colour (I => P), composes,   *)
(* and round-trips.                                                               *)
EXTENDS ColorBase, TLC
CONSTANT MaxN
VARIABLES smap, dmap, tmap, done
vars == <<smap, dmap, tmap, done>>
Perms(n) == {m \in [1..n -> 1..n] : IsPerm(m)}
Init == \E n \in 1..MaxN : smap \in Perms(n) /\ dmap \in Perms(n) /\ tmap \in Perms(n) /\ done = FALSE
Next == ~done /\ done' = TRUE /\ UNCHANGED <<smap, dmap, tmap>>
Spec == Init /\ [][Next]_vars
Vals(n) == [k \in 1..n |-> 10 * k]
Inv_Construct == LET n == Len(smap) IN P_Assigned(smap, Vals(n), dmap, I_Construct(smap, Vals(n), dmap))
Inv_Compose   == LET n == Len(smap) mid == I_Construct(smap, Vals(n), dmap) IN
                 I_Construct(dmap, mid, tmap) = I_Construct(smap, Vals(n), tmap)
Inv_RoundTrip == LET n == Len(smap) IN I_Construct(dmap, I_Construct(smap, Vals(n), dmap), smap) = Vals(n)
=============================================================================
