SPECIFICATION Spec
CONSTANTS
  MaxN = 4
INVARIANTS Inv_Construct Inv_Compose Inv_RoundTrip
CHECK_DEADLOCK FALSE
