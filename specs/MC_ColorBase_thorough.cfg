SPECIFICATION Spec
CONSTANTS
  MaxN = 5
INVARIANTS Inv_Construct Inv_Compose Inv_RoundTrip
CHECK_DEADLOCK FALSE
