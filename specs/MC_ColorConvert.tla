---------------------------- MODULE MC_ColorConvert ----------------------------
(* Scanning machine over rgb8 triples: r,g on a lattice (every value in the      *)
(* thorough tier's sub-lattice), b scanned 0..255.  In every state the           *)
(* implementation-shaped arithmetic satisfies the property layer.                *)
EXTENDS ColorConvert, TLC
CONSTANT Step
VARIABLES r, g, b, c, m, y
vars == <<r, g, b, c, m, y>>
Lattice == {v \in 0..255 : v % Step = 0} \cup {255, 254, 1, 127, 128}
K == I_K(r, g, b)
Init == /\ r \in Lattice /\ g \in Lattice /\ b = 0
        /\ c \in I_Cmyk8Chan(255 - r, I_K(r, g, 0)) /\ m \in I_Cmyk8Chan(255 - g, I_K(r, g, 0)) /\ y \in I_Cmyk8Chan(255, I_K(r, g, 0))
Next == /\ b < 255 /\ b' = b + 1 /\ UNCHANGED <<r, g>>
        /\ c' \in I_Cmyk8Chan(255 - r, I_K(r, g, b + 1)) /\ m' \in I_Cmyk8Chan(255 - g, I_K(r, g, b + 1))
        /\ y' \in I_Cmyk8Chan(255 - (b + 1), I_K(r, g, b + 1))
Spec == Init /\ [][Next]_vars
Inv_LumRange == P_InRange8(I_Lum8(r, g, b))
Inv_LumNear  == P_LumNear(r, g, b, I_Lum8(r, g, b))
Inv_LumGray  == (r = g /\ g = b) => I_Lum8(r, g, b) = r
Inv_LumMono  == /\ (r < 255 => I_Lum8(r + 1, g, b) >= I_Lum8(r, g, b))
                /\ (g < 255 => I_Lum8(r, g + 1, b) >= I_Lum8(r, g, b))
                /\ (b < 255 => I_Lum8(r, g, b + 1) >= I_Lum8(r, g, b))
Inv_CmykRange == P_InRange8(c) /\ P_InRange8(m) /\ P_InRange8(y)
Inv_RoundTrip == /\ P_Within1(I_FromCmyk8(c, K), r) /\ P_Within1(I_FromCmyk8(m, K), g) /\ P_Within1(I_FromCmyk8(y, K), b)
Inv_Neutrals  == /\ ((r = 0 /\ g = 0 /\ b = 0) => (K = 255 /\ c = 0 /\ m = 0 /\ y = 0))
                 /\ ((r = 255 /\ g = 255 /\ b = 255) => (K = 0 /\ c = 0 /\ m = 0 /\ y = 0))
=============================================================================
