SPECIFICATION Spec
CONSTANTS
  Step = 3
INVARIANTS Inv_LumRange Inv_LumNear Inv_LumGray Inv_LumMono Inv_CmykRange Inv_RoundTrip Inv_Neutrals
CHECK_DEADLOCK FALSE
