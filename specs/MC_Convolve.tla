----------------------------- MODULE MC_Convolve -----------------------------
(* all widths 0..MaxW, kernel sizes 1..MaxK with every centre, five options,    *)
(* rows over a small value alphabet: the implementation-shaped row machine      *)
(* equals the textbook sum with its boundary policy (I => P).                   *)
EXTENDS Convolve, TLC
CONSTANTS MaxW, MaxK, Vals, KVals
Opts == {"extend_zero", "extend_constant", "extend_padded", "output_zero", "output_ignore"}
VARIABLES row, ker, c, opt
vars == <<row, ker, c, opt>>
Rows(w) == [1..w -> Vals]
Init == /\ \E w \in 0..MaxW : row \in Rows(w)
        /\ \E K \in 1..MaxK : ker \in [1..K -> KVals] /\ c \in 0..(K - 1)
        /\ opt \in Opts
Next == UNCHANGED vars
Spec == Init /\ [][Next]_vars
\* padding for extend_padded: a deterministic pattern left and right of the row
PadL == [i \in 1..c |-> 7 + i]
PadR == [i \in 1..(Len(ker) - 1 - c) |-> 11 + 2 * i]
PadRow == PadL \o row \o PadR
PadRec == [big |-> <<PadRow>>, ox |-> c, oy |-> 0]
Dst0 == [i \in 1..Len(row) |-> 100 + i]
Inv_RowEqualsSum == Len(row) > 0 =>
    I_CorrRow(row, ker, c, opt, PadRow, Dst0) = P_CorrRows(<<row>>, ker, c, opt, PadRec, <<Dst0>>)[1]
Inv_ReverseTwice == LET r == I_ReverseKernel(ker, c) IN I_ReverseKernel(r[1], r[2]) = <<ker, c>>
\* box_filter's two passes equal the 2-D window sum (three-row image grown from the row; the kernel's length and centre are used)
Img3 == <<row, [i \in 1..Len(row) |-> (row[i] + i) % 3], [i \in 1..Len(row) |-> row[Len(row) + 1 - i]]>>
Dst3 == <<Dst0, Dst0, Dst0>>
Inv_BoxIsWindowSum == (Len(row) > 0 /\ opt \in {"extend_zero", "extend_constant", "output_zero"}) =>
    P_BoxFilter(Img3, Len(ker), c, opt, [big |-> <<>>, ox |-> 0, oy |-> 0], Dst3) = P_BoxWindowSum(Img3, Len(ker), c, opt)
=============================================================================
