SPECIFICATION Spec
CONSTANTS
  MaxW = 4
  MaxK = 3
  Vals = {0, 1, 2}
  KVals = {1, 2}
INVARIANTS Inv_RowEqualsSum Inv_ReverseTwice Inv_BoxIsWindowSum
CHECK_DEADLOCK FALSE
