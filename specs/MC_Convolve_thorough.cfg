SPECIFICATION Spec
CONSTANTS
  MaxW = 5
  MaxK = 4
  Vals = {0, 1, 2}
  KVals = {1, 2}
INVARIANTS Inv_RowEqualsSum Inv_ReverseTwice Inv_BoxIsWindowSum
CHECK_DEADLOCK FALSE
