---------------------------- MODULE MC_DynImage ----------------------------
(* Model checking of DynImage.tla (C14).                                         *)
(*  - the state machine of any_image / any_image_view variables: every reachable *)
(*    state over two image variables, two view variables, the tags / dimensions  *)
(*    / values of the configuration (VIEW: the abstract state only, so that the  *)
(*    history variables do not multiply states);                                 *)
(*  - Part A theorems over every grid up to the bound (ASSUME: evaluated once):  *)
(*    the transformation algebra on grids, write-through coverage, the          *)
(*    compatibility relation, copy/equal/resample consistency.                   *)
(* The same module is the history generator (Export_DynImage): nops / hist.      *)
EXTENDS DynImage
CONSTANTS MaxOps
VARIABLES nops, hist, pend
mvars == <<vars, nops, hist, pend>>

MCClassOf == <<1, 2, 2, 2, 3, 4, 5>>        \* gray8 | rgb8, rgb8 planar, bgr8 | rgba8 | rgb16 | cmyk8
MCDimsSmall == {<<1, 1>>, <<2, 1>>}
MCDims == {<<0, 0>>, <<1, 1>>, <<2, 1>>, <<1, 2>>}
MCDimsBig == {<<0, 0>>, <<1, 1>>, <<2, 1>>, <<2, 2>>, <<3, 2>>, <<0, 2>>}

MCInit == Init /\ nops = 0 /\ hist = <<>> /\ pend = "none"
MCNext == nops < MaxOps /\ Next /\ nops' = nops + 1 /\ hist' = Append(hist, last') /\ pend' = pend
MCSpec == MCInit /\ [][MCNext]_mvars
MCView == st

\* simulation: choose the kind of operation first (uniformly), then its arguments, so that the many
\* constructor argument combinations do not crowd out the other operations
Kinds == {"Ctor", "CopyCtor", "Assign", "AssignT", "Recreate", "Destroy", "ViewOf", "SubView", "CopyView", "AssignView",
          "FillView", "CopyPixels", "EqImg", "EqView", "EqPixels"}
\* duplicated successors weight the simulator's choice: operations on views are otherwise rare because every
\* reassignment of an image releases the views into it
Weight(k) == IF k \in {"FillView", "CopyPixels", "EqView", "EqPixels", "SubView", "CopyView", "AssignView", "ViewOf"} THEN 3
             ELSE IF k \in {"Ctor", "CopyCtor", "EqImg"} THEN 2 ELSE 1
SimNext == \/ /\ pend = "none" /\ nops < MaxOps
              /\ LET en == {o.op : o \in {o2 \in AllOps(st) : Enabled(st, o2)}}
                 IN \E k \in en : \E i \in 1..Weight(k) : pend' = k
              /\ UNCHANGED <<vars, nops, hist>>
           \/ /\ pend \notin {"none", "done"}
              /\ \E o \in AllOps(st) : o.op = pend /\ Do(o) /\ hist' = Append(hist, o)
              /\ nops' = nops + 1 /\ pend' = "none"
           \/ /\ pend = "none" /\ nops = MaxOps /\ pend' = "done"        \* the simulated behaviour is complete
              /\ UNCHANGED <<vars, nops, hist>>
SimSpec == MCInit /\ [][SimNext]_mvars

\* histories that start with two images of equal dimensions and a view of each (so that the algorithms between
\* two run-time typed views are reached at once)
PreOps(t1, t2, d) == <<Op("Ctor", 1, 0, t1, d[1], d[2], 1, 0, 0), Op("Ctor", 2, 0, t2, d[1], d[2], 2, 0, 0),
                       Op("ViewOf", 1, 1, 0, 0, 0, 0, 0, 0), Op("ViewOf", 2, 2, 0, 0, 0, 0, 0, 0)>>
RECURSIVE ApplyAll(_, _)
ApplyAll(s, ops) == IF ops = <<>> THEN s ELSE ApplyAll(Apply(s, Head(ops)), Tail(ops))
ViewsInit == \E t1 \in Tags, t2 \in Tags, d \in {e \in DimSet : e[1] * e[2] > 0} :
                /\ st = ApplyAll(S0, PreOps(t1, t2, d)) /\ last = NoOp /\ ret = "none"
                /\ nops = 4 /\ hist = PreOps(t1, t2, d) /\ pend = "none"
ViewsSpec == ViewsInit /\ [][SimNext]_mvars

Inv_Deep == P_Deep
Inv_ViewsAlias == P_ViewsAlias
Inv_Types == /\ \A v \in ImgVars : st.img[v].live => st.img[v].tag \in Tags
             /\ ret \in {"none", "true", "false", "bad_cast"}

-----------------------------------------------------------------------------
(* Part A theorems                                                            *)
Alts == {[space |-> "gray", bits |-> 8, planar |-> FALSE, order |-> <<0>>],
         [space |-> "rgb", bits |-> 8, planar |-> FALSE, order |-> <<0, 1, 2>>],
         [space |-> "rgb", bits |-> 8, planar |-> TRUE, order |-> <<0, 1, 2>>],
         [space |-> "rgb", bits |-> 8, planar |-> FALSE, order |-> <<2, 1, 0>>],
         [space |-> "rgb", bits |-> 16, planar |-> FALSE, order |-> <<0, 1, 2>>]}
\* a grid whose pixels are all different: pixel i = <<10 i, 10 i + 1, ...>>
IdGrid(a, w, h) == Grid(w, h, [i \in 1..(w * h) |-> [c \in 1..NChOf(a.space) |-> 10 * i + c - 1]])
Shapes == {<<w, h>> : w \in 0..3, h \in 0..3}
T(t, a, g) == P_TGrid(t, <<>>, a, g)

ASSUME T_CompatEquivalence ==
    /\ \A a \in Alts : Compat(a, a)
    /\ \A a, b \in Alts : Compat(a, b) => Compat(b, a)
    /\ \A a, b, c \in Alts : Compat(a, b) /\ Compat(b, c) => Compat(a, c)
ASSUME T_Algebra ==
    \A a \in Alts, s \in Shapes :
        LET g == IdGrid(a, s[1], s[2]) IN
        /\ T("flipUD", a, T("flipUD", a, g)) = g
        /\ T("flipLR", a, T("flipLR", a, g)) = g
        /\ T("transposed", a, T("transposed", a, g)) = g
        /\ T("rot90ccw", a, T("rot90cw", a, g)) = g
        /\ T("rot90cw", a, T("rot90cw", a, g)) = T("rot180", a, g)
        /\ T("rot180", a, g) = T("flipUD", a, T("flipLR", a, g))
        /\ T("rot90cw", a, g) = T("flipLR", a, T("transposed", a, g))
        /\ P_TGrid("subimage", <<0, 0, s[1], s[2]>>, a, g) = g
        /\ P_TGrid("subsampled", <<1, 1>>, a, g) = g
ASSUME T_WriteThrough ==
    \A a \in Alts, s \in Shapes, t \in Ops0 \cup {"subimage", "subsampled"} :
        LET g == IdGrid(a, s[1], s[2])
            args == IF t = "subimage" THEN <<s[1] \div 2, 0, s[1] - (s[1] \div 2), s[2]>> ELSE IF t = "subsampled" THEN <<2, 1>> ELSE <<>>
            m == [c \in 1..NChOf(a.space) |-> 999]
            after == Grid(s[1], s[2], P_WriteThrough(t, args, a, g, m))
            d == P_Dims(t, args, s[1], s[2])
        IN \* reading the transformed view after the write gives the marker everywhere, exactly |view| source pixels changed
           /\ P_TGrid(t, args, a, after).px = ConstPx(d[1] * d[2], m)
           /\ Cardinality({i \in 1..(s[1] * s[2]) : after.px[i] # g.px[i]}) = d[1] * d[2]
ASSUME T_NthChannel ==
    \A a \in Alts, s \in {<<2, 2>>, <<3, 1>>} : \A n \in 0..(NChOf(a.space) - 1) :
        LET g == IdGrid(a, s[1], s[2])
            after == P_WriteThrough("nthch", <<n>>, a, g, <<999>>)
        IN /\ \A i \in 1..(s[1] * s[2]) : P_TGrid("nthch", <<n>>, a, g).px[i] = <<g.px[i][a.order[n + 1] + 1]>>
           /\ \A i \in 1..(s[1] * s[2]), c \in 1..NChOf(a.space) :
                 after[i][c] = IF c = a.order[n + 1] + 1 THEN 999 ELSE g.px[i][c]
ASSUME T_Algorithms ==
    \A a, b \in Alts, s \in {<<0, 0>>, <<2, 1>>, <<2, 2>>} :
        LET src == IdGrid(a, s[1], s[2]).px
            dst == [i \in 1..(s[1] * s[2]) |-> [c \in 1..NChOf(b.space) |-> 500 + i]]
            cp == P_Copy(a, b, src, dst)
        IN /\ (Compat(a, b) => P_Equal(a, b, src, cp.dst).ret = "true")                          \* copy then equal
           /\ (~Compat(a, b) => cp.exc = "bad_cast" /\ cp.dst = dst /\ P_Equal(a, b, src, dst).exc = "bad_cast")
           /\ P_Resample(a, b, s[1], s[2], src, dst, 0, 0) = cp                                      \* identity mapping = copy
           /\ (Compat(a, b) /\ s[1] > 0 => P_Resample(a, b, s[1], s[2], src, dst, s[1], 0).dst = dst) \* mapped outside: untouched
           /\ P_ConvertConst(a, b, src, dst, 7).exc = "none"
           /\ P_ForEach(dst).ret = ToString(s[1] * s[2])
=============================================================================
