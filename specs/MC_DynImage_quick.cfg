SPECIFICATION MCSpec
CONSTANTS
  ImgVars = {1, 2}
  ViewVars = {1, 2}
  Tags = {1, 2, 3}
  ClassOf <- MCClassOf
  DimSet <- MCDimsSmall
  Vals = {1, 2}
  MaxOps = 99
VIEW MCView
INVARIANTS Inv_Deep Inv_ViewsAlias Inv_Types
PROPERTIES P_RecreateKeepsType P_BadCastNoChange P_QueriesPure P_WriteOneOwner P_CopyEqual P_ViewCopyEqual
CHECK_DEADLOCK FALSE
