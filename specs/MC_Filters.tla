------------------------------ MODULE MC_Filters ------------------------------
(* Lattice laws of the max/min definitions on every image up to 3x2 over three   *)
(* values and a set of symmetric structuring elements; Otsu histogram indexing   *)
(* stays inside its table for every min <= v <= max.                             *)
EXTENDS Filters, TLC
CONSTANTS MaxW, MaxH, Vals
VARIABLES img, se
vars == <<img, se>>
SEs == {<<<<1>>>>, <<<<0,1,0>>,<<1,1,1>>,<<0,1,0>>>>, <<<<1,1,1>>,<<1,1,1>>,<<1,1,1>>>>, <<<<1,0,1>>,<<0,1,0>>,<<1,0,1>>>>}
Init == /\ \E w \in 1..MaxW, h \in 1..MaxH : img \in [1..h -> [1..w -> Vals]]
        /\ se \in SEs
Next == UNCHANGED vars
Spec == Init /\ [][Next]_vars
D == P_Dilate(img, se)  E == P_Erode(img, se)
Op == P_Dilate(E, se)   Cl == P_Erode(D, se)
Inv_Order == Leq(E, img) /\ Leq(img, D)
Inv_OpenClose == Leq(Op, img) /\ Leq(img, Cl)
Inv_Idempotent == P_Dilate(P_Erode(Op, se), se) = Op /\ P_Erode(P_Dilate(Cl, se), se) = Cl
Inv_Monotone == \A v \in Vals : LET up == Map(img, LAMBDA p : Max2(p, v)) IN Leq(D, P_Dilate(up, se)) /\ Leq(E, P_Erode(up, se))
Inv_Median == \A c \in Coords(img) : \E m \in Vals : P_IsMedian(Window(img, c[1], c[2], 3), m)
Inv_Otsu == \A mn \in Vals, mx \in Vals, v \in Vals : (mn <= v /\ v <= mx) => (I_OtsuIndex(v, mn, mx) \in 0..255)
=============================================================================
