SPECIFICATION Spec
CONSTANTS
  MaxW = 3
  MaxH = 2
  Vals = {0, 1, 2}
INVARIANTS Inv_Order Inv_OpenClose Inv_Idempotent Inv_Monotone Inv_Median Inv_Otsu
CHECK_DEADLOCK FALSE
