------------------------------ MODULE MC_HistEq ------------------------------
(* Theorems of HistEq.tla over every histogram with up to 3 keys out of 0..4 and counts 1..3 (ASSUMEs). *)
EXTENDS HistEq
VARIABLE x
Keys3 == {<<a>> : a \in 0..4} \cup {<<a, b>> : a \in 0..4, b \in 0..4} \cup {<<a, b, c>> : a \in 0..4, b \in 0..4, c \in 0..4}
Hists == {h \in UNION {[1..n -> (0..4) \X (1..3)] : n \in 1..3} : WellFormed(h)}
ASSUME T_Monotone == \A h \in Hists : Monotone(P_Map(h, 0, 255))
ASSUME T_LastIsMax == \A h \in Hists : P_Map(h, 0, 255)[Len(h)][2] = 255 /\ P_Map(h, 3, 9)[Len(h)][2] = 9
ASSUME T_InRange == \A h \in Hists : \A i \in 1..Len(h) : P_Map(h, 0, 255)[i][2] \in 0..255
ASSUME T_MassConserved == \A h \in Hists : SumSeq([v \in 1..256 |-> P_DstCount(h, 0, 255, v - 1)]) = Total(h)
ASSUME T_SingleKey == \A k \in 0..4, c \in 1..3 : P_Map(<<<<k, c>>>>, 0, 255) = <<<<k, 255>>>>
Init == x = 0
Next == UNCHANGED x
Spec == Init /\ [][Next]_x
=============================================================================
