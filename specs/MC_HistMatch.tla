---------------------------- MODULE MC_HistMatch ----------------------------
(* For every pair of small histograms (up to K keys, counts 0..C, non-zero     *)
(* totals) the loop as written produces a nearest, monotone match.             *)
EXTENDS HistMatch, TLC
CONSTANTS K, C
Counts(n) == [1..n -> 0..C]
Hists == UNION {Counts(n) : n \in 1..K}
ASSUME Thm_LoopIsNearest ==
    \A sc \in Hists, rc \in Hists :
        (Total(sc) > 0 /\ Total(rc) > 0) => P_Match(sc, rc, I_Match(sc, rc))
ASSUME Thm_LoopIsMonotone ==
    \A sc \in Hists, rc \in Hists :
        (Total(sc) > 0 /\ Total(rc) > 0) => P_Monotone(I_Match(sc, rc))
ASSUME Thm_MassConserved ==
    \A sc \in Hists, rc \in Hists :
        (Total(sc) > 0 /\ Total(rc) > 0) =>
            LET idx == I_Match(sc, rc) IN SumTo([i \in 1..Len(rc) |-> P_DstCount(sc, idx, i)], Len(rc)) = Total(sc)
VARIABLE x
Init == x = 0
Next == x' = x
Spec == Init /\ [][Next]_x
=============================================================================
