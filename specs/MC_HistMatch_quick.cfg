SPECIFICATION Spec
CONSTANTS
  K = 3
  C = 2
