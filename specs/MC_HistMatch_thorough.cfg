SPECIFICATION Spec
CONSTANTS
  K = 4
  C = 3
