---------------------------- MODULE MC_HistOps ----------------------------
EXTENDS HistOps, TLC
CONSTANTS K
\* histograms over keys 0..K with counts 0..2, as sequences of bins with distinct keys
H1 == {<<>>} \cup {<<<<k, c>>>> : k \in 0..K, c \in 0..2} \cup {<<<<k1, c1>>, <<k2, c2>>>> : k1 \in 0..K, k2 \in 0..K, c1 \in 0..2, c2 \in 0..2}
Dist(h) == \A i, j \in 1..Len(h) : i # j => h[i][1] # h[j][1]
ASSUME Thm_EqualsIsEquivalence ==
    \A a \in H1, b \in H1 : (Dist(a) /\ Dist(b)) => ((P_Equals(a, b) <=> P_Equals(b, a)) /\ P_Equals(a, a))
ASSUME Thm_NearestIsBelow ==
    \A h \in H1, k \in 0..K : Dist(h) => (P_Nearest(h, k) <= k /\ (P_Nearest(h, k) \in Keys(h) \/ P_Nearest(h, k) = k))
ASSUME Thm_MinMax == \A h \in H1 : (Dist(h) /\ Len(h) > 0) => P_Min(h) <= P_Max(h)
VARIABLE x
Init == x = 0
Next == x' = x
Spec == Init /\ [][Next]_x
=============================================================================
