SPECIFICATION Spec
CONSTANTS
  K = 3
