SPECIFICATION Spec
CONSTANTS
  K = 6
