----------------------------- MODULE MC_Histogram -----------------------------
(* Bag laws on every image of up to MaxN pixels with 2 channels over a small      *)
(* alphabet, every mask, bin widths 1..2: mass conservation of fill, cumulative   *)
(* monotone with total in the top corner, marginalisation preserves mass.         *)
EXTENDS Histogram, TLC
CONSTANTS MaxN, Vals
VARIABLES pixels, mask, bw
vars == <<pixels, mask, bw>>
Init == /\ \E n \in 0..MaxN : pixels \in [1..n -> [1..2 -> Vals]] /\ mask \in [1..n -> {0, 1}]
        /\ bw \in {1, 2}
Next == UNCHANGED vars
Spec == Init /\ [][Next]_vars
Dims == <<0, 1>>
AllKeys == {PixelKey(pixels[i], Dims, bw) : i \in 1..Len(pixels)}
Hist == LET ks == AllKeys IN [k \in ks |-> P_FillCount(pixels, mask, TRUE, Dims, bw, <<>>, <<>>, FALSE, k)]
RowsOf(h) == LET ks == DOMAIN h IN
             IF ks = {} THEN <<>> ELSE LET f == CHOOSE g \in [1..Cardinality(ks) -> ks] : \A a, b \in 1..Cardinality(ks) : a # b => g[a] # g[b]
                                       IN [i \in 1..Cardinality(ks) |-> f[i] \o <<h[f[i]]>>]
Rows == RowsOf(Hist)
Inv_Mass == Total(Rows) = Cardinality({i \in 1..Len(pixels) : mask[i] = 1})
Inv_CumMonotone == \A k1, k2 \in AllKeys : LeqAll(k1, k2) => P_Cumulative(Rows, k1) <= P_Cumulative(Rows, k2)
Inv_CumTop == LET top == <<CDiv(SeqMax(<<0>> \o [i \in 1..Len(pixels) |-> pixels[i][1]]), bw), CDiv(SeqMax(<<0>> \o [i \in 1..Len(pixels) |-> pixels[i][2]]), bw)>>
              IN P_Cumulative(Rows, top) = Total(Rows)
Inv_Marginal == \A ax \in {<<0>>, <<1>>} :
                  SumSeq([i \in 1..Len(Rows) |-> CountOfRow(Rows[i])]) =
                  LET ks2 == {Project(k, ax) : k \in AllKeys} IN
                  IF ks2 = {} THEN 0 ELSE LET S[T \in SUBSET ks2] == IF T = {} THEN 0 ELSE LET k == CHOOSE q \in T : TRUE IN P_Marginal(Rows, ax, k) + S[T \ {k}] IN S[ks2]
=============================================================================
