SPECIFICATION Spec
CONSTANTS
  MaxN = 4
  Vals = {0, 1, 3}
INVARIANTS Inv_Mass Inv_CumMonotone Inv_CumTop Inv_Marginal
CHECK_DEADLOCK FALSE
