------------------------------ MODULE MC_Hough ------------------------------
EXTENDS Hough, TLC
CONSTANTS N
\* from_step_size always yields a range centred on its middle value and inside the neighbourhood
ASSUME Thm_StepSizeCentred ==
    \A mid \in 0..N, n \in 0..N, s \in 1..N : LET p == I_FromStepSize(mid, n, s) IN P_Centred(p, mid) /\ P_Within(p, mid, n)
\* from_step_count does so exactly when the half step count divides the neighbourhood (integer parameter types)
ASSUME Thm_StepCountCentredIffDivides ==
    \A mid \in 0..N, n \in 0..N, h \in 1..N : LET p == I_FromStepCount(mid, n, h) IN P_Centred(p, mid) <=> (n % h = 0)
\* a circle drawn into an image that contains it collects one vote per point at its own centre
ASSUME Thm_ExactFit ==
    \A cx \in 1..3, cy \in 1..3 :
        LET circle == <<<<0, 1>>, <<1, 0>>, <<0, -1>>, <<-1, 0>>, <<0, 1>>>>
            set == {<<circle[i][1] + cx, circle[i][2] + cy>> : i \in 1..Len(circle)}
        IN P_CircleVotes(5, 5, set, circle, cx, cy) = Len(circle)
\* a circle that sticks out of the image can only lose votes
ASSUME Thm_OutsideLosesVotes ==
    \A cx \in -1..1, cy \in -1..1 :
        LET circle == <<<<0, 1>>, <<1, 0>>, <<0, -1>>, <<-1, 0>>>> IN P_CircleVotes(2, 2, {<<0, 0>>, <<1, 0>>, <<0, 1>>, <<1, 1>>}, circle, cx, cy) <= Len(circle)
VARIABLE x
Init == x = 0
Next == x' = x
Spec == Init /\ [][Next]_x
=============================================================================
