SPECIFICATION Spec
CONSTANTS
  N = 20
