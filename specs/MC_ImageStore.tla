---------------------------- MODULE MC_ImageStore ----------------------------
(* Every history of public image operations up to MaxOps over two handles, a   *)
(* small set of dimensions / alignments / allocators, with one allocation      *)
(* failure injectable at every allocating call: the implementation-shaped      *)
(* model never leaks, double-frees, frees with the wrong size/allocator or     *)
(* destroys unconstructed elements, and images own suitably sized blocks.      *)
(* Operations whose precondition the library itself violates for unequal       *)
(* non-propagating allocators (open finding) are enabled only with equal       *)
(* allocators when ExcludeOpenFindings is set.                                 *)
EXTENDS ImageStore, TLC
CONSTANTS MaxOps, ExcludeOpenFindings
VARIABLES nops, hist
mvars == <<vars, nops, hist>>

MCDims == {<<0, 0>>, <<1, 1>>, <<2, 3>>, <<0, 2>>}
H == Handles
DimsOf(d) == d
Init == /\ img = [x \in H \cup {T} |-> Dead] /\ heap = <<>> /\ elems = <<>> /\ errs = {} /\ nextblk = 1
        /\ fault = "none" /\ last = "init" /\ nops = 0 /\ hist = <<>>

Log(op) == /\ nops' = nops + 1 /\ hist' = Append(hist, op) /\ last' = op.op
SwapOk(a1, a2) == POCS \/ a1 = a2 \/ ~ExcludeOpenFindings

Ctor == \E x \in H, d \in DimSet, al \in AlignSet, a \in AllocSet :
          /\ ~IsLive(x)
          /\ \/ (Put(I_Create(St, x, d[1], d[2], al, a)) /\ fault' = fault)
             \/ (fault = "none" /\ Needed(d[1], d[2], al) > 0 /\ Put(St) /\ fault' = "alloc")     \* constructor throws: no object
          /\ Log([op |-> "Ctor", h |-> x, w |-> d[1], hh |-> d[2], al |-> al, a |-> a, fail |-> fault' # fault])
CopyCtor == \E x, y \in H :
          /\ ~IsLive(x) /\ IsLive(y)
          /\ \/ (Put(I_CopyOf(St, x, y)) /\ fault' = fault)
             \/ (fault = "none" /\ Needed(img[y].w, img[y].h, img[y].align) > 0 /\ Put(St) /\ fault' = "alloc")
          /\ Log([op |-> "CopyCtor", h |-> x, from |-> y, fail |-> fault' # fault])
MoveCtor == \E x, y \in H :
          /\ ~IsLive(x) /\ IsLive(y)
          /\ Put(I_MoveCtor(St, x, y)) /\ fault' = fault
          /\ Log([op |-> "MoveCtor", h |-> x, from |-> y, fail |-> FALSE])
CopyAssign == \E x, y \in H :
          /\ IsLive(x) /\ IsLive(y) /\ x # y
          /\ SwapOk(img[x].alloc, img[y].alloc)
          /\ \/ (Put(I_CopyAssign(St, x, y)) /\ fault' = fault)
             \/ (fault = "none" /\ ~(img[x].w = img[y].w /\ img[x].h = img[y].h) /\ Needed(img[y].w, img[y].h, img[y].align) > 0
                 /\ Put(St) /\ fault' = "alloc")
          /\ Log([op |-> "CopyAssign", h |-> x, from |-> y, fail |-> fault' # fault])
MoveAssign == \E x, y \in H :
          /\ IsLive(x) /\ IsLive(y) /\ x # y
          /\ Put(I_MoveAssign(St, x, y)) /\ fault' = fault
          /\ Log([op |-> "MoveAssign", h |-> x, from |-> y, fail |-> FALSE])
\* (both spellings of each recreate: with and without a fill value; the storage protocol is the same)
Recreate == \E x \in H, d \in DimSet, al \in AlignSet, fill \in BOOLEAN :
          /\ IsLive(x)
          /\ (I_RecreateAllocates(St, x, d[1], d[2], al, 0, FALSE) => SwapOk(img[x].alloc, 0))
          /\ \/ (Put(I_Recreate(St, x, d[1], d[2], al, 0, FALSE)) /\ fault' = fault)
             \/ (fault = "none" /\ I_RecreateAllocates(St, x, d[1], d[2], al, 0, FALSE)
                 /\ Put(I_RecreateFailed(St, x, al)) /\ fault' = "alloc")
          /\ Log([op |-> IF fill THEN "RecreateFill" ELSE "Recreate", h |-> x, w |-> d[1], hh |-> d[2], al |-> al, fail |-> fault' # fault])
RecreateAlloc == \E x \in H, d \in DimSet, al \in AlignSet, a \in AllocSet, fill \in BOOLEAN :
          /\ IsLive(x)
          /\ (I_RecreateAllocates(St, x, d[1], d[2], al, a, TRUE) => SwapOk(img[x].alloc, a))
          /\ Put(I_Recreate(St, x, d[1], d[2], al, a, TRUE)) /\ fault' = fault
          /\ Log([op |-> IF fill THEN "RecreateFillAlloc" ELSE "RecreateAlloc", h |-> x, w |-> d[1], hh |-> d[2], al |-> al, a |-> a, fail |-> FALSE])
Swap == \E x, y \in H :
          /\ IsLive(x) /\ IsLive(y) /\ x < y /\ (POCS \/ img[x].alloc = img[y].alloc)       \* documented precondition
          /\ Put(I_SwapWith(St, x, y)) /\ fault' = fault
          /\ Log([op |-> "Swap", h |-> x, from |-> y, fail |-> FALSE])
Dtor == \E x \in H :
          /\ IsLive(x) /\ Put(I_Destroy(St, x)) /\ fault' = fault
          /\ Log([op |-> "Dtor", h |-> x, fail |-> FALSE])
Next == nops < MaxOps /\ (Ctor \/ CopyCtor \/ MoveCtor \/ CopyAssign \/ MoveAssign \/ Recreate \/ RecreateAlloc \/ Swap \/ Dtor)
Spec == Init /\ [][Next]_mvars

Inv_NoErrors == P_NoErrors
Inv_NoLeak == P_NoLeak
Inv_OneBlock == P_OneBlock
Inv_Sized == P_Sized
Inv_ElemBalance == P_ElemBalance
Inv_ScratchDead == ~IsLive(T)
\* the layout always honours the recorded alignment, also after a failed recreate
Inv_RowAligned == \A x \in H : IsLive(x) => img[x].lay = img[x].align
=============================================================================
