---------------------------- MODULE MC_ImageStore ----------------------------
(* Every history of public image operations up to MaxOps over two handles, a   *)
(* small set of dimensions / alignments / allocators, with one allocation      *)
(* failure injectable at every allocating call: the implementation-shaped      *)
(* model never leaks, double-frees, frees with the wrong size/allocator or     *)
(* destroys unconstructed elements, and images own suitably sized blocks.      *)
(* Operations whose precondition the library itself violates for unequal       *)
(* non-propagating allocators (open finding) are enabled only with equal       *)
(* allocators when ExcludeOpenFindings is set.                                 *)
EXTENDS ImageStore, TLC
CONSTANTS MaxOps, ExcludeOpenFindings
VARIABLES nops, hist
mvars == <<vars, nops, hist>>

MCDims == {<<0, 0>>, <<1, 1>>, <<2, 3>>, <<0, 2>>}
MCDimsMove == {<<0, 0>>, <<2, 3>>}      \* for the depth-3 export that reaches assignment between images of unequal allocators
H == Handles
DimsOf(d) == d
Init == /\ img = [x \in H \cup {T} |-> Dead] /\ heap = <<>> /\ elems = <<>> /\ errs = {} /\ nextblk = 1
        /\ fault = "none" /\ last = "init" /\ nops = 0 /\ hist = <<>>

Log(op) == /\ nops' = nops + 1 /\ hist' = Append(hist, op) /\ last' = op.op
\* which element construction of the call throws: the first, the middle or the last (0 = none)
CF(n, f) == IF f = "ctor" /\ fault = "none" THEN {1, (n + 1) \div 2, n} ELSE {0}
SwapOk(a1, a2) == POCS \/ a1 = a2 \/ ~ExcludeOpenFindings

Ctor == \E x \in H, d \in DimSet, al \in AlignSet, a \in AllocSet :
          /\ ~IsLive(x)
          /\ \/ (Put(I_Create(St, x, d[1], d[2], al, a)) /\ fault' = fault)
             \/ (fault = "none" /\ Needed(d[1], d[2], al) > 0 /\ Put(St) /\ fault' = "alloc")     \* constructor throws: no object
             \/ (fault = "none" /\ d[1] * d[2] > 0 /\ Put(St) /\ fault' = "ctor")                \* an element constructor throws: no object
          /\ \E k \in CF(d[1] * d[2], fault') :
                Log([op |-> "Ctor", h |-> x, w |-> d[1], hh |-> d[2], al |-> al, a |-> a, fail |-> fault' = "alloc" /\ fault = "none", cfail |-> k])
CopyCtor == \E x, y \in H :
          /\ ~IsLive(x) /\ IsLive(y)
          /\ \/ (Put(I_CopyOf(St, x, y)) /\ fault' = fault)
             \/ (fault = "none" /\ Needed(img[y].w, img[y].h, img[y].align) > 0 /\ Put(St) /\ fault' = "alloc")
             \/ (fault = "none" /\ img[y].w * img[y].h > 0 /\ Put(St) /\ fault' = "ctor")
          /\ \E k \in CF(img[y].w * img[y].h, fault') :
                Log([op |-> "CopyCtor", h |-> x, from |-> y, fail |-> fault' = "alloc" /\ fault = "none", cfail |-> k])
MoveCtor == \E x, y \in H :
          /\ ~IsLive(x) /\ IsLive(y)
          /\ Put(I_MoveCtor(St, x, y)) /\ fault' = fault
          /\ Log([op |-> "MoveCtor", h |-> x, from |-> y, fail |-> FALSE])
CopyAssign == \E x, y \in H :
          /\ IsLive(x) /\ IsLive(y) /\ x # y
          /\ SwapOk(img[x].alloc, img[y].alloc)
          /\ \/ (Put(I_CopyAssign(St, x, y)) /\ fault' = fault)
             \/ (fault = "none" /\ ~(img[x].w = img[y].w /\ img[x].h = img[y].h) /\ Needed(img[y].w, img[y].h, img[y].align) > 0
                 /\ Put(St) /\ fault' = "alloc")
             \* the temporary copy fails in an element constructor: the target is unchanged (same dimensions: assignment, nothing is constructed)
             \/ (fault = "none" /\ ~(img[x].w = img[y].w /\ img[x].h = img[y].h) /\ img[y].w * img[y].h > 0 /\ Put(St) /\ fault' = "ctor")
          /\ \E k \in CF(img[y].w * img[y].h, fault') :
                Log([op |-> "CopyAssign", h |-> x, from |-> y, fail |-> fault' = "alloc" /\ fault = "none", cfail |-> k])
MoveAssign == \E x, y \in H :
          /\ IsLive(x) /\ IsLive(y) /\ x # y
          /\ \/ (Put(I_MoveAssign(St, x, y)) /\ fault' = fault)
             \* unequal allocators that do not propagate: the pixels are copied with the target's allocator first; if that fails nothing changes
             \/ (fault = "none" /\ ~POCMA /\ img[x].alloc # img[y].alloc /\ Needed(img[y].w, img[y].h, img[x].align) > 0 /\ Put(St) /\ fault' = "alloc")
             \/ (fault = "none" /\ ~POCMA /\ img[x].alloc # img[y].alloc /\ img[y].w * img[y].h > 0 /\ Put(St) /\ fault' = "ctor")
          /\ \E k \in CF(img[y].w * img[y].h, fault') :
                Log([op |-> "MoveAssign", h |-> x, from |-> y, fail |-> fault' = "alloc" /\ fault = "none", cfail |-> k])
\* (both spellings of each recreate: with and without a fill value; the storage protocol is the same)
Recreate == \E x \in H, d \in DimSet, al \in AlignSet, fill \in BOOLEAN :
          /\ IsLive(x)
          /\ (I_RecreateAllocates(St, x, d[1], d[2], al, 0, FALSE) => SwapOk(img[x].alloc, 0))
          /\ \/ (Put(I_Recreate(St, x, d[1], d[2], al, 0, FALSE)) /\ fault' = fault)
             \/ (fault = "none" /\ I_RecreateAllocates(St, x, d[1], d[2], al, 0, FALSE)
                 /\ Put(I_RecreateFailed(St, x, al)) /\ fault' = "alloc")
             \* an element constructor throws: in the temporary (target unchanged) or in place (the target holds no pixels any more)
             \/ (fault = "none" /\ d[1] * d[2] > 0 /\ I_RecreateDoesSomething(St, x, d[1], d[2], al, 0, FALSE)
                 /\ Put(IF I_RecreateAllocates(St, x, d[1], d[2], al, 0, FALSE) THEN I_RecreateFailed(St, x, al) ELSE I_RecreateCtorFailedInPlace(St, x, al))
                 /\ fault' = "ctor")
          /\ \E k \in CF(d[1] * d[2], fault') :
                Log([op |-> IF fill THEN "RecreateFill" ELSE "Recreate", h |-> x, w |-> d[1], hh |-> d[2], al |-> al, fail |-> fault' = "alloc" /\ fault = "none", cfail |-> k])
RecreateAlloc == \E x \in H, d \in DimSet, al \in AlignSet, a \in AllocSet, fill \in BOOLEAN :
          /\ IsLive(x)
          /\ (I_RecreateAllocates(St, x, d[1], d[2], al, a, TRUE) => SwapOk(img[x].alloc, a))
          /\ Put(I_Recreate(St, x, d[1], d[2], al, a, TRUE)) /\ fault' = fault
          /\ Log([op |-> IF fill THEN "RecreateFillAlloc" ELSE "RecreateAlloc", h |-> x, w |-> d[1], hh |-> d[2], al |-> al, a |-> a, fail |-> FALSE])
Swap == \E x, y \in H :
          /\ IsLive(x) /\ IsLive(y) /\ x < y /\ (POCS \/ img[x].alloc = img[y].alloc)       \* documented precondition
          /\ Put(I_SwapWith(St, x, y)) /\ fault' = fault
          /\ Log([op |-> "Swap", h |-> x, from |-> y, fail |-> FALSE])
Dtor == \E x \in H :
          /\ IsLive(x) /\ Put(I_Destroy(St, x)) /\ fault' = fault
          /\ Log([op |-> "Dtor", h |-> x, fail |-> FALSE])
Next == nops < MaxOps /\ (Ctor \/ CopyCtor \/ MoveCtor \/ CopyAssign \/ MoveAssign \/ Recreate \/ RecreateAlloc \/ Swap \/ Dtor)
Spec == Init /\ [][Next]_mvars

Inv_NoErrors == P_NoErrors
Inv_NoLeak == P_NoLeak
Inv_OneBlock == P_OneBlock
Inv_Sized == P_Sized
Inv_ElemBalance == P_ElemBalance
Inv_ScratchDead == ~IsLive(T)
\* the layout always honours the recorded alignment, also after a failed recreate
Inv_RowAligned == \A x \in H : IsLive(x) => img[x].lay = img[x].align
=============================================================================
