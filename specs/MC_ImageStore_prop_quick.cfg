SPECIFICATION Spec
CONSTANTS
  Handles = {1, 2}
  DimSet <- MCDims
  AlignSet = {0, 4}
  AllocSet = {1, 2}
  POCMA = TRUE
  POCS = TRUE
  Psz = 3
  MaxOps = 3
  ExcludeOpenFindings = TRUE
INVARIANTS Inv_NoErrors Inv_NoLeak Inv_OneBlock Inv_Sized Inv_ElemBalance Inv_ScratchDead Inv_RowAligned
CHECK_DEADLOCK FALSE
