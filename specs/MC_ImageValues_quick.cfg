SPECIFICATION Spec
CONSTANTS
  Dims <- MCDims
  Aligns = {0, 4, 16}
  Fills <- MCFills
INVARIANTS Inv_Uniform
PROPERTIES Act_FillWins
CHECK_DEADLOCK FALSE
