------------------------------ MODULE MC_IoPaths ------------------------------
(* consistency of Crop over every sub-rectangle of every image up to MaxW x MaxH:    *)
(* a crop of a crop is the crop at the summed offsets; the full rectangle is the     *)
(* identity; every pixel of a crop is the canon pixel at the offset position.        *)
EXTENDS IoPaths, TLC
CONSTANTS MaxW, MaxH
VARIABLES W, H, x, y, w, h
vars == <<W, H, x, y, w, h>>
Init == /\ W \in 1..MaxW /\ H \in 1..MaxH /\ x \in 0..(MaxW - 1) /\ y \in 0..(MaxH - 1) /\ w \in 1..MaxW /\ h \in 1..MaxH
        /\ x + w <= W /\ y + h <= H
Next == UNCHANGED vars
Spec == Init /\ [][Next]_vars
Canon == [i \in 1..(W * H) |-> <<(i - 1) % W, (i - 1) \div W>>]
C == Crop(Canon, W, x, y, w, h)
Inv_Pixels == \A i \in 1..(w * h) : C[i] = <<x + ((i - 1) % w), y + ((i - 1) \div w)>>
Inv_Full == Crop(Canon, W, 0, 0, W, H) = Canon
Inv_Compose == \A x2 \in 0..(w - 1), y2 \in 0..(h - 1) : Crop(C, w, x2, y2, w - x2, h - y2) = Crop(Canon, W, x + x2, y + y2, w - x2, h - y2)
=============================================================================
