SPECIFICATION Spec
CONSTANTS
  MaxW = 4
  MaxH = 3
INVARIANTS Inv_Pixels Inv_Full Inv_Compose
CHECK_DEADLOCK FALSE
