SPECIFICATION Spec
CONSTANTS
  MaxW = 5
  MaxH = 4
INVARIANTS Inv_Pixels Inv_Full Inv_Compose
CHECK_DEADLOCK FALSE
