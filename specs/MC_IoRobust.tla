------------------------------ MODULE MC_IoRobust ------------------------------
(* Ties the "needed bytes" oracle to the encoder models of IoRoundTrip.tla: for every      *)
(* width/height the encoded BMP / PNM is exactly as long as its header demands, so every   *)
(* proper prefix is "too short" and the complete file is not; the header predicates        *)
(* recognise the encoders' output.                                                         *)
EXTENDS IoRobust, TLC
CONSTANT MaxN
VARIABLES w, h, nch, cut
vars == <<w, h, nch, cut>>
Init == w \in 1..MaxN /\ h \in 1..MaxN /\ nch \in {1, 3, 4} /\ cut = 0
Next == cut < 3 /\ cut' = cut + 1 /\ UNCHANGED <<w, h, nch>>
Spec == Init /\ [][Next]_vars
Img == [i \in 1..(w * h) |-> [c \in 1..nch |-> (17 * i + 61 * c) % 256]]
Bmp == I_BmpEncode(Img, w, h, nch)
Pnm == I_PnmEncode(Img, w, h, nch)
Hd(s) == SubSeq(s, 1, Min2(Len(s), 96))
Inv_Bmp == nch \in {3, 4} => (/\ BmpIsPlainTrueColour(Hd(Bmp)) /\ BmpNeeded(Hd(Bmp)) = Len(Bmp)
                              /\ ~P_TooShort("bmp", Hd(Bmp), Len(Bmp)) /\ P_TooShort("bmp", Hd(Bmp), Len(Bmp) - 1 - cut))
Inv_Pnm == nch \in {1, 3} => (/\ PnmSimple(Hd(Pnm)) /\ PnmNeeded(Hd(Pnm)) = Len(Pnm)
                              /\ ~P_TooShort("pnm", Hd(Pnm), Len(Pnm)) /\ P_TooShort("pnm", Hd(Pnm), Len(Pnm) - 1 - cut))
=============================================================================
