SPECIFICATION Spec
CONSTANTS
  MaxN = 7
INVARIANTS Inv_Bmp Inv_Pnm
CHECK_DEADLOCK FALSE
