SPECIFICATION Spec
CONSTANTS
  MaxN = 12
INVARIANTS Inv_Bmp Inv_Pnm
CHECK_DEADLOCK FALSE
