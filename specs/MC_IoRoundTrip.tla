---------------------------- MODULE MC_IoRoundTrip ----------------------------
(* every width and height in 1..MaxN (every row-padding residue), 3 and 4 channels: *)
(* decoding the encoded BMP gives back the image, the padding is zero and the       *)
(* declared sizes are those of the byte sequence.                                   *)
EXTENDS IoRoundTrip, TLC
CONSTANT MaxN
VARIABLES w, h, nch
vars == <<w, h, nch>>
Init == w \in 1..MaxN /\ h \in 1..MaxN /\ nch \in {3, 4}
Next == UNCHANGED vars
Spec == Init /\ [][Next]_vars
Img == [i \in 1..(w * h) |-> [c \in 1..nch |-> (17 * i + 61 * c) % 256]]
Bytes == I_BmpEncode(Img, w, h, nch)
Inv_RoundTrip == I_BmpDecode(Bytes, w, h, nch) = Img
Inv_Sizes == Len(Bytes) = 54 + BmpPitch(w, nch) * h /\ BmpPitch(w, nch) % 4 = 0 /\ BmpPitch(w, nch) >= w * nch /\ BmpPitch(w, nch) < w * nch + 4
Inv_PnmLen == Len(I_PnmEncode(Img, w, h, nch)) = 3 + Len(Digits(w)) + 1 + Len(Digits(h)) + 1 + 3 + 1 + w * h * nch
=============================================================================
