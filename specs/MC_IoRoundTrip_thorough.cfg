SPECIFICATION Spec
CONSTANTS
  MaxN = 17
INVARIANTS Inv_RoundTrip Inv_Sizes Inv_PnmLen
CHECK_DEADLOCK FALSE
