---------------------------- MODULE MC_Navigation ----------------------------
(* Every sequence (bounded length) of ++, --, += d over every view shape,     *)
(* every step sign and padding: the implementation-shaped cursor tracks the   *)
(* ideal linear index (ghost lin); the random-access laws follow; step        *)
(* iterator ordering agrees with distance for every step sign combination.    *)
EXTENDS Navigation, TLC
CONSTANTS MaxW, MaxH, MaxD, MaxLen, XSteps, Pads

XStepSet == {1, 3, -1, -3, 2}
VARIABLES w, h, x, y, lin, len, xs, ys
vars == <<w, h, x, y, lin, len, xs, ys>>

Init == /\ w \in 0..MaxW /\ h \in 0..MaxH
        /\ xs \in XSteps /\ \E pad \in Pads, sgn \in {1, -1} : ys = sgn * (Abs(xs) * w + pad)
        /\ \E l0 \in 0..(w * h) : lin = l0 /\ x = (IF w = 0 THEN 0 ELSE P_Coords(l0, w)[1]) /\ y = (IF w = 0 THEN 0 ELSE P_Coords(l0, w)[2])
        /\ len = 0

InRange(l) == l >= 0 /\ l <= w * h
Inc == /\ len < MaxLen /\ InRange(lin + 1) /\ w > 0
       /\ LET r == I_Inc(x, y, w) IN x' = r[1] /\ y' = r[2]
       /\ lin' = lin + 1 /\ len' = len + 1 /\ UNCHANGED <<w, h, xs, ys>>
Dec == /\ len < MaxLen /\ InRange(lin - 1) /\ w > 0
       /\ LET r == I_Dec(x, y, w) IN x' = r[1] /\ y' = r[2]
       /\ lin' = lin - 1 /\ len' = len + 1 /\ UNCHANGED <<w, h, xs, ys>>
Adv == /\ len < MaxLen
       /\ \E d \in (-MaxD)..MaxD :
            /\ (w = 0 \/ InRange(lin + d))
            /\ LET r == I_Advance(x, y, w, d) IN x' = r[1] /\ y' = r[2]
            /\ lin' = IF w = 0 THEN lin ELSE lin + d
       /\ len' = len + 1 /\ UNCHANGED <<w, h, xs, ys>>
Next == Inc \/ Dec \/ Adv
Spec == Init /\ [][Next]_vars

Inv_Tracks == w > 0 => <<x, y>> = P_Coords(lin, w)
Inv_Distance == w > 0 => \A l2 \in 0..(w * h) :
                   LET c == P_Coords(l2, w) IN I_Distance(x, y, c[1], c[2], w) = l2 - lin
Inv_AdvanceAssoc == w > 0 => \A n \in (-MaxD)..MaxD, m \in (-MaxD)..MaxD :
                   (InRange(lin + n) /\ InRange(lin + n + m)) =>
                      LET a == I_Advance(x, y, w, n) b == I_Advance(a[1], a[2], w, m) IN b = I_Advance(x, y, w, n + m)
Inv_IncDec == (w > 0 /\ InRange(lin + 1)) => LET r == I_Inc(x, y, w) IN I_Dec(r[1], r[2], w) = <<x, y>>
Inv_Empty == w = 0 => (x = 0 /\ y = 0)
\* step iterators of the view: ordering agrees with the sign of the distance, for x and y iterators
Inv_StepOrder == \A a \in 0..Max2(w, h), b \in 0..Max2(w, h) :
                   /\ (I_StepLess(I_Addr(0, xs, ys, a, 0), I_Addr(0, xs, ys, b, 0), xs) <=> a < b)
                   /\ (ys # 0 => (I_StepLess(I_Addr(0, xs, ys, 0, a), I_Addr(0, xs, ys, 0, b), ys) <=> a < b))
\* is_1d_traversable: x-iterator stepped past the row end lands on the next row  <=>  ys = xs * w
Inv_1D == (w > 0 /\ h > 1) => ((I_Addr(0, xs, ys, w, 0) = I_Addr(0, xs, ys, 0, 1)) <=> ys = xs * w)
=============================================================================
