SPECIFICATION Spec
CONSTANTS
  MaxW = 4
  MaxH = 3
  MaxD = 9
  MaxLen = 2
  XSteps <- XStepSet
  Pads = {0, 1, 5}
INVARIANTS Inv_Tracks Inv_Distance Inv_AdvanceAssoc Inv_IncDec Inv_Empty Inv_StepOrder Inv_1D
CHECK_DEADLOCK FALSE
