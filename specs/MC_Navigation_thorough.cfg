SPECIFICATION Spec
CONSTANTS
  MaxW = 5
  MaxH = 4
  MaxD = 14
  MaxLen = 3
  XSteps <- XStepSet
  Pads = {0, 1, 5}
INVARIANTS Inv_Tracks Inv_Distance Inv_AdvanceAssoc Inv_IncDec Inv_Empty Inv_StepOrder Inv_1D
CHECK_DEADLOCK FALSE
