---------------------------- MODULE MC_Numeric ----------------------------
(* Theorems of Numeric.tla over bounded domains (evaluated by TLC as ASSUMEs; *)
(* the single-state behaviour exists only because TLC needs a specification). *)
EXTENDS Numeric
VARIABLE x
K == -64..64
D == (-9..9) \ {0}
ASSUME T_RoundingOrder == \A k \in K : /\ FloorQ(k, 8) <= RoundHalfAway(k, 8) /\ RoundHalfAway(k, 8) <= CeilQ(k, 8)
                                        /\ CeilQ(k, 8) - FloorQ(k, 8) = (IF k % 8 = 0 THEN 0 ELSE 1)
ASSUME T_RoundingSymmetry == \A k \in K : RoundHalfAway(-k, 8) = -RoundHalfAway(k, 8) /\ FloorQ(-k, 8) = -CeilQ(k, 8)
ASSUME T_RoundingIsNearest == \A k \in K : Abs(8 * RoundHalfAway(k, 8) - k) <= 4
ASSUME T_SignOfDivisor == \A n \in K, d \in D : RoundHalfAway(n, d) = RoundHalfAway(-n, -d) /\ FloorQ(n, d) = FloorQ(-n, -d)
ASSUME T_TruncVsRound == \A n \in K, d \in D : Abs(RoundHalfAway(n, d) - TruncQ(n, d)) <= 1
ASSUME T_PointGroup == \A a, b \in {<<p, q>> : p \in -3..3, q \in -3..3} :
                          /\ PAdd(a, b) = PAdd(b, a) /\ PSub(PAdd(a, b), b) = a /\ PAdd(a, PNeg(a)) = <<0, 0>> /\ PMul(a, -1) = PNeg(a)
ASSUME T_ChannelOps == \A a \in -9..9, b \in D : P_Chan("plus", P_Chan("minus", a, b), b) = a /\ P_Chan("mul", P_Chan("div", a, b), b) + CMod(a, b) = a
ASSUME T_SobelIsDx == P_IsDx(SobelDx) /\ P_IsDx(KTranspose(KTranspose(SobelDx))) /\ KTranspose(KTranspose(SobelDx)) = SobelDx
\* a chain followed by its inverse chain is the identity on coordinates (virtual views: value = Gen of the base coordinates)
Op(n) == [op |-> n, args |-> <<>>]
ASSUME T_ChainInverse ==
    \A w \in 1..4, h \in 1..3 : \A p \in {<<"flipUD", "flipUD">>, <<"flipLR", "flipLR">>, <<"transposed", "transposed">>, <<"rot90cw", "rot90ccw">>,
                                            <<"rot90ccw", "rot90cw">>, <<"rot180", "rot180">>} :
        P_ChainVals(<<Op(p[1]), Op(p[2])>>, w, h, 0) = P_ChainVals(<<>>, w, h, 0)
ASSUME T_ChainRot180 == \A w \in 1..4, h \in 1..3 : P_ChainVals(<<Op("flipLR"), Op("flipUD")>>, w, h, 0) = P_ChainVals(<<Op("rot180")>>, w, h, 0)
Init == x = 0
Next == UNCHANGED x
Spec == Init /\ [][Next]_x
=============================================================================
