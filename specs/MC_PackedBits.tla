---------------------------- MODULE MC_PackedBits ----------------------------
(* Design-level checks of PackedBits.tla:                                    *)
(*  - cursor machine: every sequence of ++ / -- / advance(n) of the          *)
(*    implementation-shaped bit cursor tracks the ideal linear bit position  *)
(*    (ghost variable lin), stays normalised, n then -n is the identity,     *)
(*    distance equals the number of pixels moved;                            *)
(*  - write machine: the implementation-shaped read-modify-write equals the  *)
(*    ideal "only these n bits" write for every content of the field.        *)
EXTENDS PackedBits, TLC

CONSTANTS PixSizes, MaxAdv, MaxByte, FieldBits, ChanBits, CarrierBytes

VARIABLES mode, psz, byte, bit, lin, start, hist,      \* cursor
          buf, p, n, v, cb                             \* write
vars == <<mode, psz, byte, bit, lin, start, hist, buf, p, n, v, cb>>

Mid == MaxByte \div 2
InitCur == /\ mode = "cur" /\ psz \in PixSizes /\ byte = Mid /\ bit \in 0..7
           /\ lin = byte * 8 + bit /\ start = lin /\ hist = 0
           /\ buf = 0 /\ p = 0 /\ n = 1 /\ v = 0 /\ cb = 1
InitWr  == /\ mode = "wr" /\ psz = 1 /\ byte = 0 /\ bit = 0 /\ lin = 0 /\ start = 0 /\ hist = 0
           /\ n \in ChanBits /\ p \in 0..(FieldBits - n) /\ cb \in CarrierBytes
           /\ (p % 8) + n <= 8 * cb                      \* the carrier can hold the channel
           /\ 8 * (p \div 8) + 8 * cb <= 24              \* ... and lies inside the 3-byte model buffer
           /\ buf = 0 /\ v \in {0, Pow2(n) - 1, (Pow2(n) - 1) \div 3}
Init == InitCur \/ InitWr

InBound(b) == b >= 0 /\ b <= MaxByte
Inc == /\ mode = "cur" /\ LET r == I_BitInc(byte, bit, psz) IN
          InBound(r[1]) /\ byte' = r[1] /\ bit' = r[2] /\ lin' = lin + psz /\ hist' = hist + 1
       /\ UNCHANGED <<mode, psz, start, buf, p, n, v, cb>>
Dec == /\ mode = "cur" /\ LET r == I_BitDec(byte, bit, psz) IN
          InBound(r[1]) /\ byte' = r[1] /\ bit' = r[2] /\ lin' = lin - psz /\ hist' = hist - 1
       /\ UNCHANGED <<mode, psz, start, buf, p, n, v, cb>>
Adv == /\ mode = "cur" /\ \E d \in (-MaxAdv)..MaxAdv :
          LET r == I_BitAdvance(byte, bit, d * psz) IN
          InBound(r[1]) /\ byte' = r[1] /\ bit' = r[2] /\ lin' = lin + d * psz /\ hist' = hist + d
       /\ UNCHANGED <<mode, psz, start, buf, p, n, v, cb>>
\* scan every content of the field
NextBg == /\ mode = "wr" /\ buf < Pow2(FieldBits) - 1 /\ buf' = buf + 1
          /\ UNCHANGED <<mode, psz, byte, bit, lin, start, hist, p, n, v, cb>>
Next == Inc \/ Dec \/ Adv \/ NextBg
Spec == Init /\ [][Next]_vars

IsCur == mode = "cur"
Inv_Normalised == IsCur => (bit >= 0 /\ bit <= 7)
Inv_TracksIdeal == IsCur => (byte * 8 + bit = lin /\ <<byte, bit>> = P_CursorAfter(Mid, start % 8, psz, hist))
Inv_Distance == IsCur => I_Distance(Mid, start % 8, byte, bit, psz) = hist
\* n then -n from any reachable position returns to it
Inv_ThereAndBack == IsCur => \A d \in (-MaxAdv)..MaxAdv :
                        LET r == I_BitAdvance(byte, bit, d * psz) q == I_BitAdvance(r[1], r[2], -(d * psz))
                        IN q = <<byte, bit>>
Inv_IncDec == IsCur => LET r == I_BitInc(byte, bit, psz) IN I_BitDec(r[1], r[2], psz) = <<byte, bit>>
Inv_Write == (mode = "wr") => I_WriteInt(buf, p, n, v, cb, TRUE) = P_WriteInt(buf, p, n, v)
\* the repaired implementation touches only bytes the channel occupies
Inv_Footprint == (mode = "wr") => I_TouchedBytes(p, n, cb, TRUE) = (p \div 8)..((p + n - 1) \div 8)
=============================================================================
