SPECIFICATION Spec
CONSTANTS
  PixSizes = {1,2,3,4,5,6,7,8,12,16}
  MaxAdv = 9
  MaxByte = 40
  FieldBits = 12
  ChanBits = {1,2,3,5,8}
  CarrierBytes = {1,2,3}
INVARIANTS Inv_Normalised Inv_TracksIdeal Inv_Distance Inv_ThereAndBack Inv_IncDec Inv_Write Inv_Footprint
CHECK_DEADLOCK FALSE
