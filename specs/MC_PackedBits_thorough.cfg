SPECIFICATION Spec
CONSTANTS
  PixSizes = {1,2,3,4,5,6,7,8,9,10,11,12,13,14,15,16,24}
  MaxAdv = 20
  MaxByte = 40
  FieldBits = 16
  ChanBits = {1,2,3,4,5,6,7,8,10,12,16}
  CarrierBytes = {1,2,3}
INVARIANTS Inv_Normalised Inv_TracksIdeal Inv_Distance Inv_ThereAndBack Inv_IncDec Inv_Write Inv_Footprint
CHECK_DEADLOCK FALSE
