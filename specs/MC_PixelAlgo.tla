---------------------------- MODULE MC_PixelAlgo ----------------------------
(* For every pair of view descriptors (all sizes, paddings, positive and      *)
(* negative steps, sub-view offsets) the slots touched by the 1-D-traversable *)
(* dispatch of fill_pixels / copy_pixels are exactly the slots of the         *)
(* per-pixel loop, pairwise (I => P).                                         *)
EXTENDS PixelAlgo, TLC
CONSTANTS MaxW, MaxH, Pads
StepSet == {1, 2, -1}
VARIABLES s, d, phase
vars == <<s, d, phase>>
Views(w, h) == UNION {{[org |-> o, xs |-> xs, ys |-> sg * (Abs(xs) * w + p), w |-> w, h |-> h] :
                          o \in {0, 3}, sg \in {1, -1}, p \in Pads} : xs \in StepSet}
Init == \E w \in 0..MaxW, h \in 0..MaxH : s \in Views(w, h) /\ d \in Views(w, h) /\ phase = "start"
Next == phase = "start" /\ phase' = "done" /\ UNCHANGED <<s, d>>
Spec == Init /\ [][Next]_vars
Inv_Fill == I_FillSlots(d) = P_ViewSlots(d)
Inv_Copy == I_CopyPairs(s, d) = P_CopyPairs(s, d)
=============================================================================
