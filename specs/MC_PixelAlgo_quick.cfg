SPECIFICATION Spec
CONSTANTS
  MaxW = 3
  MaxH = 3
  Pads = {0, 1, 2}
INVARIANTS Inv_Fill Inv_Copy
CHECK_DEADLOCK FALSE
