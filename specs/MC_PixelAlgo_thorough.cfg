SPECIFICATION Spec
CONSTANTS
  MaxW = 5
  MaxH = 4
  Pads = {0, 1, 2}
INVARIANTS Inv_Fill Inv_Copy
CHECK_DEADLOCK FALSE
