------------------------------ MODULE MC_Raster ------------------------------
(* every end point in a (2N+1)^2 window around the start (all octants): the     *)
(* implementation-shaped Bresenham loop satisfies the line clauses; every       *)
(* radius 0..R: the midpoint octant is near the circle, inside its box, and     *)
(* its 8 mirror images form a closed symmetric set.                             *)
EXTENDS Raster, TLC
CONSTANTS N, R, Clamp
VARIABLES kind, e, r
vars == <<kind, e, r>>
Init == \/ (kind = "line" /\ e \in ((-N)..N) \X ((-N)..N) /\ r = 0)
        \/ (kind = "circle" /\ e = <<0, 0>> /\ r \in 0..R)
Next == UNCHANGED vars
Spec == Init /\ [][Next]_vars
S0 == <<0, 0>>
Pts == I_Line(S0, e, Clamp)
IsLine == kind = "line"
Inv_Count == IsLine => Len(Pts) = LineCount(S0, e)
Inv_Ends  == IsLine => (Pts[1] = S0 /\ Pts[Len(Pts)] = e)
Inv_Steps == IsLine => \A i \in 1..(Len(Pts) - 1) : StepOk(Pts[i], Pts[i+1], S0, e)
Inv_BBox  == IsLine => \A i \in 1..Len(Pts) : InBBox(Pts[i], S0, e)
\* the pinned loop (Clamp = FALSE, slope over pixel counts) leaves the bounding box exactly for shallow lines:
\* minor extent >= 1 and major extent >= 4 * minor + 3   (characterisation of the open finding)
MajorExt == Max2(Abs(e[1]), Abs(e[2]))
MinorExt == Min2(Abs(e[1]), Abs(e[2]))
Inv_EscapeCharacterised == IsLine => ((\E i \in 1..Len(Pts) : ~InBBox(Pts[i], S0, e)) <=> (~Clamp /\ MinorExt >= 1 /\ MajorExt >= 4 * MinorExt + 3))
Inv_Near  == IsLine => \A i \in 1..Len(Pts) : NearSegment(Pts[i], S0, e)
\* midpoint circle: iteration count as point_count()/8 = round(r*cos(pi/4)) + 1, bracketed without floating point:
\* n-1 = round(r/sqrt 2)  <=>  (2(n-1)-1)^2 <= 2 r^2 < (2(n-1)+1)^2 ... we take the unique n with that property
OctN == 1 + (CHOOSE k \in 0..(r + 1) : (k = 0 \/ (2 * k - 1) * (2 * k - 1) <= 2 * r * r) /\ 2 * r * r < (2 * k + 1) * (2 * k + 1))
Oct == I_MidpointOctant(r, OctN)
CSet == UNION {Mirror8(Oct[i][1], Oct[i][2]) : i \in 1..Len(Oct)}
IsCircle == kind = "circle"
Inv_CircleNear == IsCircle => \A p \in CSet : NearCircle(p[1], p[2], r) /\ Abs(p[1]) <= r /\ Abs(p[2]) <= r
Inv_CircleClosed == (IsCircle /\ r >= 2) => \A p \in CSet : Cardinality({q \in CSet : Adjacent(p, q)}) >= 2
=============================================================================
