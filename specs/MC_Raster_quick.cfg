SPECIFICATION Spec
CONSTANTS
  N = 8
  R = 16
  Clamp = FALSE
INVARIANTS Inv_Count Inv_Ends Inv_Steps Inv_EscapeCharacterised Inv_CircleNear Inv_CircleClosed
CHECK_DEADLOCK FALSE
