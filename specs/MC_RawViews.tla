---------------------------- MODULE MC_RawViews ----------------------------
EXTENDS RawViews, TLC
CONSTANTS N
ASSUME Thm_PlanarFits == \A w \in 1..N, h \in 1..N, pad \in 0..3 : P_PlanarFits(w, h, w + pad)
ASSUME Thm_InterleavedFits == \A w \in 1..N, h \in 1..N, nc \in 1..5, pad \in 0..3 : P_InterleavedFits(w, h, nc, w * nc + pad)
\* distinct (x, y, k) address distinct bytes of an interleaved buffer when a row fits into rowbytes
ASSUME Thm_InterleavedInjective ==
    \A w \in 1..4, h \in 1..3, nc \in 1..4, pad \in 0..2 :
        LET rb == w * nc + pad  Off(x, y, k) == y * rb + x * nc + k IN
        \A x1, x2 \in 0..(w - 1), y1, y2 \in 0..(h - 1), k1, k2 \in 1..nc : Off(x1, y1, k1) = Off(x2, y2, k2) => (x1 = x2 /\ y1 = y2 /\ k1 = k2)
VARIABLE x
Init == x = 0
Next == x' = x
Spec == Init /\ [][Next]_x
=============================================================================
