SPECIFICATION Spec
CONSTANTS
  N = 8
