SPECIFICATION Spec
CONSTANTS
  N = 24
