----------------------------- MODULE MC_Resample -----------------------------
(* all shapes 1..MaxW x 1..MaxH with small pixel values, every sample point on the   *)
(* 1/8 grid over [-2, w+1] x [-2, h+1]: the implementation-shaped sampler satisfies  *)
(* the convex-hull clause wherever it reports "inside"; every one of the nine        *)
(* border cases is reached.                                                          *)
EXTENDS Resample, TLC
CONSTANTS MaxW, MaxH, Vals
VARIABLES img, px8, py8
vars == <<img, px8, py8>>
Init == /\ \E w \in 1..MaxW, h \in 1..MaxH : img \in [1..h -> [1..w -> Vals]]
        /\ px8 = -16 /\ py8 = -16
Next == \/ (px8 < 8 * (W(img) + 1) /\ px8' = px8 + 1 /\ UNCHANGED <<img, py8>>)
        \/ (px8 = 8 * (W(img) + 1) /\ py8 < 8 * (H(img) + 1) /\ px8' = -16 /\ py8' = py8 + 1 /\ UNCHANGED img)
Spec == Init /\ [][Next]_vars
Inv_Bilinear == ~I_BilinearOutside(img, px8, py8) => P_BilinearOk(img, px8, py8, I_Bilinear(img, px8, py8))
Inv_Nearest  == P_NearestInside(img, px8, py8) => P_NearestValue(img, px8, py8) \in Block(img, px8 - 4, py8 - 4) \cup Block(img, px8, py8) \cup Block(img, px8 + 4, py8 + 4) \cup Block(img, px8 - 4, py8 + 4) \cup Block(img, px8 + 4, py8 - 4)
=============================================================================
