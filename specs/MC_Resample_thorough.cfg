SPECIFICATION Spec
CONSTANTS
  MaxW = 3
  MaxH = 2
  Vals = {10, 20, 90}
INVARIANTS Inv_Bilinear Inv_Nearest
CHECK_DEADLOCK FALSE
