SPECIFICATION Spec
CONSTANTS
  H = 4
  Sequential = FALSE
  MaxOps = 9
INVARIANTS Inv_RowIsPosition Inv_InStep
CHECK_DEADLOCK FALSE
