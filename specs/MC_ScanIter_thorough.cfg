SPECIFICATION Spec
CONSTANTS
  H = 6
  Sequential = TRUE
  MaxOps = 14
INVARIANTS Inv_RowIsPosition Inv_InStep
CHECK_DEADLOCK FALSE
