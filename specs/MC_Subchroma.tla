---------------------------- MODULE MC_Subchroma ----------------------------
EXTENDS Subchroma, TLC
CONSTANTS N
\* planes of the ceiling size cover every position, and no smaller plane does
ASSUME Thm_CeilCovers ==
    \A f \in Factors, w \in 1..N, h \in 1..N : P_Covers(w, h, f[1], f[2], P_PlaneDims(w, h, f[1], f[2]))
ASSUME Thm_CeilIsLeast ==
    \A f \in Factors, w \in 1..N, h \in 1..N :
        LET d == P_PlaneDims(w, h, f[1], f[2]) IN ~P_Covers(w, h, f[1], f[2], <<d[1] - 1, d[2]>>) /\ ~P_Covers(w, h, f[1], f[2], <<d[1], d[2] - 1>>)
\* planes of the floor size cover the image exactly when both dimensions are multiples of the factors
ASSUME Thm_FloorCoversIffMultiple ==
    \A f \in Factors, w \in 1..N, h \in 1..N :
        P_Covers(w, h, f[1], f[2], <<w \div SSX(f[1]), h \div SSY(f[1], f[2])>>) <=> (w % SSX(f[1]) = 0 /\ h % SSY(f[1], f[2]) = 0)
VARIABLE x
Init == x = 0
Next == x' = x
Spec == Init /\ [][Next]_x
=============================================================================
