SPECIFICATION Spec
CONSTANTS
  N = 9
