SPECIFICATION Spec
CONSTANTS
  N = 17
