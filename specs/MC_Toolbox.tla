------------------------------ MODULE MC_Toolbox ------------------------------
EXTENDS Toolbox, TLC
CONSTANT Step
VARIABLES r, g, b
vars == <<r, g, b>>
Lattice == {v \in 0..255 : v % Step = 0} \cup {255, 254, 1, 127, 128}
Init == r \in Lattice /\ g \in Lattice /\ b = 0
Next == b < 255 /\ b' = b + 1 /\ UNCHANGED <<r, g>>
Spec == Init /\ [][Next]_vars
Inv_HsvRoundTrip == I_HsvDecode(Max3(r, g, b), Min3(r, g, b), IF Max3(r, g, b) = Min3(r, g, b) THEN 0 ELSE I_Hue6Num(r, g, b)) = <<r, g, b>>
Inv_HueInRange == (Max3(r, g, b) # Min3(r, g, b)) => (I_Hue6Num(r, g, b) >= 0 /\ I_Hue6Num(r, g, b) < 6 * (Max3(r, g, b) - Min3(r, g, b)))
=============================================================================
