SPECIFICATION Spec
CONSTANTS
  Step = 17
INVARIANTS Inv_HsvRoundTrip Inv_HueInRange
CHECK_DEADLOCK FALSE
