SPECIFICATION Spec
CONSTANTS
  Step = 3
INVARIANTS Inv_HsvRoundTrip Inv_HueInRange
CHECK_DEADLOCK FALSE
