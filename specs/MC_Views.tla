------------------------------- MODULE MC_Views -------------------------------
(***************************************************************************)
(* Design-level model checking of Views.tla.                               *)
(*  create:  every (w,h,alignment,organisation,allocator address residue)  *)
(*           -> every pixel of the new image lies inside its allocation    *)
(*  compose: every composition of view factories up to MaxDepth over every *)
(*           root shape: the implementation-shaped memory descriptor        *)
(*           addresses exactly the root pixel that the documented           *)
(*           coordinate formulas name (I => P), stays inside the root, and  *)
(*           the algebraic identities hold at descriptor level.             *)
(***************************************************************************)
EXTENDS Views, TLC

CONSTANTS MaxW, MaxH, MaxDepth, Aligns, Kinds, Steps

KindsQuick == {<<1,1,1>>, <<3,1,1>>, <<2,1,3>>, <<1,8,1>>, <<6,8,1>>}
KindsThorough == {<<1,1,1>>, <<3,1,1>>, <<8,1,1>>, <<1,1,3>>, <<2,1,4>>, <<1,8,1>>, <<2,8,1>>, <<6,8,1>>, <<12,8,1>>}
\* organisations: <<psz (memunits per pixel or channel), upb, planes>>
KindSet == Kinds

VARIABLES root,   \* [w,h,psz,upb,planes,align,a0,size,pitch]
          d,      \* current memory descriptor
          m,      \* current coordinate map: <<x,y>> -> root <<X,Y>>
          depth, lastop
vars == <<root, d, m, depth, lastop>>

Coords(w, h) == (0..(w-1)) \X (0..(h-1))

Init == \E w \in 0..MaxW, h \in 0..MaxH, k \in KindSet, al \in Aligns :
          \E a0 \in (IF al > 0 THEN 0..(Min2(al, 4) - 1) ELSE {0}) :
            LET psz == k[1] upb == k[2] planes == k[3]
                pitch == I_RowSize(w, psz, upb, al)
                size  == I_AllocBytes(w, h, psz, upb, planes, al)
                first == I_FirstByte(a0, al) * upb
            IN /\ root = [w |-> w, h |-> h, psz |-> psz, upb |-> upb, planes |-> planes, align |-> al,
                          a0 |-> a0, size |-> size, pitch |-> pitch, first |-> first]
               /\ d = Desc(first, psz, pitch, w, h)
               /\ m = [p \in Coords(w, h) |-> p]
               /\ depth = 0 /\ lastop = "create"

ArgsOf(op) ==
    CASE op = "subimage"   -> {<<x0, y0, w1, h1>> : x0 \in 0..d.w, y0 \in 0..d.h, w1 \in 0..d.w, h1 \in 0..d.h}
      [] op = "subsampled" -> {<<sx, sy>> : sx \in Steps, sy \in Steps}
      [] OTHER -> {<<>>}

Apply(op) ==
    /\ depth < MaxDepth
    /\ \E args \in ArgsOf(op) :
         /\ P_OpValid(op, args, d.w, d.h)
         /\ LET dims == P_Dims(op, args, d.w, d.h) IN
            /\ d' = I_Apply(op, args, d)
            /\ m' = [p \in Coords(dims[1], dims[2]) |->
                       LET s == P_Src(op, args, d.w, d.h, p[1], p[2]) IN m[s]]
    /\ depth' = depth + 1 /\ lastop' = op /\ UNCHANGED root

Next == \E op \in Ops0 \cup {"subimage", "subsampled"} : Apply(op)
Spec == Init /\ [][Next]_vars

-----------------------------------------------------------------------------
RootDesc == Desc(root.first, root.psz, root.pitch, root.w, root.h)
PlaneSize == root.pitch * root.h

\* C01: every pixel of the image / of any derived view lies inside the allocation (all planes)
Inv_InBounds ==
    \A p \in Coords(d.w, d.h) :
        P_PixelInside(d, p[1], p[2], root.psz, root.upb, root.planes, PlaneSize, root.size)
\* the first pixel honours the requested alignment
Inv_Aligned == root.align > 0 => ((root.a0 + root.first \div root.upb) % root.align = 0 /\ (root.pitch % (root.align * root.upb)) = 0)
\* C02: dimensions and addresses are those of the documented coordinate formula
Inv_Dims == DOMAIN m = Coords(d.w, d.h)
Inv_Consistent ==
    \A p \in Coords(d.w, d.h) : AddrOf(d, p[1], p[2]) = AddrOf(RootDesc, m[p][1], m[p][2])
Inv_MapInRoot ==
    \A p \in Coords(d.w, d.h) : m[p][1] \in 0..(root.w - 1) /\ m[p][2] \in 0..(root.h - 1)
\* algebraic identities at descriptor level, from every reachable view
Twice(op, x) == I_Apply(op, <<>>, I_Apply(op, <<>>, x))
Inv_Identities ==
    /\ Twice("flipUD", d) = d /\ Twice("flipLR", d) = d /\ Twice("transposed", d) = d
    /\ Twice("rot90cw", Twice("rot90cw", d)) = d
    /\ I_Apply("rot180", <<>>, d) = I_Apply("flipLR", <<>>, I_Apply("flipUD", <<>>, d))
    /\ I_Apply("rot90ccw", <<>>, I_Apply("rot90cw", <<>>, d)) = d
    /\ Twice("rot90cw", d) = I_Apply("rot180", <<>>, d)
=============================================================================
