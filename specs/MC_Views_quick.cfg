SPECIFICATION Spec
CONSTANTS
  MaxW = 3
  MaxH = 3
  MaxDepth = 2
  Aligns = {0, 1, 2, 4, 8, 16}
  Kinds <- KindsQuick
  Steps = {1, 2, 3}
INVARIANTS Inv_InBounds Inv_Aligned Inv_Dims Inv_Consistent Inv_MapInRoot Inv_Identities
CHECK_DEADLOCK FALSE
