SPECIFICATION Spec
CONSTANTS
  MaxW = 4
  MaxH = 4
  MaxDepth = 3
  Aligns = {0, 1, 2, 4, 8, 16, 32}
  Kinds <- KindsThorough
  Steps = {1, 2, 3}
INVARIANTS Inv_InBounds Inv_Aligned Inv_Dims Inv_Consistent Inv_MapInRoot Inv_Identities
CHECK_DEADLOCK FALSE
