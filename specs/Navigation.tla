----------------------------- MODULE Navigation -----------------------------
(***************************************************************************)
(* 1-D traversal of a 2-D view (iterator_from_2d), step iterators and      *)
(* locators (C03).  P_: the position an iterator denotes after a sequence  *)
(* of moves is the linear index arithmetic lin' = lin + d, with            *)
(* (x,y) = (lin % w, lin \div w).  I_: the carry arithmetic of             *)
(* iterator_from_2d (C++ truncating / and %), the step-iterator            *)
(* comparison rule and the locator offset arithmetic.                      *)
(***************************************************************************)
EXTENDS GilInt

\* P_: coordinates of linear position lin in a view of width w (w > 0); end() is (0,h)
P_Coords(lin, w) == <<lin % w, lin \div w>>

\* I_: iterator_from_2d::advance(d) on coordinates (x,y), width w
I_Advance(x, y, w, d) ==
    IF w = 0 THEN <<x, y>>
    ELSE IF x + d >= 0
         THEN LET dx == CMod(x + d, w) - x
                  dy == CDiv(x + d, w)
              IN <<x + dx, y + dy>>
         ELSE LET dx == CMod(x + d * (1 - w), w) - x
                  dy == -CDiv(w - x - d - 1, w)
              IN <<x + dx, y + dy>>
I_Inc(x, y, w) == IF x + 1 >= w THEN <<0, y + 1>> ELSE <<x + 1, y>>
I_Dec(x, y, w) == IF x - 1 < 0 THEN <<w - 1, y - 1>> ELSE <<x - 1, y>>
I_Distance(x0, y0, x1, y1, w) == IF w = 0 THEN 0 ELSE (y1 - y0) * w + (x1 - x0)

\* memory position of (x,y) for a locator with steps (xs, ys) from org
I_Addr(org, xs, ys, x, y) == org + x * xs + y * ys

\* step iterator ordering: decided by memory distance and the sign of the step (repaired rule)
I_StepLess(pos1, pos2, step) == IF step > 0 THEN pos2 - pos1 > 0 ELSE pos2 - pos1 < 0
\* the pre-fix rule for a y-iterator whose base x-iterator has step xs: bases compared with the base's own rule
I_StepLessNested(pos1, pos2, step, xs) ==
    IF step > 0 THEN (IF xs > 0 THEN pos1 < pos2 ELSE pos1 > pos2)
                ELSE (IF xs > 0 THEN pos1 > pos2 ELSE pos1 < pos2)
=============================================================================
