------------------------------ MODULE Numeric ------------------------------
(***************************************************************************)
(* Extension X01 (beyond the listed properties): the small numeric layer   *)
(* that the listed algorithms are built from.                              *)
(*  - iround / ifloor / iceil and point<T> arithmetic (utilities.hpp,      *)
(*    point.hpp)                                                           *)
(*  - channel_*_t and pixel_*_t function objects                           *)
(*    (channel_numeric_operations.hpp, pixel_numeric_operations.hpp)       *)
(*  - kernel generators of image_processing/numeric.hpp                    *)
(*  - premultiply (premultiply.hpp)                                        *)
(*  - views over virtual_2d_locator under the view factories: the value    *)
(*    seen at (x,y) is the generating function at the coordinates given    *)
(*    by Views.tla (C02's formulas, for a locator that has no memory)      *)
(***************************************************************************)
EXTENDS Views

\* ---- rounding: arguments are the rationals n/d ---------------------------------
RoundHalfAway(n, d) == LET s == Sgn(n) * Sgn(d)  a == Abs(n)  b == Abs(d) IN s * ((2 * a + b) \div (2 * b))
FloorQ(n, d) == IF d > 0 THEN n \div d ELSE (-n) \div (-d)
CeilQ(n, d)  == -FloorQ(-n, d)
TruncQ(n, d) == CDiv(n, d)

P_Round(f, k) == CASE f = "iround" -> RoundHalfAway(k, 8) [] f = "ifloor" -> FloorQ(k, 8) [] f = "iceil" -> CeilQ(k, 8)

\* ---- points -----------------------------------------------------------------------
PAdd(a, b) == <<a[1] + b[1], a[2] + b[2]>>
PSub(a, b) == <<a[1] - b[1], a[2] - b[2]>>
PNeg(a)    == <<-a[1], -a[2]>>
PMul(a, s) == <<a[1] * s, a[2] * s>>
\* point / scalar is documented to round to nearest (iround of the real quotient) ...
PDivRound(a, s) == <<RoundHalfAway(a[1], s), RoundHalfAway(a[2], s)>>
\* ... while /= converts the real quotient back to T (truncation)
PDivTrunc(a, s) == <<TruncQ(a[1], s), TruncQ(a[2], s)>>

\* ---- channel / pixel function objects (int result type, no overflow in the explored range) ---
P_Chan(op, a, b) == CASE op \in {"plus", "pluss", "uplus"} -> a + b
                      [] op \in {"minus", "minuss", "uminus"} -> a - b
                      [] op \in {"mul", "muls", "umul"} -> a * b
                      [] op \in {"div", "divs"} -> CDiv(a, b)
                      [] op = "half" -> CDiv(a, 2)
                      [] op = "zero" -> 0
                      [] op = "assign" -> a
P_Pix(op, a, b, s) == [c \in 1..Len(a) |->
                        CASE op \in {"plus", "minus", "mul", "div"} -> P_Chan(op, a[c], b[c])
                          [] op = "muls" -> a[c] * s
                          [] op = "divs" -> CDiv(a[c], s)
                          [] op = "half" -> CDiv(a[c], 2)
                          [] op = "zero" -> 0
                          [] op = "assign" -> a[c]]

\* ---- kernels (row-major n x n) -----------------------------------------------------
Side(v) == CHOOSE n \in 0..Len(v) : n * n = Len(v)
KAt(v, n, x, y) == v[y * n + x + 1]
KTranspose(v) == LET n == Side(v) IN [i \in 1..Len(v) |-> KAt(v, n, (i - 1) \div n, (i - 1) % n)]
KFlipLR(v) == LET n == Side(v) IN [i \in 1..Len(v) |-> KAt(v, n, n - 1 - ((i - 1) % n), (i - 1) \div n)]
KFlipUD(v) == LET n == Side(v) IN [i \in 1..Len(v) |-> KAt(v, n, (i - 1) % n, n - 1 - ((i - 1) \div n))]
SobelDx == <<1, 0, -1, 2, 0, -2, 1, 0, -1>>
\* a horizontal derivative kernel: antisymmetric left-right, symmetric up-down, zero middle column
P_IsDx(v) == KFlipLR(v) = [i \in 1..Len(v) |-> -v[i]] /\ KFlipUD(v) = v
\* the dy generator of a family is the transpose of its dx generator (same orientation convention)
P_DyOfDx(dx, dy) == dy = KTranspose(dx)
P_GaussShape(v) ==
    LET n == Side(v)  c == n \div 2 IN
    /\ \A i \in 1..Len(v) : v[i] >= 0          \* (scaled and rounded: far tails may round to 0)
    /\ KAt(v, n, c, c) > 0
    /\ KTranspose(v) = v /\ KFlipLR(v) = v /\ KFlipUD(v) = v
    /\ \A y \in 0..(n - 1), x \in 0..(n - 2) : IF x < c THEN KAt(v, n, x, y) <= KAt(v, n, x + 1, y) ELSE KAt(v, n, x, y) >= KAt(v, n, x + 1, y)
P_SumsTo(v, one, tol) == Abs(SumSeq(v) - one) <= tol

\* ---- premultiply (8-bit): colour := channel_multiply(colour, alpha), alpha kept -----
P_MulNear(c, a, r) == /\ Abs(255 * r - c * a) <= 255 /\ (a = 255 => r = c) /\ (a = 0 => r = 0) /\ r >= 0 /\ r <= 255

\* ---- virtual views: value of the generating function -------------------------------
P_VirtVals(ops, w, h) == P_ChainVals(ops, w, h, 0)
=============================================================================
