----------------------------- MODULE PackedBits -----------------------------
(***************************************************************************)
(* Packed and bit-aligned pixels (C08): where a channel lives, what a      *)
(* write may change, and how a bit cursor moves.                           *)
(*                                                                         *)
(* Memory is a sequence of bytes (1-indexed).  Absolute bit j (0-based)    *)
(* is bit (j % 8) of byte (j \div 8) + 1, least significant bit first;     *)
(* a field [p, p+n) holds its value little-endian.  This is the layout    *)
(* GIL documents for packed_pixel and bit_aligned_pixel_reference:         *)
(* channel k of a pixel at bit position pos with channel sizes cs          *)
(* occupies [pos + cs[1]+..+cs[k-1], +cs[k]).                              *)
(***************************************************************************)
EXTENDS GilInt, Bitwise

\* value of the field [p, p+n) of a byte sequence, n <= 24
RECURSIVE GetBitsFrom(_, _, _)
GetBitsFrom(bytes, p, n) ==
    IF n <= 0 THEN 0
    ELSE LET k    == p \div 8 + 1
             o    == p % 8
             take == Min2(n, 8 - o)
             part == (bytes[k] \div Pow2(o)) % Pow2(take)
         IN part + Pow2(take) * GetBitsFrom(bytes, p + take, n - take)
GetBits(bytes, p, n) == GetBitsFrom(bytes, p, n)

\* the byte sequence after storing v (0 <= v < 2^n) into [p, p+n); nothing else changes
SetBits(bytes, p, n, v) ==
    [k \in 1..Len(bytes) |->
        LET lo == Max2(p, 8 * (k-1))
            hi == Min2(p + n, 8 * k)
        IN IF lo >= hi THEN bytes[k]
           ELSE LET a == lo - 8 * (k-1)          \* first bit of the field inside this byte
                    c == hi - lo                 \* number of field bits inside this byte
                    f == (v \div Pow2(lo - p)) % Pow2(c)
                IN (bytes[k] % Pow2(a)) + f * Pow2(a) + (bytes[k] \div Pow2(a + c)) * Pow2(a + c)]

\* channel geometry
ChanPos(pos, cs, k) == pos + SumSeq(SubSeq(cs, 1, k-1))
PixBits(cs) == SumSeq(cs)

RECURSIVE ApplyWrites(_, _)
\* ws: sequence of <<p, n, v>>
ApplyWrites(bytes, ws) ==
    IF ws = <<>> THEN bytes
    ELSE ApplyWrites(SetBits(bytes, Head(ws)[1], Head(ws)[2], Head(ws)[3]), Tail(ws))

\* all channels of the pixel at pos, as a sequence of values
ReadPixel(bytes, pos, cs) == [k \in 1..Len(cs) |-> GetBits(bytes, ChanPos(pos, cs, k), cs[k])]
PixelWrites(pos, cs, vals) == [k \in 1..Len(cs) |-> <<ChanPos(pos, cs, k), cs[k], vals[k]>>]

-----------------------------------------------------------------------------
(* Property layer: the memory an operation must leave behind.              *)
(* op is a record; the result is the expected byte sequence.               *)
P_Expected(before, op) ==
    CASE op.op = "chan_assign" ->          \* channel k := v
            SetBits(before, ChanPos(op.pos, op.cs, op.k), op.cs[op.k], op.v)
      [] op.op = "chan_add" ->             \* channel k := (old + d) mod 2^n   (++, --, +=, -=)
            LET p == ChanPos(op.pos, op.cs, op.k) n == op.cs[op.k]
                old == GetBits(before, p, n)
            IN SetBits(before, p, n, (old + op.d) % Pow2(n))
      [] op.op = "pix_assign" ->           \* whole pixel := vals
            ApplyWrites(before, PixelWrites(op.pos, op.cs, op.vals))
      [] op.op = "swap" ->                 \* pixels at pos and pos2 exchange values
            LET a == ReadPixel(before, op.pos, op.cs) b == ReadPixel(before, op.pos2, op.cs)
            IN ApplyWrites(before, PixelWrites(op.pos, op.cs, b) \o PixelWrites(op.pos2, op.cs, a))
      [] op.op = "fill" ->                 \* count consecutive pixels from pos := vals
            ApplyWrites(before, [i \in 1..(op.count * Len(op.cs)) |->
                LET px == (i - 1) \div Len(op.cs) k == ((i - 1) % Len(op.cs)) + 1
                IN <<ChanPos(op.pos + px * op.stride, op.cs, k), op.cs[k], op.vals[k]>>])
      [] op.op = "copy" ->                 \* count pixels from spos (same buffer, disjoint) to pos
            ApplyWrites(before, [i \in 1..(op.count * Len(op.cs)) |->
                LET px == (i - 1) \div Len(op.cs) k == ((i - 1) % Len(op.cs)) + 1
                IN <<ChanPos(op.pos + px * op.stride, op.cs, k), op.cs[k],
                     GetBits(before, ChanPos(op.spos + px * op.stride, op.cs, k), op.cs[k])>>])
      [] op.op = "read" -> before

\* bit cursor: advancing by n pixels of psz bits
P_CursorAfter(byte, bit, psz, n) ==
    LET lin == byte * 8 + bit + n * psz IN <<lin \div 8, lin % 8>>      \* floor semantics: 0 <= bit < 8

-----------------------------------------------------------------------------
(* Implementation-shaped layer                                             *)

\* bit_range::bit_advance(num_bits)
I_BitAdvance(byte, bit, nb) ==
    LET no == bit + nb
        b1 == byte + CDiv(no, 8)
        o1 == CMod(no, 8)
    IN IF o1 < 0 THEN <<b1 - 1, o1 + 8>> ELSE <<b1, o1>>
\* bit_range::operator++ / operator--
I_BitInc(byte, bit, psz) == <<byte + (bit + psz) \div 8, (bit + psz) % 8>>
I_BitDec(byte, bit, psz) == I_BitAdvance(byte, bit, -psz)
\* bit_aligned_pixel_iterator::distance_to
I_Distance(b0, o0, b1, o1, psz) == CDiv((b1 - b0) * 8 + o1 - o0, psz)

\* read-modify-write of a channel through a carrier of cbytes bytes that starts at the byte
\* holding the channel's first bit (packed_dynamic_channel_reference::set_unsafe), buffer value
\* given as an integer (little endian), field [p, p+n).  Only the bytes the channel spans are
\* touched (narrow = TRUE, the repaired behaviour) or the whole carrier (narrow = FALSE).
I_WriteInt(buf, p, n, v, cbytes, narrow) ==
    LET b0    == p \div 8
        first == p % 8
        nb    == IF narrow THEN (first + n + 7) \div 8 ELSE cbytes
        car   == shiftR(buf, 8 * b0) & (Pow2(8 * nb) - 1)
        mask  == (Pow2(n) - 1) * Pow2(first)
        new   == ((car & (Pow2(8 * nb) - 1 - mask)) | (v * Pow2(first))) & (Pow2(8 * nb) - 1)
    IN (buf - car * Pow2(8 * b0)) + new * Pow2(8 * b0)
I_TouchedBytes(p, n, cbytes, narrow) ==
    LET b0 == p \div 8 IN b0 .. (b0 + (IF narrow THEN ((p % 8) + n + 7) \div 8 ELSE cbytes) - 1)

P_WriteInt(buf, p, n, v) ==
    (buf % Pow2(p)) + v * Pow2(p) + (buf \div Pow2(p + n)) * Pow2(p + n)
=============================================================================
