------------------------------ MODULE PixelAlgo ------------------------------
(***************************************************************************)
(* Pixel algorithms (C04).                                                 *)
(* P_: the result of an algorithm is the obvious loop over (x,y) in        *)
(* row-major order, evaluated bit-exactly on the whole destination buffer  *)
(* (so everything outside the destination pixels' channel bits is a frame  *)
(* condition).  A pixel is given by its channel bit fields in colour       *)
(* order: a flat sequence <<pos1, n1, pos2, n2, ...>>; pixels of the       *)
(* source and destination views are paired by index (row-major) and their  *)
(* channels by colour.                                                     *)
(* I_: the 1-D-traversable dispatch of algorithm.hpp over view descriptors *)
(* in pixel-slot units (used by MC_PixelAlgo).                             *)
(***************************************************************************)
EXTENDS PackedBits

NF(f)      == Len(f) \div 2
FPos(f, k) == f[2 * k - 1]
FLen(f, k) == f[2 * k]
PixVals(buf, f) == [k \in 1..NF(f) |-> GetBits(buf, FPos(f, k), FLen(f, k))]
WritePix(buf, f, vals) == ApplyWrites(buf, [k \in 1..NF(f) |-> <<FPos(f, k), FLen(f, k), vals[k]>>])

RECURSIVE P_LoopFrom(_, _, _, _)
\* pixels i..Len(df) of the destination receive vals[i], in order
P_LoopFrom(buf, df, i, vals) ==
    IF i > Len(df) THEN buf ELSE P_LoopFrom(WritePix(buf, df[i], vals[i]), df, i + 1, vals)
\* Val(i) is evaluated on the buffers as they were before the call (pixels are disjoint)
P_Loop(buf, df, Val(_)) == P_LoopFrom(buf, df, 1, [i \in 1..Len(df) |-> Val(i)])

InvVals(f, vals) == [k \in 1..NF(f) |-> Pow2(FLen(f, k)) - 1 - vals[k]]
XorVals(a, b)    == [k \in 1..Len(a) |-> a[k] ^^ b[k]]

\* expected destination buffer of one algorithm call
P_Result(algo, src, dst, sf, df, integral, val) ==
    CASE algo \in {"copy", "copy_and_convert", "generate"} ->
            P_Loop(dst, df, LAMBDA i : PixVals(src, sf[i]))
      [] algo = "fill" -> P_Loop(dst, df, LAMBDA i : val)
      [] algo \in {"for_each", "for_each_position"} ->
            IF integral THEN P_Loop(dst, df, LAMBDA i : InvVals(df[i], PixVals(dst, df[i]))) ELSE dst
      [] algo \in {"transform1", "transform_positions1"} ->
            IF integral THEN P_Loop(dst, df, LAMBDA i : InvVals(df[i], PixVals(src, sf[i])))
                        ELSE P_Loop(dst, df, LAMBDA i : PixVals(src, sf[i]))
      [] algo \in {"transform2", "transform_positions2"} ->
            P_Loop(dst, df, LAMBDA i : XorVals(PixVals(src, sf[i]), PixVals(dst, df[i])))
      [] algo = "equal" -> dst

P_Equal(src, dst, sf, df) == \A i \in 1..Len(df) : PixVals(src, sf[i]) = PixVals(dst, df[i])
\* functors are called once per pixel in row-major order: the k-th call sees pixel k
P_CallOrder(calls, f) == Len(calls) = Len(f) /\ \A i \in 1..Len(f) : calls[i] = FPos(f[i], 1)

-----------------------------------------------------------------------------
(* Implementation-shaped layer: views as slot descriptors [org, xs, ys, w, h]; a buffer is a   *)
(* sequence of slot values.                                                                   *)
Slot(v, x, y) == v.org + x * v.xs + y * v.ys
Is1D(v) == v.ys = v.xs * v.w                      \* image_view::is_1d_traversable

\* fill_pixels: one run over begin().x() .. end().x() when 1-D traversable, else row by row
I_FillSlots(v) ==
    IF Is1D(v) THEN {v.org + k * v.xs : k \in 0..(v.w * v.h - 1)}
               ELSE {Slot(v, x, y) : x \in 0..(v.w - 1), y \in 0..(v.h - 1)}
\* copy_pixels: a single run when both are 1-D traversable, else rows (pairs of <<src slot, dst slot>>)
I_CopyPairs(s, d) ==
    IF Is1D(s) /\ Is1D(d) THEN {<<s.org + k * s.xs, d.org + k * d.xs>> : k \in 0..(s.w * s.h - 1)}
                          ELSE {<<Slot(s, x, y), Slot(d, x, y)>> : x \in 0..(s.w - 1), y \in 0..(s.h - 1)}
P_ViewSlots(v) == {Slot(v, x, y) : x \in 0..(v.w - 1), y \in 0..(v.h - 1)}
P_CopyPairs(s, d) == {<<Slot(s, x, y), Slot(d, x, y)>> : x \in 0..(s.w - 1), y \in 0..(s.h - 1)}
=============================================================================
