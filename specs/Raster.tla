-------------------------------- MODULE Raster --------------------------------
(***************************************************************************)
(* Rasterizers (C20): Bresenham line, midpoint / trigonometric circle,     *)
(* midpoint ellipse.  P_: what a rasterised curve must look like.          *)
(* I_: the loops of line.hpp / circle.hpp / ellipse.hpp with exact         *)
(* rational error terms.                                                   *)
(***************************************************************************)
EXTENDS GilInt

P(x, y) == <<x, y>>
\* ---------------------------------------------------------------- line, P_
LineCount(s, e) == Max2(Abs(e[1] - s[1]), Abs(e[2] - s[2])) + 1
Steep(s, e) == Abs(e[1] - s[1]) < Abs(e[2] - s[2])           \* major axis is y
MajC(p, st) == IF st THEN p[2] ELSE p[1]
MinC(p, st) == IF st THEN p[1] ELSE p[2]
InBBox(p, s, e) == /\ Min2(s[1], e[1]) <= p[1] /\ p[1] <= Max2(s[1], e[1])
                   /\ Min2(s[2], e[2]) <= p[2] /\ p[2] <= Max2(s[2], e[2])
\* within one pixel, measured along the minor axis, of the ideal segment (cross-multiplied, no division)
NearSegment(p, s, e) ==
    LET st == Steep(s, e) D == MajC(e, st) - MajC(s, st) d == MinC(e, st) - MinC(s, st)
    IN IF D = 0 THEN p = s
       ELSE Abs((MinC(p, st) - MinC(s, st)) * D - (MajC(p, st) - MajC(s, st)) * d) <= Abs(D)
StepOk(p, q, s, e) ==
    LET st == Steep(s, e) IN
    /\ Abs(q[1] - p[1]) <= 1 /\ Abs(q[2] - p[2]) <= 1
    /\ MajC(q, st) - MajC(p, st) = Sgn(MajC(e, st) - MajC(s, st))         \* exactly one step along the major axis

\* ---------------------------------------------------------------- line, I_
\* the loop of bresenham_line_rasterizer with slope (|dy|+1)/(|dx|+1); error term kept as a numerator over the
\* width.  clamp = TRUE is the repaired loop (y never passes the end point); the result is the sequence of points.
RECURSIVE I_LineLoop(_, _, _, _, _, _, _, _, _, _)
I_LineLoop(x, y, ex, ey, xinc, yinc, errnum, w, h, clamp) ==
    IF x = ex THEN <<P(ex, ey)>>
    ELSE LET e1 == errnum + (IF h = 1 THEN 0 ELSE h)
             bump == 2 * e1 >= w /\ (~clamp \/ y # ey)
             e2 == IF 2 * e1 >= w THEN e1 - w ELSE e1
         IN <<P(x, y)>> \o I_LineLoop(x + xinc, IF bump THEN y + yinc ELSE y, ex, ey, xinc, yinc, e2, w, h, clamp)
I_Line(s, e, clamp) ==
    IF s = e THEN <<s>>
    ELSE LET st == Steep(s, e)
             sx == MajC(s, st) sy == MinC(s, st) ex == MajC(e, st) ey == MinC(e, st)
             w == Abs(ex - sx) + 1 h == Abs(ey - sy) + 1
             pts == I_LineLoop(sx, sy, ex, ey, IF ex >= sx THEN 1 ELSE -1, IF ey >= sy THEN 1 ELSE -1, 0, w, h, clamp)
         IN [i \in 1..Len(pts) |-> IF st THEN P(pts[i][2], pts[i][1]) ELSE pts[i]]

\* ---------------------------------------------------------------- circle
\* relative point (x,y) within one pixel of the circle of radius r
NearCircle(x, y, r) == LET d2 == x * x + y * y IN IF r = 0 THEN d2 <= 1 ELSE (r - 1) * (r - 1) <= d2 /\ d2 <= (r + 1) * (r + 1)
Mirror8(x, y) == {P(x, y), P(x, -y), P(-x, y), P(-x, -y), P(y, x), P(y, -x), P(-y, x), P(-y, -x)}
Mirror4(x, y) == {P(x, y), P(x, -y), P(-x, y), P(-x, -y)}
Adjacent(p, q) == p # q /\ Abs(p[1] - q[1]) <= 1 /\ Abs(p[2] - q[2]) <= 1
\* I_: midpoint circle, first octant points for a given iteration count n
RECURSIVE I_MidLoop(_, _, _, _)
I_MidLoop(x, y, n, r) ==
    IF x >= n THEN <<>>
    ELSE LET mid == x * x + y * y - y - r * r
             y1 == IF mid > 0 THEN y - 1 ELSE y
         IN <<P(x, y1)>> \o I_MidLoop(x + 1, y1, n, r)
I_MidpointOctant(r, n) == <<P(0, r)>> \o I_MidLoop(1, r, n, r)

\* ---------------------------------------------------------------- ellipse
\* (x,y) in the first quadrant within one pixel of the ellipse with semi-axes a, b:
\* the curve F = 0 passes through the 3x3 neighbourhood of the point
EllF(x, y, a, b) == b * b * x * x + a * a * y * y - a * a * b * b
NearEllipse(x, y, a, b) ==
    LET vals == {EllF(x + dx, y + dy, a, b) : dx \in {-1, 0, 1}, dy \in {-1, 0, 1}}
    IN (\E v \in vals : v <= 0) /\ (\E v \in vals : v >= 0)
=============================================================================
