------------------------------ MODULE RawViews ------------------------------
(* Extension X09: views constructed over caller-provided raw data                *)
(* (interleaved_view, planar_rgb_view, planar_rgba_view, planar_cmyk_view,       *)
(* planar_devicen_view for 2..5 channels).  Channel k of pixel (x, y) is the      *)
(* byte at offset y * rowbytes + x * step (+ k for interleaved data) of plane k   *)
(* (of the single buffer for interleaved data).                                   *)
EXTENDS Integers, Sequences
\* planes: sequence of byte sequences (one per channel); rowbytes: distance of rows in bytes (8-bit channels)
P_PlanarAt(planes, rowbytes, x, y, k) == planes[k][y * rowbytes + x + 1]
P_InterleavedAt(buf, nc, rowbytes, x, y, k) == buf[y * rowbytes + x * nc + k]
\* the last byte a w x h view touches lies inside a buffer of h * rowbytes bytes whenever a row fits into rowbytes
P_PlanarFits(w, h, rowbytes) == (h - 1) * rowbytes + (w - 1) + 1 <= h * rowbytes
P_InterleavedFits(w, h, nc, rowbytes) == (h - 1) * rowbytes + (w - 1) * nc + nc <= h * rowbytes
=============================================================================
