------------------------------- MODULE Resample -------------------------------
(***************************************************************************)
(* Samplers, resample_pixels and 3x2 affine matrices (C17).                *)
(* Sample coordinates live on the dyadic grid k/8 (px8 = 8*x), where all   *)
(* weights and products are exact in binary floating point, so the         *)
(* implementation can be transcribed in integers.                          *)
(***************************************************************************)
EXTENDS GilInt

W(img) == IF Len(img) = 0 THEN 0 ELSE Len(img[1])
H(img) == Len(img)
Pix(img, x, y) == img[y + 1][x + 1]
IRound8(k) == IF k >= 0 THEN (k + 4) \div 8 ELSE -((-k + 4) \div 8)     \* iround: half away from zero
IFloor8(k) == k \div 8
Frac8(k)   == k - 8 * IFloor8(k)                                         \* 0..7, in eighths

\* ---------------------------------------------------------------- nearest neighbour
P_NearestInside(img, px8, py8) == LET x == IRound8(px8) y == IRound8(py8) IN x >= 0 /\ y >= 0 /\ x < W(img) /\ y < H(img)
P_NearestValue(img, px8, py8)  == Pix(img, IRound8(px8), IRound8(py8))

\* ---------------------------------------------------------------- bilinear
\* the in-image pixels among the four that surround the point
Surround(img, px8, py8) ==
    LET x0 == IFloor8(px8) y0 == IFloor8(py8)
        xs == {x \in {x0, x0 + 1} : x >= 0 /\ x < W(img) /\ (x = x0 \/ Frac8(px8) # 0 \/ x0 < 0)}
        ys == {y \in {y0, y0 + 1} : y >= 0 /\ y < H(img) /\ (y = y0 \/ Frac8(py8) # 0 \/ y0 < 0)}
    IN {Pix(img, x, y) : x \in xs, y \in ys}
\* the widest set the property allows to contribute: all in-image pixels of the 2x2 block
Block(img, px8, py8) ==
    LET x0 == IFloor8(px8) y0 == IFloor8(py8) IN
    {Pix(img, x, y) : x \in {v \in {x0, x0 + 1} : v >= 0 /\ v < W(img)}, y \in {v \in {y0, y0 + 1} : v >= 0 /\ v < H(img)}}
SMin(S) == CHOOSE m \in S : \A v \in S : m <= v
SMax(S) == CHOOSE m \in S : \A v \in S : v <= m
P_BilinearOk(img, px8, py8, val) ==
    LET B == Block(img, px8, py8) IN
    /\ B # {} /\ val >= SMin(B) - 1 /\ val <= SMax(B) + 1
    /\ (Frac8(px8) = 0 /\ Frac8(py8) = 0 /\ IFloor8(px8) \in 0..(W(img) - 1) /\ IFloor8(py8) \in 0..(H(img) - 1)) => val = Pix(img, IFloor8(px8), IFloor8(py8))

\* I_: the nine border cases of sample(bilinear_sampler, ...) ; result = trunc(sum w_i v_i), weights in 64ths
I_BilinearOutside(img, px8, py8) == LET x0 == IFloor8(px8) y0 == IFloor8(py8) IN x0 < -1 \/ y0 < -1 \/ x0 >= W(img) \/ y0 >= H(img)
I_Bilinear(img, px8, py8) ==
    LET x0 == IFloor8(px8) y0 == IFloor8(py8) fx == Frac8(px8) fy == Frac8(py8) w == W(img) h == H(img)
        \* x weights: list of <<x, weight in eighths>>
        xw == IF x0 = -1 THEN {<<0, 8>>} ELSE IF x0 + 1 < w THEN {<<x0, 8 - fx>>, <<x0 + 1, fx>>} ELSE {<<x0, 8>>}
        yw == IF y0 = -1 THEN {<<0, 8>>} ELSE IF y0 + 1 < h THEN {<<y0, 8 - fy>>, <<y0 + 1, fy>>} ELSE {<<y0, 8>>}
        terms == {<<a, b>> : a \in xw, b \in yw}
        Sum[T \in SUBSET terms] == IF T = {} THEN 0 ELSE LET t == CHOOSE q \in T : TRUE IN
                                      Pix(img, t[1][1], t[2][1]) * t[1][2] * t[2][2] + Sum[T \ {t}]
    IN CDiv(Sum[terms], 64)          \* float -> integral channel truncates toward zero (matters for negative signed values)

\* ---------------------------------------------------------------- affine (entries scaled to integers by the caller)
\* product of matrices given with integer entries scaled by s1 resp. s2; the result is scaled by s1 * s2
MatMulS(m1, s1, m2) == <<m1[1] * m2[1] + m1[2] * m2[3], m1[1] * m2[2] + m1[2] * m2[4],
                         m1[3] * m2[1] + m1[4] * m2[3], m1[3] * m2[2] + m1[4] * m2[4],
                         m1[5] * m2[1] + m1[6] * m2[3] + s1 * m2[5], m1[5] * m2[2] + m1[6] * m2[4] + s1 * m2[6]>>
\* point * matrix with matrix entries in quarters and an integer point: result in quarters
TransformQ(m4, x, y) == <<m4[1] * x + m4[3] * y + m4[5], m4[2] * x + m4[4] * y + m4[6]>>
=============================================================================
