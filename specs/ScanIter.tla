------------------------------ MODULE ScanIter ------------------------------
(* The scanline iterator protocol (io/scanline_read_iterator.hpp) over a reader *)
(* (C13: "the scanline reader's rows ... yield the same pixels").               *)
(*                                                                              *)
(* P_ layer: a walk is a string of D (dereference) and I (increment); the row   *)
(* delivered by the k-th dereference is the row whose index is the number of    *)
(* increments before it - however often a position is dereferenced and however  *)
(* many positions are passed without being dereferenced.                        *)
(*                                                                              *)
(* I_ layer: the iterator as implemented - a position and two flags - on top of *)
(* a SEQUENTIAL decoder (PNG, JPEG, PNM, TIFF strips: read() and skip() deliver *)
(* or drop the NEXT row of the stream, whatever position they are told) or a    *)
(* RANDOM-ACCESS one (BMP, TARGA: read() seeks).  TLC checks that for every     *)
(* walk the implementation-shaped iterator delivers P_Row.                       *)
EXTENDS ScanIterBase

\* ---- I_ : state machine -------------------------------------------------------
CONSTANTS H,            \* rows of the image
          Sequential,   \* TRUE: the decoder is a stream; FALSE: it seeks
          MaxOps
VARIABLES pos, readf, skipf, consumed, got, ops
vars == <<pos, readf, skipf, consumed, got, ops>>

Init == pos = 0 /\ readf = TRUE /\ skipf = TRUE /\ consumed = 0 /\ got = <<>> /\ ops = <<>>
\* dereference(): read the row once per position
Deref == /\ pos < H /\ Len(ops) < MaxOps
         /\ IF readf
            THEN /\ got' = Append(got, IF Sequential THEN consumed ELSE pos)      \* a stream delivers its next row
                 /\ consumed' = consumed + 1
            ELSE /\ got' = Append(got, got[Len(got)])                            \* the buffer still holds the row of this position
                 /\ UNCHANGED consumed
         /\ readf' = FALSE /\ skipf' = FALSE /\ ops' = Append(ops, "D") /\ UNCHANGED pos
\* increment(): a position that was never dereferenced is skipped in the stream
Inc ==   /\ pos < H /\ Len(ops) < MaxOps
         /\ consumed' = IF skipf THEN consumed + 1 ELSE consumed
         /\ pos' = pos + 1 /\ readf' = TRUE /\ skipf' = TRUE /\ ops' = Append(ops, "I") /\ UNCHANGED got
Next == Deref \/ Inc
Spec == Init /\ [][Next]_vars

\* every dereference delivered the row of its position, for streams as well as for seeking decoders
Inv_RowIsPosition == got = P_Rows(ops)
\* a stream is never asked for more rows than the image has, and is exactly in step with the position
Inv_InStep == consumed <= H /\ (consumed = pos \/ consumed = pos + 1)
=============================================================================
