---------------------------- MODULE ScanIterBase ----------------------------
(* P_ layer of ScanIter.tla (shared by the model checker, the exporter and the trace validator). *)
EXTENDS Naturals, Sequences
\* ---- P_ ------------------------------------------------------------------
IncsBefore(ops, k) == LET S == {j \in 1..(k - 1) : ops[j] = "I"} IN IF S = {} THEN 0 ELSE Len(SelectSeq(SubSeq(ops, 1, k - 1), LAMBDA c : c = "I"))
\* positions of the dereferences of a walk, in order
P_Rows(ops) == LET ds == SelectSeq([k \in 1..Len(ops) |-> IF ops[k] = "D" THEN k ELSE 0], LAMBDA k : k # 0)
               IN [i \in 1..Len(ds) |-> IncsBefore(ops, ds[i])]

=============================================================================
