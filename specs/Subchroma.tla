------------------------------ MODULE Subchroma ------------------------------
(* Extension X08: chroma-subsampled images (toolbox/image_types/subchroma_image.hpp). *)
(* A J:a:b image (J = 4) holds a full-resolution luma plane and two chroma planes      *)
(* subsampled by ssX = 4/a horizontally and ssY = (b = 0 -> 2, a = b -> 1, else 4)     *)
(* vertically; pixel (x, y) is (Y[x, y], V[x div ssX, y div ssY], U[same]).            *)
EXTENDS Integers, Sequences

SSX(a) == 4 \div a
SSY(a, b) == IF b = 0 THEN 2 ELSE IF a = b THEN 1 ELSE 4
CDiv(n, d) == (n + d - 1) \div d
\* the chroma planes must cover every luma position: ceil, not floor
P_PlaneDims(w, h, a, b) == <<CDiv(w, SSX(a)), CDiv(h, SSY(a, b))>>
P_ChromaIndex(x, y, a, b) == <<x \div SSX(a), y \div SSY(a, b)>>
P_Covers(w, h, a, b, dims) == \A x \in 0..(w - 1), y \in 0..(h - 1) : LET c == P_ChromaIndex(x, y, a, b) IN c[1] < dims[1] /\ c[2] < dims[2]
\* planes are row-major sequences of rows
P_Pixel(Y, V, U, x, y, a, b) == LET c == P_ChromaIndex(x, y, a, b) IN <<Y[y + 1][x + 1], V[c[2] + 1][c[1] + 1], U[c[2] + 1][c[1] + 1]>>
Factors == {<<4, 4>>, <<4, 0>>, <<2, 2>>, <<2, 0>>, <<1, 1>>, <<1, 0>>}
=============================================================================
