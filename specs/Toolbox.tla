-------------------------------- MODULE Toolbox --------------------------------
(***************************************************************************)
(* Toolbox colour spaces (C18).  P_: round trips and ranges on 8-bit rgb.  *)
(* I_: an exact rational model of the hsv hexcone (numerators over the      *)
(* chroma diff = max - min), used to show by model checking that the        *)
(* rgb -> hsv -> rgb round trip is the identity before any float rounding.  *)
(***************************************************************************)
EXTENDS GilInt

Max3(a, b, c) == Max2(a, Max2(b, c))
Min3(a, b, c) == Min2(a, Min2(b, c))
\* 6*hue as a numerator over diff, in 0 .. 6*diff - 1
I_Hue6Num(r, g, b) ==
    LET mx == Max3(r, g, b) diff == mx - Min3(r, g, b) IN
    IF r = mx THEN (IF g - b >= 0 THEN g - b ELSE g - b + 6 * diff)
    ELSE IF g = mx THEN 2 * diff + (b - r)
    ELSE 4 * diff + (r - g)
I_HsvDecode(mx, mn, h6num) ==
    LET diff == mx - mn IN
    IF diff = 0 THEN <<mx, mx, mx>>
    ELSE LET i == h6num \div diff fr == h6num % diff
             p == mn q == mx - fr t == mn + fr
         IN CASE i = 0 -> <<mx, t, p>> [] i = 1 -> <<q, mx, p>> [] i = 2 -> <<p, mx, t>>
              [] i = 3 -> <<p, q, mx>> [] i = 4 -> <<t, p, mx>> [] i = 5 -> <<mx, p, q>>
              [] OTHER -> <<-1, -1, -1>>                 \* sector 6 (hue = 1): no case in the pinned code
P_Within(a, b, tol) == Abs(a[1] - b[1]) <= tol /\ Abs(a[2] - b[2]) <= tol /\ Abs(a[3] - b[3]) <= tol
=============================================================================
