------------------------------ MODULE TraceBase ------------------------------
(***************************************************************************)
(* Shared part of every trace specification: the recorded ndjson trace,    *)
(* the collecting verdict map and the result file.                         *)
(*                                                                         *)
(* A trace spec never blocks on an event the property rejects: the event   *)
(* is consumed and recorded in `bad` under its signature                   *)
(* <<clause, cause, key>>; validation continues with the rest of the       *)
(* trace.  When the whole trace has been consumed the final action writes  *)
(* the verdict map to IOEnv.OUT; the runner treats a missing OUT file as   *)
(* "trace not fully consumed" (infrastructure failure, never a verdict).   *)
(***************************************************************************)
EXTENDS Integers, Sequences, FiniteSets, TLC, Json, IOUtils, SequencesExt

Tr  == ndJsonDeserialize(IOEnv.TRACE)
NTr == Len(Tr)

SigOf(v) == <<v.clause, v.cause, v.key>>

\* vs: set of violation records [clause, cause, key, info] raised by event idx
MergeBad(bad, idx, vs) ==
    IF vs = {} THEN bad ELSE
    LET sigs == {SigOf(v) : v \in vs}
        old  == DOMAIN bad
    IN [s \in old \cup sigs |->
          IF s \in sigs
          THEN LET v   == CHOOSE w \in vs : SigOf(w) = s
                   cnt == Cardinality({w \in vs : SigOf(w) = s})
               IN IF s \in old THEN [bad[s] EXCEPT !.n = @ + cnt]
                               ELSE [n |-> cnt, first |-> idx, info |-> v.info]
          ELSE bad[s]]

BadToSeq(bad) ==
    SetToSeq({[clause |-> s[1], cause |-> s[2], key |-> s[3],
               n |-> bad[s].n, first |-> bad[s].first, info |-> bad[s].info] : s \in DOMAIN bad})

WriteOut(bad, drift, nchecked) ==
    ndJsonSerialize(IOEnv.OUT, <<[events |-> NTr, checked |-> nchecked,
                                  bad |-> BadToSeq(bad), drift |-> BadToSeq(drift)]>>)

V(clause, cause, key, info) == [clause |-> clause, cause |-> cause, key |-> key, info |-> ToString(info)]
Has(ev, f) == f \in DOMAIN ev
=============================================================================
