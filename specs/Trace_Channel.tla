---------------------------- MODULE Trace_Channel ----------------------------
(* Validates recorded channel_convert / channel_multiply / channel_invert    *)
(* tables of the real library against Channel.tla (C06, C07).                *)
EXTENDS Channel, TraceBase

VARIABLES l, bad, drift, nchk
vars == <<l, bad, drift, nchk>>

PairKey(s, d) == s.name \o "->" \o d.name

----------------------------------------------------------------------------
ConvVerdict(ev) ==
    LET S == ev.s D == ev.d
        Sd == [kind |-> S.kind, bits |-> S.bits, w |-> S.w, native |-> S.native]
        Dd == [kind |-> D.kind, bits |-> D.bits, w |-> D.w, native |-> D.native]
        \* identity is demanded for "a channel to its own type": same model name
        same == S.name = D.name
        res == P_ConvTable(Sd, Dd, same, ev.tbl)
              \cup (IF Has(ev, "back") THEN P_ConvRoundTrip(Sd, Dd, ev.back) ELSE {})
    IN {V(r.clause, I_ConvPathR(ChRange(Sd), ChRange(Dd), same), PairKey(S, D), [v |-> r.v, got |-> IF r.v + 1 <= Len(ev.tbl) THEN ev.tbl[r.v + 1] ELSE -1]) : r \in res}

ConvDrift(ev) ==
    LET S == ev.s D == ev.d
        ms == Pow2(S.bits) - 1 md == Pow2(D.bits) - 1
        path == I_ConvPathR(ms, md, S.name = D.name)
        n == Len(ev.tbl)
        Same(i) == ev.tbl[i] \in I_ConvR(path, ms, md, D.w, i-1)
        b == FirstBad(n, Same)
    IN IF b = 0 THEN {}
       ELSE {V("I_Conv", path, PairKey(S, D), [v |-> b-1, got |-> ev.tbl[b], model |-> I_ConvR(path, ms, md, D.w, b-1)])}

----------------------------------------------------------------------------
(* wide (sampled) conversions; values are <<hi,lo>> 16-bit words            *)
RangeBig(m) == IF m.kind = "f" THEN <<0,0,0,64>>            \* 2^30
               ELSE IF m.bits = 32 THEN <<255,255,255,255>>
               ELSE IF m.bits > 16 THEN <<255, 255>> \o BigOfNat(Pow2(m.bits - 16) - 1)
               ELSE BigOfNat(Pow2(m.bits) - 1)

ConvWVerdict(ev) ==
    LET S == ev.s D == ev.d
        rS == RangeBig(S) rD == RangeBig(D)
        n == Len(ev.vs)
        v(i) == BigOfWords(ev.vs[i])
        o(i) == BigOfWords(ev.rs[i])
        key == PairKey(S, D)
        slack == S.kind = "f" \/ D.kind = "f" \/ S.bits = 32 \/ D.bits = 32
        InR(i)  == BigLe(o(i), rD)
        Near(i) == P_ConvNearW(rS, rD, v(i), o(i), slack)
        Mono(i) == i = 1 \/ BigLe(o(i-1), o(i))
        RT(i)   == ~Has(ev, "back") \/ BigCmp(BigOfWords(ev.back[i]), v(i)) = 0
        Id(i)   == S.name # D.name \/ BigCmp(o(i), v(i)) = 0
        chk(cl, Ok(_)) == LET b == FirstBad(n, Ok) IN
                          IF b = 0 THEN {} ELSE {V(cl, "wide", key, [v |-> ev.vs[b], got |-> ev.rs[b]])}
    IN  (IF BigCmp(v(1), <<0>>) = 0 /\ BigCmp(o(1), <<0>>) # 0 THEN {V("P_ConvMin", "wide", key, ev.rs[1])} ELSE {})
        \cup (IF BigCmp(v(n), rS) = 0 /\ BigCmp(o(n), rD) # 0 THEN {V("P_ConvMax", "wide", key, ev.rs[n])} ELSE {})
        \cup chk("P_ConvInRange", InR) \cup chk("P_ConvNear", Near) \cup chk("P_ConvMonotone", Mono)
        \cup chk("P_ConvRoundTrip", RT) \cup chk("P_ConvIdentity", Id)

----------------------------------------------------------------------------
MulVerdict(ev) ==
    LET m == ev.m a == ev.a n == Len(ev.bs) r == ChRange(m)
        key == m.name
        Allowed(i) == P_MulNearR(r, a, ev.bs[i], ev.ab[i]) /\ P_MulNearR(r, ev.bs[i], a, ev.ba[i])
        InR(i)   == ev.ab[i] >= 0 /\ ev.ab[i] <= r /\ ev.ba[i] >= 0 /\ ev.ba[i] <= r
        Comm(i)  == ev.ab[i] = ev.ba[i]
        Mono(i)  == i = 1 \/ (ev.ab[i-1] <= ev.ab[i] /\ ev.ba[i-1] <= ev.ba[i])
        Ident(i) == (ev.bs[i] = r => (ev.ab[i] = a /\ ev.ba[i] = a)) /\ (ev.bs[i] = 0 => (ev.ab[i] = 0 /\ ev.ba[i] = 0))
        cause == IF m.native THEN "native" ELSE "generic-double"
        chk(cl, Ok(_)) == LET b == FirstBad(n, Ok) IN
                          IF b = 0 THEN {} ELSE {V(cl, cause, key, [a |-> a, b |-> ev.bs[b], ab |-> ev.ab[b], ba |-> ev.ba[b]])}
    IN chk("P_MulInRange", InR) \cup chk("P_MulNear", Allowed) \cup chk("P_MulCommutative", Comm)
       \cup chk("P_MulMonotone", Mono) \cup chk("P_MulIdentity", Ident)

MulDrift(ev) ==
    LET m == ev.m a == ev.a n == Len(ev.bs)
        r == ChRange(m) fl == I_MulFlavour(m)
        Same(i) == ev.ab[i] \in I_MulSet(fl, r, a, ev.bs[i]) /\ ev.ba[i] = ev.ab[i]
        b == FirstBad(n, Same)
    IN IF b = 0 THEN {} ELSE {V("I_Mul", "model", m.name, [a |-> a, b |-> ev.bs[b], got |-> ev.ab[b]])}

\* sampled multiply of wide models: float on the dyadic grid k/64 (exact product, values scaled by 2^30)
\* and 17..32-bit integral models; r*R within R of a*b (inclusive), float: within 2^-28 of the range
MulWVerdict(ev) ==
    LET isF == ev.m.kind = "f"
        one == RangeBig(ev.m)
        a == BigOfWords(ev.a) n == Len(ev.bs)
        b(i) == BigOfWords(ev.bs[i])
        ab(i) == BigOfWords(ev.ab[i]) ba(i) == BigOfWords(ev.ba[i])
        tol == IF isF THEN <<0,0,0,0,1>> ELSE one         \* float: 2^32 = 2^30 * 2^30 * 2^-28
        Near(i) == BigLe(BigAbsDiff(BigMul(ab(i), one), BigMul(a, b(i))), tol)
                   /\ BigLe(BigAbsDiff(BigMul(ba(i), one), BigMul(a, b(i))), tol)
        InR(i)  == BigLe(ab(i), one) /\ BigLe(ba(i), one)
        Comm(i) == BigCmp(ab(i), ba(i)) = 0
        Mono(i) == i = 1 \/ (BigLe(ab(i-1), ab(i)) /\ BigLe(ba(i-1), ba(i)))
        Ident(i) == /\ (BigCmp(b(i), one) = 0 => (BigCmp(ab(i), a) = 0 /\ BigCmp(ba(i), a) = 0))
                    /\ (BigCmp(b(i), <<0>>) = 0 => (BigCmp(ab(i), <<0>>) = 0 /\ BigCmp(ba(i), <<0>>) = 0))
        cause == IF isF THEN "float" ELSE IF ev.m.native THEN "native" ELSE "generic-double"
        chk(cl, Ok(_)) == LET k == FirstBad(n, Ok) IN
                          IF k = 0 THEN {} ELSE {V(cl, cause, ev.m.name, [a |-> ev.a, b |-> ev.bs[k], ab |-> ev.ab[k], ba |-> ev.ba[k]])}
    IN chk("P_MulInRange", InR) \cup chk("P_MulNear", Near) \cup chk("P_MulCommutative", Comm)
       \cup chk("P_MulMonotone", Mono) \cup chk("P_MulIdentity", Ident)

InvVerdict(ev) ==
    LET m == ev.m n == Len(ev.tbl) r == ChRange(m)
        Ok(i)  == ev.tbl[i] = P_Invert(m, i-1)
        Inv(i) == ev.tbl[i] >= 0 /\ ev.tbl[i] <= r /\ ev.tbl[ev.tbl[i] + 1] = i-1
        b1 == IF n # r + 1 THEN 1 ELSE FirstBad(n, Ok)
        InR(i) == ev.tbl[i] >= 0 /\ ev.tbl[i] <= r
        b0 == FirstBad(n, InR)
    IN (IF b0 # 0 THEN {V("P_InvInRange", "table", m.name, [v |-> b0-1, got |-> ev.tbl[b0]])} ELSE {})
       \cup (IF b1 # 0 THEN {V("P_InvExact", "table", m.name, [v |-> b1-1, got |-> ev.tbl[b1]])} ELSE {})
       \cup (IF b0 = 0 /\ n = r + 1 /\ FirstBad(n, Inv) # 0 THEN {V("P_InvInvolution", "table", m.name, FirstBad(n, Inv) - 1)} ELSE {})

InvWVerdict(ev) ==
    LET m == ev.m n == Len(ev.vs) r == RangeBig(m)
        v(i) == BigOfWords(ev.vs[i]) o(i) == BigOfWords(ev.rs[i])
        InR(i) == BigLe(o(i), r)
        Ok(i)  == BigLe(v(i), r) /\ BigCmp(BigAdd(o(i), v(i)), r) = 0
        Inv(i) == BigCmp(BigOfWords(ev.rr[i]), v(i)) = 0
        chk(cl, P(_)) == LET k == FirstBad(n, P) IN IF k = 0 THEN {} ELSE {V(cl, "wide", m.name, [v |-> ev.vs[k], got |-> ev.rs[k]])}
    IN chk("P_InvInRange", InR) \cup chk("P_InvExact", Ok) \cup chk("P_InvInvolution", Inv)

----------------------------------------------------------------------------
Verdict(ev) ==
    CASE ev.e = "Conv"  -> ConvVerdict(ev)
      [] ev.e = "ConvW" -> ConvWVerdict(ev)
      [] ev.e = "Mul"   -> MulVerdict(ev)
      [] ev.e = "MulW"  -> MulWVerdict(ev)
      [] ev.e = "Inv"   -> InvVerdict(ev)
      [] ev.e = "InvW"  -> InvWVerdict(ev)
      [] ev.e = "End"   -> {}
      [] ev.e = "Fault" -> {V("P_NoFault", "None", "harness", ev.kind)}
      [] OTHER -> {V("UnknownEvent", "None", ev.e, l)}

Drift(ev) ==
    CASE ev.e = "Conv" -> ConvDrift(ev)
      [] ev.e = "Mul"  -> MulDrift(ev)
      [] OTHER -> {}

Init == l = 1 /\ bad = <<>> /\ drift = <<>> /\ nchk = 0
Step == /\ l <= NTr
        /\ bad' = MergeBad(bad, l, Verdict(Tr[l]))
        /\ drift' = MergeBad(drift, l, Drift(Tr[l]))
        /\ nchk' = nchk + 1
        /\ l' = l + 1
Fin  == /\ l = NTr + 1
        /\ WriteOut(bad, drift, nchk)
        /\ l' = l + 1
        /\ UNCHANGED <<bad, drift, nchk>>
Next == Step \/ Fin
Spec == Init /\ [][Next]_vars
=============================================================================
