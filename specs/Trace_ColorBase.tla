---------------------------- MODULE Trace_ColorBase ----------------------------
(* Validates recorded pixel construction / assignment / equality / channel access  *)
(* / static_* algorithm events of the real library against ColorBase.tla (C05).    *)
EXTENDS ColorBase, TraceBase
VARIABLES l, bad, drift, nchk
vars == <<l, bad, drift, nchk>>

M1(m) == [i \in 1..Len(m) |-> m[i] + 1]        \* 0-based mappings in the trace

SeqToBag(s) == [v \in {s[i] : i \in 1..Len(s)} |-> Cardinality({i \in 1..Len(s) : s[i] = v})]

AssignVerdict(ev) ==
    LET sm == M1(ev.smap) dm == M1(ev.dmap) key == ev.how \o ":" \o ev.src \o "->" \o ev.dst IN
    (IF P_Assigned(sm, ev.sphys, dm, ev.after) THEN {} ELSE {V("P_AssignByColour", "None", key, [smap |-> ev.smap, dmap |-> ev.dmap, src |-> ev.sphys, got |-> ev.after])})
    \cup (IF ev.eq /\ ~ev.ne THEN {} ELSE {V("P_EqualAfterAssign", "None", key, [eq |-> ev.eq, ne |-> ev.ne])})
    \cup (IF Has(ev, "eq_same") /\ ~ev.eq_same THEN {V("P_EqualByColour", "None", key, "two destination objects holding the same colours compare unequal")} ELSE {})
    \cup (IF Has(ev, "others_kept") /\ ~ev.others_kept THEN {V("P_AssignByColour", "None", key, "assignment changed a pixel other than its destination")} ELSE {})
    \cup (IF ev.eq_perturbed = FALSE THEN {} ELSE {V("P_EqualDetectsDifference", "None", key, "dst == src although one colour differs")})
AssignDrift(ev) ==
    LET sm == M1(ev.smap) dm == M1(ev.dmap) IN
    IF ev.after = I_Construct(sm, ev.sphys, dm) THEN {} ELSE {V("I_Construct", "model", ev.src \o "->" \o ev.dst, ev.after)}

AccessVerdict(ev) ==
    LET m == M1(ev.map) n == Len(ev.phys) key == ev.model IN
    (IF \A k \in 1..n : ev.atc[k] = ev.phys[k] THEN {} ELSE {V("P_AtCPhysical", "None", key, [phys |-> ev.phys, atc |-> ev.atc])})
    \cup (IF \A s \in 1..n : ev.sem[s] = Sem(m, ev.phys, s) THEN {} ELSE {V("P_SemanticAtC", "None", key, [phys |-> ev.phys, sem |-> ev.sem, map |-> ev.map])})
    \cup (IF Has(ev, "named") /\ ev.named # ev.sem THEN {V("P_GetColor", "None", key, [named |-> ev.named, sem |-> ev.sem])} ELSE {})
    \* the value type of the s-th colour is the value type of the physical channel that holds it
    \cup (IF Has(ev, "sem_max") /\ \E s \in 1..n : ev.sem_max[s] # Sem(m, ev.phys_max, s)
          THEN {V("P_SemanticAtC", "None", key \o ":element-type", [map |-> ev.map, physical_max |-> ev.phys_max, semantic_max |-> ev.sem_max])} ELSE {})
    \cup (IF Has(ev, "index") /\ ev.index # ev.phys THEN {V("P_IndexPhysical", "None", key, [index |-> ev.index, phys |-> ev.phys])} ELSE {})

StaticVerdict(ev) ==
    LET m1 == M1(ev.map1) n == Len(ev.p1) key == ev.op \o ":" \o ev.models
        m2 == IF Has(ev, "map2") THEN M1(ev.map2) ELSE m1
        m3 == IF Has(ev, "map3") THEN M1(ev.map3) ELSE m1
        sem1(s) == Sem(m1, ev.p1, s) sem2(s) == Sem(m2, ev.p2, s)
        ok == CASE ev.op = "for_each1"  -> SeqToBag(ev.visits) = SeqToBag(ev.p1)
                [] ev.op = "for_each2"  -> SeqToBag(ev.visits) = SeqToBag([s \in 1..n |-> <<sem1(s), sem2(s)>>])
                \* the functor returned by static_for_each has made exactly one visit per channel (2 overloads with 1 colour base, 4 with 2, 8 with 3)
                [] ev.op = "for_each_ret" -> LET s1 == SumSeq(ev.p1)  s2 == SumSeq(ev.p2)  s3 == SumSeq(ev.p3) IN
                                             /\ \A i \in 1..14 : ev.counts[i] = n
                                             /\ \A i \in 1..2 : ev.sums[i] = s1
                                             /\ \A i \in 3..6 : ev.sums[i] = s1 + s2
                                             /\ \A i \in 7..14 : ev.sums[i] = s1 + s2 + s3
                [] ev.op = "transform1" -> \A s \in 1..n : Sem(m2, ev.out, s) = sem1(s) + 1
                [] ev.op = "transform2" -> \A s \in 1..n : Sem(m3, ev.out, s) = sem1(s) + 2 * sem2(s)
                [] ev.op = "copy"       -> P_Assigned(m1, ev.p1, m2, ev.out)
                [] ev.op = "equal"      -> ev.ret = P_EqualPix(m1, ev.p1, m2, ev.p2)
                [] ev.op = "fill"       -> \A k \in 1..n : ev.out[k] = ev.val
                [] ev.op = "generate"   -> SeqToBag(ev.out) = SeqToBag([k \in 1..n |-> k])
                [] ev.op = "min"        -> ev.ret = SeqMin(ev.p1)
                [] ev.op = "max"        -> ev.ret = SeqMax(ev.p1)
    IN IF ok THEN {} ELSE {V("P_Static_" \o ev.op, "None", key, ev)}

Verdict(ev) ==
    CASE ev.e = "Assign" -> AssignVerdict(ev)
      [] ev.e = "Access" -> AccessVerdict(ev)
      [] ev.e = "Static" -> StaticVerdict(ev)
      [] ev.e = "Fault"  -> {V("P_NoFault", "None", "driver", ev.kind)}
      [] ev.e = "End"    -> {}
      [] OTHER -> {V("UnknownEvent", "None", ev.e, l)}
Drift(ev) == IF ev.e = "Assign" /\ ev.how = "construct" THEN AssignDrift(ev) ELSE {}

Init == l = 1 /\ bad = <<>> /\ drift = <<>> /\ nchk = 0
Step == /\ l <= NTr
        /\ bad' = MergeBad(bad, l, Verdict(Tr[l]))
        /\ drift' = MergeBad(drift, l, Drift(Tr[l]))
        /\ nchk' = nchk + 1
        /\ l' = l + 1
Fin  == /\ l = NTr + 1 /\ WriteOut(bad, drift, nchk) /\ l' = l + 1 /\ UNCHANGED <<bad, drift, nchk>>
Next == Step \/ Fin
Spec == Init /\ [][Next]_vars
=============================================================================
