-------------------------- MODULE Trace_ColorConvert --------------------------
(* Validates recorded default colour conversions of the real library (C09).      *)
EXTENDS ColorConvert, TraceBase
VARIABLES l, bad, drift, nchk
vars == <<l, bad, drift, nchk>>

B(i) == i - 1          \* blue / alpha value of table index i

RgbRowVerdict(ev) ==
    LET r == ev.r g == ev.g key == "rgb8"
        chk(cl, Ok(_)) == LET k == FirstBad(256, Ok) IN IF k = 0 THEN {} ELSE {V(cl, "None", key, [r |-> r, g |-> g, b |-> k - 1])}
        LumNear(i)  == P_InRange8(ev.gray[i]) /\ P_LumNear(r, g, B(i), ev.gray[i])
        MonoB(i)    == i = 1 \/ ev.gray[i-1] <= ev.gray[i]
        MonoRG(i)   == ev.gray_r1[i] >= ev.gray[i] /\ ev.gray_g1[i] >= ev.gray[i]
        GrayExact(i) == (r = g /\ g = B(i)) => ev.gray[i] = r
        CmykIn(i)   == P_InRange8(ev.c[i]) /\ P_InRange8(ev.m[i]) /\ P_InRange8(ev.y[i]) /\ P_InRange8(ev.k[i])
        Round(i)    == P_Within1(ev.br[i], r) /\ P_Within1(ev.bg[i], g) /\ P_Within1(ev.bb[i], B(i))
        Neutral(i)  == /\ ((r = 0 /\ g = 0 /\ B(i) = 0) => (ev.c[i] = 0 /\ ev.m[i] = 0 /\ ev.y[i] = 0 /\ ev.k[i] = 255 /\ ev.br[i] = 0 /\ ev.bg[i] = 0 /\ ev.bb[i] = 0))
                       /\ ((r = 255 /\ g = 255 /\ B(i) = 255) => (ev.c[i] = 0 /\ ev.m[i] = 0 /\ ev.y[i] = 0 /\ ev.k[i] = 0 /\ ev.br[i] = 255 /\ ev.bg[i] = 255 /\ ev.bb[i] = 255))
        GrayBack(i) == ev.gray_to_rgb_ok[i] = 1
    IN chk("P_LumNear", LumNear) \cup chk("P_LumMonotone", MonoB) \cup chk("P_LumMonotone", MonoRG) \cup chk("P_GrayExact", GrayExact)
       \cup chk("P_InRange", CmykIn) \cup chk("P_CmykRoundTrip", Round) \cup chk("P_Neutrals", Neutral) \cup chk("P_GrayToRgb", GrayBack)
RgbRowDrift(ev) ==
    LET r == ev.r g == ev.g
        Same(i) == /\ ev.gray[i] = I_Lum8(r, g, B(i))
                   /\ ev.k[i] = I_K(r, g, B(i))
                   /\ ev.c[i] \in I_Cmyk8Chan(255 - r, ev.k[i]) /\ ev.m[i] \in I_Cmyk8Chan(255 - g, ev.k[i]) /\ ev.y[i] \in I_Cmyk8Chan(255 - B(i), ev.k[i])
                   /\ ev.br[i] = I_FromCmyk8(ev.c[i], ev.k[i])
        k == FirstBad(256, Same)
    IN IF k = 0 THEN {} ELSE {V("I_Rgb8", "model", "rgb8", [r |-> r, g |-> g, b |-> k - 1])}

RgbaRowVerdict(ev) ==
    LET key == "rgba8"
        chk(cl, Ok(_)) == LET k == FirstBad(256, Ok) IN IF k = 0 THEN {} ELSE {V(cl, "None", key, [r |-> ev.r, g |-> ev.g, b |-> ev.b, a |-> k - 1])}
        \* premultiplication itself is C07's multiply: within one unit of c*a/255
        Pm(i)   == P_MulNearR(255, ev.r, B(i), ev.pm0[i]) /\ P_MulNearR(255, ev.g, B(i), ev.pm1[i]) /\ P_MulNearR(255, ev.b, B(i), ev.pm2[i])
        Same(i) == ev.gray_l[i] = ev.gray_r[i] /\ ev.r_l[i] = ev.r_r[i] /\ ev.g_l[i] = ev.g_r[i] /\ ev.b_l[i] = ev.b_r[i] /\ ev.cmyk_eq[i] = 1
        RgbOfRgba(i) == ev.r_l[i] = ev.pm0[i] /\ ev.g_l[i] = ev.pm1[i] /\ ev.b_l[i] = ev.pm2[i]
        Opaque(i) == B(i) = 255 => (ev.r_l[i] = ev.r /\ ev.g_l[i] = ev.g /\ ev.b_l[i] = ev.b)
        ToRgba(i) == ev.to_rgba[i] = 255 * 1000 + 1
        Carry(i)  == ev.rgba_to_bgra_ok[i] = 1
    IN chk("P_PremultipliedAlpha", Pm) \cup chk("P_FromRgbaIsPremultiplied", Same) \cup chk("P_FromRgbaIsPremultiplied", RgbOfRgba)
       \cup chk("P_Neutrals", Opaque) \cup chk("P_ToRgbaAlphaMax", ToRgba) \cup chk("P_RgbaCarriesAlpha", Carry)

\* single conversions between other depths / spaces.  sv, dv: channel values in colour order (float scaled by 2^20)
ConvVerdict(ev) ==
    LET key == ev.s \o "->" \o ev.d
        n == Len(ev.dv)
        inR == \A i \in 1..n : ev.dv[i] >= 0 /\ ev.dv[i] <= ev.dmax
        isRgbaDst == ev.d \in {"rgba8", "rgba16", "abgr16", "rgba32f"}
        srcHasAlpha == ev.s \in {"argb8", "rgba32f", "rgba8"}
        sameSpace == (ev.s = "rgb8" /\ ev.d = "bgr16") \/ (ev.s = "bgr16" /\ ev.d = "rgb8") \/ (ev.s = "argb8" /\ ev.d = "rgba16")
                     \/ (ev.s = "cmyk8" /\ ev.d = "cmyk16") \/ (ev.s = "gray8" /\ ev.d = "gray16")
        Mdl(mx) == [bits |-> IF mx = 255 THEN 8 ELSE 16]
        PerChannel == \A i \in 1..n : ev.dv[i] \in P_ConvAllowed(Mdl(ev.smax), Mdl(ev.dmax), ev.sv[i])
        grayOfNeutral == (ev.s \in {"rgb16", "rgb32f"} /\ ev.d \in {"gray16", "gray32f"}) =>
                            Abs(ev.dv[1] - ev.sv[1]) <= (IF ev.dmax = 65535 THEN 1 ELSE 64)
        grayToRgb == (ev.s = "gray8" /\ ev.d \in {"rgb8", "rgba8"}) => (ev.dv[1] = ev.sv[1] /\ ev.dv[2] = ev.sv[1] /\ ev.dv[3] = ev.sv[1])
    IN (IF inR THEN {} ELSE {V("P_InRange", "None", key, ev)})
       \cup (IF isRgbaDst /\ ~srcHasAlpha /\ ev.dv[4] # ev.dmax THEN {V("P_ToRgbaAlphaMax", "None", key, ev)} ELSE {})
       \cup (IF sameSpace /\ ~PerChannel THEN {V("P_SameSpacePerChannel", "None", key, ev)} ELSE {})
       \cup (IF grayOfNeutral THEN {} ELSE {V("P_GrayExact", "None", key, ev)})
       \cup (IF grayToRgb THEN {} ELSE {V("P_GrayToRgb", "None", key, ev)})

LayoutsVerdict(ev) ==
    (IF ev.gray[1] = ev.gray[2] /\ ev.gray[1] = ev.gray[3] /\ ev.gray_a[1] = ev.gray_a[2] /\ ev.gray_a[1] = ev.gray_a[3] /\ ev.cmyk_same THEN {}
     ELSE {V("P_LayoutIndependent", "None", "layouts", ev)})
ViewVerdict(ev) ==
    IF ev.direct = ev.view /\ ev.direct = ev.copy THEN {} ELSE {V("P_ViewAgrees", "None", "color_converted_view/copy_and_convert_pixels", ev)}

Verdict(ev) ==
    CASE ev.e = "RgbRow"  -> RgbRowVerdict(ev)
      [] ev.e = "RgbaRow" -> RgbaRowVerdict(ev)
      [] ev.e = "Conv"    -> ConvVerdict(ev)
      \* an rgba source of one depth into a destination of another: the same as converting the alpha-premultiplied rgb
      \* (float destinations are scaled by 2^20: a few units of rounding slack)
      [] ev.e = "RgbaX"   -> IF \A i \in 1..Len(ev.direct) : Abs(ev.direct[i] - ev.via[i]) <= (IF ev.d = "rgb32f" THEN 8 ELSE 0) THEN {}
                             ELSE {V("P_FromRgbaIsPremultiplied", "None", ev.s \o "->" \o ev.d, [src |-> ev.src, direct |-> ev.direct, via |-> ev.via])}
      [] ev.e = "Layouts" -> LayoutsVerdict(ev)
      [] ev.e = "ViewAgree" -> ViewVerdict(ev)
      [] ev.e = "Fault"   -> {V("P_NoFault", "None", "driver", ev.kind)}
      [] ev.e = "End"     -> {}
      [] OTHER -> {V("UnknownEvent", "None", ev.e, l)}
Drift(ev) == IF ev.e = "RgbRow" THEN RgbRowDrift(ev) ELSE {}

Init == l = 1 /\ bad = <<>> /\ drift = <<>> /\ nchk = 0
Step == /\ l <= NTr
        /\ bad' = MergeBad(bad, l, Verdict(Tr[l]))
        /\ drift' = MergeBad(drift, l, Drift(Tr[l]))
        /\ nchk' = nchk + 1
        /\ l' = l + 1
Fin  == /\ l = NTr + 1 /\ WriteOut(bad, drift, nchk) /\ l' = l + 1 /\ UNCHANGED <<bad, drift, nchk>>
Next == Step \/ Fin
Spec == Init /\ [][Next]_vars
=============================================================================
