---------------------------- MODULE Trace_Convolve ----------------------------
(* Validates recorded correlation / convolution / boundary-extension results of    *)
(* the real library (C15).                                                         *)
EXTENDS Convolve, TraceBase
VARIABLES l, bad, drift, nchk, cur      \* cur: the case announced by the last Try event
vars == <<l, bad, drift, nchk, cur>>
NoCase == [what |-> "none", w |-> 1, h |-> 1, K |-> 0, c |-> 0, opt |-> "none"]

FirstRowDiff(a, b) == IF Len(a) # Len(b) THEN 0 ELSE IF \A y \in 1..Len(a) : a[y] = b[y] THEN -1 ELSE CHOOSE y \in 1..Len(a) : a[y] # b[y]

\* taps ker[k] / kden with a source made of multiples of kden: the sums are those of the numerators over the divided source
DivImg(img, d) == [y \in 1..Len(img) |-> [x \in 1..Len(img[y]) |-> img[y][x] \div d]]
CorrVerdict(ev) ==
    LET kd  == IF Has(ev, "kden") THEN ev.kden ELSE 1
        src == IF kd = 1 THEN ev.src ELSE DivImg(ev.src, kd)
        pad == [big |-> IF kd = 1 THEN ev.big ELSE DivImg(ev.big, kd), ox |-> ev.ox, oy |-> ev.oy]
        base == CASE ev.fn \in {"correlate_rows", "correlate_rows_fixed"} -> P_CorrRows(src, ev.ker, ev.c, ev.opt, pad, ev.before)
                  [] ev.fn \in {"correlate_cols", "correlate_cols_fixed"} -> P_CorrCols(src, ev.ker, ev.c, ev.opt, pad, ev.before)
                  [] ev.fn \in {"convolve_rows", "convolve_rows_fixed"}   -> P_ConvRows(src, ev.ker, ev.c, ev.opt, pad, ev.before)
                  [] ev.fn \in {"convolve_cols", "convolve_cols_fixed"}   -> P_ConvCols(src, ev.ker, ev.c, ev.opt, pad, ev.before)
        \* an empty image has nothing to compare (and no rows to transpose)
        exp == IF ev.w = 0 \/ ev.h = 0 THEN ev.dst ELSE base
        d == FirstRowDiff(exp, ev.dst)
        key == ev.fn \o ":" \o ev.opt \o ":" \o ev.types
    IN IF d = -1 THEN {}
       ELSE {V("P_TextbookSum", "None", key, [w |-> ev.w, h |-> ev.h, K |-> Len(ev.ker), c |-> ev.c, row |-> d - 1,
                                               expected |-> IF d > 0 THEN exp[d] ELSE <<>>, got |-> IF d > 0 THEN ev.dst[d] ELSE <<>>])}
CorrDrift(ev) ==
    IF ev.fn = "correlate_rows" /\ ev.w > 0 /\ ev.h > 0 /\ ~Has(ev, "kden")
    THEN LET Row(y) == I_CorrRow(ev.src[y], ev.ker, ev.c, ev.opt,
                                 SubSeq(ev.big[y + ev.oy], ev.ox - ev.c + 1, ev.ox + ev.w + (Len(ev.ker) - 1 - ev.c)), ev.before[y])
         IN IF \A y \in 1..ev.h : Row(y) = ev.dst[y] THEN {} ELSE {V("I_CorrRow", "model", ev.opt, [w |-> ev.w, K |-> Len(ev.ker), c |-> ev.c])}
    ELSE {}

Conv2DVerdict(ev) ==
    IF ev.w = 0 \/ ev.h = 0 \/ P_Conv2D(ev.src, ev.ker2, ev.cx, ev.cy) = ev.dst THEN {}
    ELSE {V("P_Conv2D", "None", "convolve_2d", [w |-> ev.w, h |-> ev.h, K |-> Len(ev.ker2), cx |-> ev.cx, cy |-> ev.cy])}

\* box_filter / blur: the two passes as written (P_BoxFilter) and, where no destination pixel is kept, the K x K window sum
BoxVerdict(ev) ==
    LET src == IF ev.kden = 1 THEN ev.src ELSE DivImg(ev.src, ev.kden)
        d0  == IF ev.kden = 1 THEN ev.before ELSE ev.before     \* kept pixels (output_ignore) are compared undivided below
        nopad == [big |-> <<>>, ox |-> 0, oy |-> 0]
        key == ev.fn \o ":" \o ev.opt \o ":" \o ev.types
        info == [w |-> ev.w, h |-> ev.h, K |-> ev.K, c |-> ev.c, anchor |-> ev.anchor]
        two == P_BoxFilter(src, ev.K, ev.c, ev.opt, nopad, d0)
    IN IF ev.w = 0 \/ ev.h = 0 THEN {}
       ELSE (IF ev.opt = "output_ignore" /\ ev.kden # 1 THEN {}
             ELSE IF two = ev.dst THEN {} ELSE {V("P_BoxTwoPass", "None", key, info)})
            \cup (IF ev.opt \in {"extend_zero", "extend_constant", "output_zero"} /\ P_BoxWindowSum(src, ev.K, ev.c, ev.opt) # ev.dst
                  THEN {V("P_BoxWindowSum", "None", key, info)} ELSE {})

ExtendVerdict(ev) ==
    LET pad == [big |-> ev.big, ox |-> ev.ox, oy |-> ev.oy] key == "extend:" \o ev.opt
        info == [n |-> ev.n, w |-> W(ev.src), h |-> H(ev.src)]
    IN (IF ev.row = P_Extend(ev.src, ev.n, ev.opt, pad, 0, 1) THEN {} ELSE {V("P_ExtendRow", "None", key, info)})
       \cup (IF ev.col = P_Extend(ev.src, ev.n, ev.opt, pad, 1, 0) THEN {} ELSE {V("P_ExtendCol", "None", key, info)})
       \cup (IF ev.both = P_Extend(ev.src, ev.n, ev.opt, pad, 1, 1) THEN {} ELSE {V("P_ExtendBoundary", "None", key, info)})

Verdict(ev) ==
    CASE ev.e = "Corr"   -> CorrVerdict(ev)
      [] ev.e = "Conv2D" -> Conv2DVerdict(ev)
      [] ev.e = "Extend" -> ExtendVerdict(ev)
      [] ev.e = "Box"    -> BoxVerdict(ev)
      [] ev.e = "Fault"  -> {V("P_NoFault", IF cur.w = 0 \/ cur.h = 0 THEN "empty-view" ELSE "None", cur.what \o ":" \o cur.opt,
                               [kind |-> ev.kind, w |-> cur.w, h |-> cur.h, K |-> cur.K, c |-> cur.c])}
      [] ev.e \in {"End", "Try"} -> {}
      [] OTHER -> {V("UnknownEvent", "None", ev.e, l)}
Drift(ev) == IF ev.e = "Corr" THEN CorrDrift(ev) ELSE {}

Init == l = 1 /\ bad = <<>> /\ drift = <<>> /\ nchk = 0 /\ cur = NoCase
Step == /\ l <= NTr
        /\ bad' = MergeBad(bad, l, Verdict(Tr[l]))
        /\ drift' = MergeBad(drift, l, Drift(Tr[l]))
        /\ nchk' = nchk + (IF Tr[l].e \in {"Corr", "Conv2D", "Extend", "Box"} THEN 1 ELSE 0)
        /\ cur' = IF Tr[l].e = "Try" THEN [what |-> Tr[l].what, w |-> Tr[l].w, h |-> Tr[l].h, K |-> Tr[l].K, c |-> Tr[l].c, opt |-> Tr[l].opt] ELSE cur
        /\ l' = l + 1
Fin  == /\ l = NTr + 1 /\ WriteOut(bad, drift, nchk) /\ l' = l + 1 /\ UNCHANGED <<bad, drift, nchk, cur>>
Next == Step \/ Fin
Spec == Init /\ [][Next]_vars
=============================================================================
