SPECIFICATION Spec
CONSTANTS
  ImgVars = {1, 2}
  ViewVars = {1, 2}
  Tags = {1, 2, 3, 4, 5, 6, 7}
  ClassOf <- TraceClassOf
  DimSet <- TraceDims
  Vals = {1}
CHECK_DEADLOCK FALSE
