--------------------------- MODULE Trace_DynImage ---------------------------
(* Validates recorded executions of extension/dynamic_image against DynImage.tla (C14).       *)
(*  Types : the type list of the harness (descriptors of the alternatives)                      *)
(*  Probe : outcome of one instantiation probe (P_Total)                                        *)
(*  Q     : dimensions / num_channels / size / index of an any_image and its views             *)
(*  T     : one view transformation of a run-time typed view: result of the dynamic overload,  *)
(*          result of the same call on the held view, and the source after a write through     *)
(*          the transformed view                                                                *)
(*  B     : one algorithm overload on (src alternative, dst alternative): exception, return     *)
(*          value and destination of the dynamic overload and of the concrete call              *)
(*  Reset / St : a TLC-generated history replayed on real any_image / any_image_view variables;*)
(*          the abstract state machine of DynImage.tla is stepped with the same operation and   *)
(*          its observable state compared with the recorded one after every call.               *)
EXTENDS TraceBase, DynImageBase

VARIABLES l, bad, drift, nchk,
          types,     \* sequence of alternative descriptors
          model,     \* abstract state of the history in progress
          dead       \* the rest of this history is meaningless (divergence or Fault observed)
vars == <<l, bad, drift, nchk, types, model, dead>>

TraceClassOf == <<1, 2, 2, 2, 3, 4, 5>>
TraceDims == {<<0, 0>>}
AltOf(d) == [space |-> d.space, bits |-> d.bits]
SameValueType(a, t) == a.space = t.space /\ a.bits = t.bits /\ a.order = t.order
FormName(f) == CASE f = 0 -> "any,any" [] f = 1 -> "const-any,any" [] f = 2 -> "any,concrete" [] OTHER -> "concrete,any"

TypesVerdict(ev) ==
    IF Len(ev.list) # Len(TraceClassOf)
       \/ \E i, j \in 1..Len(ev.list) : (TraceClassOf[i] = TraceClassOf[j]) # Compat(ev.list[i], ev.list[j])
    THEN {V("TypeListMismatch", "None", "types", ev.list)} ELSE {}

QOk(v, ev, n, isview) ==
    /\ v.idx = ev.alt /\ v.nch = n /\ v.w = ev.w /\ v.h = ev.h /\ v.dw = ev.w /\ v.dh = ev.h
    /\ (isview => (v.exc = "none" /\ v.size = ev.w * ev.h /\ Len(v.px) = ev.w * ev.h /\ AltOf(v.alt) = AltOf(types[ev.alt])))
QVerdict(ev) ==
    LET n == NChOf(types[ev.alt].space) IN
       (IF ~QOk(ev.im, ev, n, FALSE) THEN {V("P_Queries", "None", "any_image", [alt |-> ev.alt, w |-> ev.w, h |-> ev.h, got |-> ev.im])} ELSE {})
  \cup (IF ~QOk(ev.v, ev, n, TRUE) THEN {V("P_Queries", "None", "any_image_view", [alt |-> ev.alt, w |-> ev.w, h |-> ev.h])} ELSE {})
  \cup (IF ~QOk(ev.cv, ev, n, TRUE) THEN {V("P_Queries", "None", "any_image_view:const", [alt |-> ev.alt, w |-> ev.w, h |-> ev.h])} ELSE {})

TVerdict(ev) ==
    LET a   == types[ev.alt]
        g   == Grid(ev.w, ev.h, ev.src)
        t   == IF ev.t = "ccvk" THEN "ccv" ELSE ev.t
        key == ev.t \o (IF ev.const THEN ":const" ELSE "")
        d   == ev.dyn
        c   == ev.con
        ctx == [alt |-> ev.alt, w |-> ev.w, h |-> ev.h, args |-> ev.args]
    IN IF d.exc # "none" THEN {V("P_NoThrow", "None", key, [ctx |-> ctx, exc |-> d.exc])}
       ELSE
       LET dims == P_Dims(t, ev.args, ev.w, ev.h)
           ea   == P_TAlt(t, ev.args, a, ev.target)
           epx  == IF ev.t = "ccvk"
                   THEN (IF SameValueType(a, ev.target) THEN ev.src
                         ELSE [i \in 1..(ev.w * ev.h) |-> [k \in 1..NChOf(ev.target.space) |-> ev.args[1]]])
                   ELSE IF ev.t = "ccv" THEN c.px
                   ELSE P_TGrid(t, ev.args, a, g).px
       IN (IF <<d.w, d.h>> # dims \/ <<d.dw, d.dh>> # dims \/ d.size # dims[1] * dims[2]
           THEN {V("P_Dims", "None", key, [ctx |-> ctx, expected |-> dims, got |-> <<d.w, d.h, d.size>>])} ELSE {})
     \cup (IF d.nch # NChOf(ea.space) THEN {V("P_NumChannels", "None", key, [ctx |-> ctx, got |-> d.nch])} ELSE {})
     \cup (IF AltOf(d.alt) # ea \/ (t # "nthch" /\ d.idx # ev.alt)
           THEN {V("P_Alternative", "None", key, [ctx |-> ctx, expected |-> ea, got |-> d.alt, idx |-> d.idx])} ELSE {})
     \cup (IF d.px # epx THEN {V("P_Pixels", "None", key, [ctx |-> ctx, expected |-> epx, got |-> d.px])} ELSE {})
     \cup (IF c.exc = "none" /\ ~(AltOf(c.alt) = AltOf(d.alt) /\ c.w = d.w /\ c.h = d.h /\ c.size = d.size /\ c.nch = d.nch /\ c.px = d.px)
           THEN {V("P_SameAsConcrete", "None", key, [ctx |-> ctx, dyn |-> d, con |-> c])} ELSE {})
     \cup (IF c.exc # "none" THEN {V("P_SameAsConcrete", "None", key, [ctx |-> ctx, concrete_exc |-> c.exc])} ELSE {})
     \cup (IF ~ev.const /\ t # "ccv" /\ ~ev.wrote THEN {V("P_Shallow", "None", key, [ctx |-> ctx, what |-> "result view is not mutable"])} ELSE {})
     \cup (IF ev.wrote /\ ev.after # P_WriteThrough(t, ev.args, a, g, ev.mark)
           THEN {V("P_Shallow", "None", key, [ctx |-> ctx, src |-> ev.src, after |-> ev.after])} ELSE {})

BVerdict(ev) ==
    LET sa  == types[ev.si]
        da  == types[ev.di]
        exp == CASE ev.alg = "copy"     -> P_Copy(sa, da, ev.src, ev.dst0)
                 [] ev.alg = "equal"    -> P_Equal(sa, da, ev.src, ev.dst0)
                 [] ev.alg = "ccdef"    -> IF Compat(sa, da) THEN Outcome("none", ev.src, "none") ELSE Outcome("none", ev.con.dst, "none")
                 [] ev.alg = "cccust"   -> P_ConvertConst(sa, da, ev.src, ev.dst0, ev.args[1])
                 [] ev.alg = "resample" -> P_Resample(sa, da, ev.w, ev.h, ev.src, ev.dst0, ev.args[1], ev.args[2])
                 [] ev.alg = "fill"     -> P_Fill(sa, da, ev.val, ev.dst0)
                 [] ev.alg = "foreach"  -> P_ForEach(ev.dst0)
        key == ev.alg \o ":" \o FormName(ev.form)
        ctx == [si |-> ev.si, di |-> ev.di, w |-> ev.w, h |-> ev.h, args |-> ev.args, prep |-> ev.prep]
        d   == ev.dyn
        c   == ev.con
    IN (IF d.exc # exp.exc
        THEN {V(IF exp.exc = "bad_cast" THEN "P_BadCast" ELSE "P_NoThrow", "None", key, [ctx |-> ctx, expected |-> exp.exc, got |-> d.exc])} ELSE {})
  \cup (IF d.dst # exp.dst
        THEN {V(IF exp.exc = "bad_cast" THEN "P_DstUnchanged" ELSE "P_Result", "None", key, [ctx |-> ctx, src |-> ev.src, expected |-> exp.dst, got |-> d.dst])} ELSE {})
  \cup (IF d.exc = "none" /\ exp.exc = "none" /\ d.ret # exp.ret
        THEN {V("P_Return", "None", key, [ctx |-> ctx, expected |-> exp.ret, got |-> d.ret])} ELSE {})
  \cup (IF c.exc # "n/a" /\ (c.exc # d.exc \/ c.dst # d.dst \/ c.ret # d.ret)
        THEN {V("P_SameAsConcrete", "None", key, [ctx |-> ctx, dyn |-> d, con |-> c])} ELSE {})
  \cup (IF c.exc = "n/a" /\ Compat(sa, da) /\ ev.alg \notin {"foreach"}
        THEN {V("TypeListMismatch", "None", key, [ctx |-> ctx, what |-> "harness and specification disagree on compatibility"])} ELSE {})

SameImg(m, e) == m.live = e.live /\ (m.live => (m.tag = e.tag /\ m.w = e.w /\ m.h = e.h /\ m.px = e.px /\ e.nch = NChOf(types[m.tag].space)))
SameView(m, e) == m.live = e.live /\ (m.live => (m.tag = e.tag /\ m.w = e.w /\ m.h = e.h /\ m.px = e.px /\ e.size = m.w * m.h))

StResult(ev) ==     \* <<verdicts, next model>>
    LET o == ev.op IN
    IF ~Enabled(model, o) THEN <<{V("HistoryOpNotEnabled", "None", o.op, [i |-> ev.i, op |-> o])}, model>>
    ELSE
    LET m2 == Apply(model, o)
        r  == Result(model, o)
        ob == Obs(m2)
        ib == {v \in ImgVars : ~SameImg(ob.imgs[v], ev.imgs[v])}
        vb == {v \in ViewVars : ~SameView(ob.views[v], ev.views[v])}
        retClause == IF r = "bad_cast" THEN "P_BadCast" ELSE IF ev.ret \notin {"none", "true", "false"} THEN "P_NoThrow"
                     ELSE IF o.op = "EqImg" THEN "P_DeepEquality" ELSE IF o.op = "EqView" THEN "P_ShallowEquality" ELSE "P_Return"
        imgClause == IF r = "bad_cast" THEN "P_DstUnchanged"
                     ELSE IF o.op = "Recreate" /\ \E v \in ib : ev.imgs[v].live /\ ob.imgs[v].tag # ev.imgs[v].tag THEN "P_RecreateKeepsType"
                     ELSE IF o.op \in {"CopyCtor", "Assign", "AssignT", "Ctor"} THEN "P_DeepCopy"
                     ELSE IF o.op \in {"FillView", "CopyPixels"} THEN "P_WriteThroughView"
                     ELSE "P_ImageState"
        \* recreate passes the row alignment on to the held image: the layout is that of the concrete image recreated with the same arguments
        alignBad == o.op = "Recreate" /\ o.w * o.h > 0 /\ ev.imgs[o.a].live /\ ev.imgs[o.a].rb # P_RowBytes(types[ev.imgs[o.a].tag], o.w, o.x)
    IN <<   (IF alignBad THEN {V("P_RecreateLikeConcrete", "None", o.op, [i |-> ev.i, op |-> o, row_bytes |-> ev.imgs[o.a].rb,
                                                                     expected |-> P_RowBytes(types[ev.imgs[o.a].tag], o.w, o.x)])} ELSE {})
       \cup (IF ev.ret # r THEN {V(retClause, "None", o.op, [i |-> ev.i, op |-> o, expected |-> r, got |-> ev.ret])} ELSE {})
       \cup (IF ib # {} THEN {V(imgClause, "None", o.op, [i |-> ev.i, op |-> o, vars |-> ib, expected |-> ob.imgs, got |-> ev.imgs])} ELSE {})
       \cup (IF vb # {} THEN {V(IF o.op \in {"CopyView", "AssignView", "ViewOf", "SubView"} THEN "P_ShallowView" ELSE "P_ViewState", "None", o.op,
                                [i |-> ev.i, op |-> o, vars |-> vb, expected |-> ob.views, got |-> ev.views])} ELSE {}),
         m2 >>

Verdict(ev) ==
    CASE ev.e = "Types" -> TypesVerdict(ev)
      [] ev.e = "Probe" -> IF ev.ok THEN {} ELSE {V("P_Total", "None", ev.name, ev.msg)}
      [] ev.e = "Q"     -> QVerdict(ev)
      [] ev.e = "T"     -> TVerdict(ev)
      [] ev.e = "B"     -> BVerdict(ev)
      [] ev.e = "St"    -> IF dead THEN {} ELSE StResult(ev)[1]
      [] ev.e = "Fault" -> IF dead THEN {} ELSE {V("P_NoFault", "None", IF model = S0 /\ l > 1 /\ Tr[l - 1].e \in {"T", "B", "Q", "Types"} THEN Tr[l - 1].e ELSE "history", ev.kind)}
      [] ev.e \in {"Reset", "End"} -> {}
      [] OTHER -> {V("UnknownEvent", "None", ev.e, l)}

Init == /\ l = 1 /\ bad = <<>> /\ drift = <<>> /\ nchk = 0 /\ types = <<>> /\ model = S0 /\ dead = FALSE
Step == /\ l <= NTr
        /\ LET ev == Tr[l]
               vs == Verdict(ev)
           IN /\ bad' = MergeBad(bad, l, vs)
              /\ types' = IF ev.e = "Types" THEN ev.list ELSE types
              /\ model' = IF ev.e = "Reset" THEN S0
                          ELSE IF ev.e = "St" /\ ~dead /\ vs = {} THEN StResult(ev)[2] ELSE model
              /\ dead' = IF ev.e = "Reset" THEN FALSE
                         ELSE IF ev.e = "Fault" \/ (ev.e = "St" /\ vs # {}) THEN TRUE ELSE dead
              /\ nchk' = nchk + (IF ev.e \in {"Q", "T", "B", "St", "Probe"} THEN 1 ELSE 0)
        /\ drift' = drift
        /\ l' = l + 1
Fin  == /\ l = NTr + 1 /\ WriteOut(bad, drift, nchk) /\ l' = l + 1 /\ UNCHANGED <<bad, drift, nchk, types, model, dead>>
TNext == Step \/ Fin
Spec == Init /\ [][TNext]_vars
=============================================================================
