----------------------------- MODULE Trace_Filters -----------------------------
(* Validates recorded threshold / morphology / median results of the real library (C16). *)
EXTENDS Filters, TraceBase
VARIABLES l, bad, drift, nchk, cur
vars == <<l, bad, drift, nchk, cur>>
NoCase == [what |-> "none", types |-> "", w |-> 1, h |-> 1, kind |-> 0]
Dims(img) == <<W(img), H(img)>>

ThrVerdict(ev) ==
    LET exp == IF ev.fn = "binary" THEN Map(ev.src, LAMBDA p : P_Binary(p, ev.t, ev.maxv, ev.dir))
               ELSE Map(ev.src, LAMBDA p : P_Truncate(p, ev.t, ev.mode, ev.dir))
        key == "threshold_" \o ev.fn \o ":" \o ev.types \o ":" \o ev.dir \o ":" \o ev.mode
    IN (IF exp = ev.dst THEN {} ELSE {V("P_ThresholdPerPixel", "None", key, [t |-> ev.t, maxv |-> ev.maxv, dims |-> Dims(ev.src), ch |-> ev.ch])})
       \cup (IF Has(ev, "outside") /\ ev.outside # 0 THEN {V("P_WritesOnlyDestination", "None", key, [outside |-> ev.outside, dims |-> Dims(ev.src)])} ELSE {})

OtsuVerdict(ev) ==
    IF Dims(ev.src) = Dims(ev.dst) /\ P_IsSomeBinary(ev.src, ev.dst, ev.maxv) THEN {}
    ELSE {V("P_OtsuIsBinaryThreshold", "None", "threshold_optimal:" \o ev.types, [dims |-> Dims(ev.src), kind |-> ev.kind, ch |-> ev.ch, src |-> ev.src, dst |-> ev.dst])}

MorphVerdict(ev) ==
    LET se == ev.se
        exp == CASE ev.fn = "dilate"  -> P_Dilate(ev.src, se)
                 [] ev.fn = "erode"   -> P_Erode(ev.src, se)
                 [] ev.fn = "opening" -> P_Dilate(P_Erode(ev.src, se), se)
                 [] ev.fn = "closing" -> P_Erode(P_Dilate(ev.src, se), se)
                 [] ev.fn = "dilate2" -> P_Dilate(P_Dilate(ev.src, se), se)
                 [] ev.fn = "erode2"  -> P_Erode(P_Erode(ev.src, se), se)
    IN (IF Has(ev, "outside") /\ ev.outside # 0 THEN {V("P_WritesOnlyDestination", "None", ev.fn \o ":" \o ev.types, [outside |-> ev.outside, dims |-> Dims(ev.src)])} ELSE {})
       \cup IF H(ev.src) = 0 \/ W(ev.src) = 0 \/ exp = ev.dst THEN {}
       ELSE {V("P_MorphologyMinMax", "None", ev.fn \o ":" \o ev.types, [dims |-> Dims(ev.src), K |-> Len(se), ch |-> ev.ch, src |-> ev.src, se |-> se, dst |-> ev.dst])}

MedianVerdict(ev) ==
    IF Dims(ev.src) = Dims(ev.dst) /\ \A c \in Coords(ev.src) : P_IsMedian(Window(ev.src, c[1], c[2], ev.k), Pix(ev.dst, c[1], c[2])) THEN {}
    ELSE {V("P_MedianIsMedian", "None", "median_filter:" \o ev.types, [dims |-> Dims(ev.src), k |-> ev.k, ch |-> ev.ch])}

Verdict(ev) ==
    CASE ev.e = "Thr"    -> ThrVerdict(ev)
      [] ev.e = "Otsu"   -> OtsuVerdict(ev)
      [] ev.e = "Morph"  -> MorphVerdict(ev)
      [] ev.e = "Median" -> MedianVerdict(ev)
      [] ev.e = "Fault"  -> {V("P_NoFault", IF cur.w = 0 \/ cur.h = 0 THEN "empty-view" ELSE "None", cur.what \o ":" \o cur.types,
                               [kind |-> ev.kind, w |-> cur.w, h |-> cur.h, content |-> cur.kind])}
      [] ev.e \in {"End", "Try"} -> {}
      [] OTHER -> {V("UnknownEvent", "None", ev.e, l)}

Init == l = 1 /\ bad = <<>> /\ drift = <<>> /\ nchk = 0 /\ cur = NoCase
Step == /\ l <= NTr
        /\ bad' = MergeBad(bad, l, Verdict(Tr[l]))
        /\ drift' = drift
        /\ nchk' = nchk + (IF Tr[l].e \in {"Thr", "Otsu", "Morph", "Median"} THEN 1 ELSE 0)
        /\ cur' = IF Tr[l].e = "Try" THEN [what |-> Tr[l].what, types |-> Tr[l].types, w |-> Tr[l].w, h |-> Tr[l].h, kind |-> Tr[l].kind] ELSE cur
        /\ l' = l + 1
Fin  == /\ l = NTr + 1 /\ WriteOut(bad, drift, nchk) /\ l' = l + 1 /\ UNCHANGED <<bad, drift, nchk, cur>>
Next == Step \/ Fin
Spec == Init /\ [][Next]_vars
=============================================================================
