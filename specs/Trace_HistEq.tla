---------------------------- MODULE Trace_HistEq ----------------------------
(* Validates harness/x02_histeq.cpp against HistEq.tla (extension X02). *)
EXTENDS TraceBase, HistEq
VARIABLES l, bad, drift, nchk
vars == <<l, bad, drift, nchk>>

EqMapVerdict(ev) ==
    LET h == ev.hist  exp == P_Map(h, 0, 255) IN
       (IF ~WellFormed(h) \/ ~IsHistOf(h, ev.vals) THEN {V("X_HistogramOfImage", "None", "fill", [vals |-> ev.vals, hist |-> h])} ELSE {})
  \cup (IF ev.map # exp THEN {V("X_EqualisationMap", "None", "map", [hist |-> h, expected |-> exp, got |-> ev.map])} ELSE {})
  \cup (IF ~Monotone(ev.map) THEN {V("X_EqualisationMonotone", "None", "map", ev.map)} ELSE {})
  \cup (IF \E i \in 1..Len(ev.dst) : ev.dst[i][2] # P_DstCount(h, 0, 255, ev.dst[i][1])
        THEN {V("X_EqualisationMass", "None", "dst", [hist |-> h, dst |-> ev.dst])} ELSE {})
  \cup (IF SumSeq([i \in 1..Len(ev.dst) |-> ev.dst[i][2]]) # Total(h) THEN {V("X_EqualisationMass", "None", "total", [hist |-> h, dst |-> ev.dst])} ELSE {})
\* view version: computed through normalised (floating point) cumulative sums: within one level of the exact map, a function of the
\* source value, monotone, largest source value -> 255
EqViewVerdict(ev) ==
    LET n == Len(ev.src)
        le(v) == Cardinality({j \in 1..n : ev.src[j] <= v})
        exact(v) == (le(v) * 255) \div n
        key == ev.type \o ":" \o ToString(ev.ch)
    IN (IF \E i \in 1..n : Abs(ev.dst[i] - exact(ev.src[i])) > 1 THEN {V("X_EqualisedView", "None", key, [src |-> ev.src, dst |-> ev.dst])} ELSE {})
  \cup (IF \E i, j \in 1..n : (ev.src[i] = ev.src[j] /\ ev.dst[i] # ev.dst[j]) \/ (ev.src[i] < ev.src[j] /\ ev.dst[i] > ev.dst[j])
        THEN {V("X_EqualisationMonotone", "None", key, [src |-> ev.src, dst |-> ev.dst])} ELSE {})
Verdict(ev) ==
    CASE ev.e = "EqMap" -> EqMapVerdict(ev)
      [] ev.e = "EqView" -> EqViewVerdict(ev)
      [] ev.e = "Fault" -> {V("X_NoFault", "None", "histeq", ev.kind)}
      [] ev.e = "End" -> {}
      [] OTHER -> {V("UnknownEvent", "None", ev.e, l)}
Init == l = 1 /\ bad = <<>> /\ drift = <<>> /\ nchk = 0
Step == /\ l <= NTr /\ bad' = MergeBad(bad, l, Verdict(Tr[l])) /\ nchk' = nchk + (IF Tr[l].e = "End" THEN 0 ELSE 1) /\ drift' = drift /\ l' = l + 1
Fin  == /\ l = NTr + 1 /\ WriteOut(bad, drift, nchk) /\ l' = l + 1 /\ UNCHANGED <<bad, drift, nchk>>
Next == Step \/ Fin
Spec == Init /\ [][Next]_vars
=============================================================================
