--------------------------- MODULE Trace_HistMatch ---------------------------
(* Validates harness/x06_histmatch.cpp against HistMatch.tla (extension X06). *)
EXTENDS TraceBase, HistMatch
VARIABLES l, bad, drift, nchk
vars == <<l, bad, drift, nchk>>

Keys(h) == [i \in 1..Len(h) |-> h[i][1]]
Cnts(h) == [i \in 1..Len(h) |-> h[i][2]]
IndexOf(keys, k) == IF \E i \in 1..Len(keys) : keys[i] = k THEN CHOOSE i \in 1..Len(keys) : keys[i] = k ELSE 0
MatchVerdict(ev) ==
    LET sk == Keys(ev.src) sc == Cnts(ev.src) rk == Keys(ev.ref) rc == Cnts(ev.ref)
        \* the map as reference indices, in source key order (0 = not a reference key / key missing from the map)
        idx == [j \in 1..Len(sk) |-> LET e == IndexOf(Keys(ev.map), sk[j]) IN IF e = 0 THEN 0 ELSE IndexOf(rk, ev.map[e][2])]
        okmap == Len(ev.map) = Len(sk) /\ \A j \in 1..Len(sk) : idx[j] # 0
        dstOf(k) == LET e == IndexOf(Keys(ev.dst), k) IN IF e = 0 THEN 0 ELSE ev.dst[e][2]
    IN IF ~okmap THEN {V("X_MatchIsMap", "None", "hist", [src |-> ev.src, ref |-> ev.ref, map |-> ev.map])}
       ELSE (IF P_Match(sc, rc, idx) THEN {} ELSE {V("X_MatchNearest", "None", "hist", [src |-> ev.src, ref |-> ev.ref, map |-> ev.map])})
       \cup (IF P_Monotone(idx) THEN {} ELSE {V("X_MatchMonotone", "None", "hist", [src |-> ev.src, ref |-> ev.ref, map |-> ev.map])})
       \cup (IF (\A i \in 1..Len(rk) : dstOf(rk[i]) = P_DstCount(sc, idx, i)) /\ (\A e \in 1..Len(ev.dst) : ev.dst[e][2] = 0 \/ IndexOf(rk, ev.dst[e][1]) # 0)
             THEN {} ELSE {V("X_MatchMass", "None", "hist", [src |-> ev.src, map |-> ev.map, dst |-> ev.dst])})
MatchDrift(ev) ==
    LET sk == Keys(ev.src) rk == Keys(ev.ref) want == I_Match(Cnts(ev.src), Cnts(ev.ref))
        mapped(j) == LET e == IndexOf(Keys(ev.map), sk[j]) IN IF e = 0 THEN -1 ELSE ev.map[e][2]
    IN IF \A j \in 1..Len(sk) : mapped(j) = rk[want[j]] THEN {} ELSE {V("I_MatchLoop", "model", "hist", [src |-> ev.src, ref |-> ev.ref, map |-> ev.map])}
\* view version: dense 256-bin histograms of both views per channel; every destination value is a value whose cumulative
\* frequency in the reference is nearest to the source value's cumulative frequency; a function of the source value, monotone
ViewVerdict(ev) ==
    LET n == Len(ev.src) m == Len(ev.ref)
        cs(v) == Cardinality({j \in 1..n : ev.src[j] <= v})
        cr(v) == Cardinality({j \in 1..m : ev.ref[j] <= v})
        dist(v, s) == Abs(cr(v) * n - cs(s) * m)
        \* candidate reference values: 0, 255 and the values present (between two present values the cumulative count is constant)
        cand == {0, 255} \cup {ev.ref[j] : j \in 1..m} \cup {ev.ref[j] - 1 : j \in {q \in 1..m : ev.ref[q] > 0}}
        key == ev.type \o ":" \o ToString(ev.ch)
    IN (IF Len(ev.dst) = n /\ \A i \in 1..n : ev.dst[i] \in 0..255 /\ \A v \in cand : dist(ev.dst[i], ev.src[i]) <= dist(v, ev.src[i])
        THEN {} ELSE {V("X_MatchNearest", "None", key, [src |-> ev.src, ref |-> ev.ref, dst |-> ev.dst])})
  \cup (IF \E i, j \in 1..n : (ev.src[i] = ev.src[j] /\ ev.dst[i] # ev.dst[j]) \/ (ev.src[i] < ev.src[j] /\ ev.dst[i] > ev.dst[j])
        THEN {V("X_MatchMonotone", "None", key, [src |-> ev.src, dst |-> ev.dst])} ELSE {})
Verdict(ev) ==
    CASE ev.e = "Match" -> MatchVerdict(ev)
      [] ev.e = "MatchView" -> ViewVerdict(ev)
      [] ev.e = "Fault" -> {V("X_NoFault", "None", "histmatch", ev.kind)}
      [] ev.e = "End" -> {}
      [] OTHER -> {V("UnknownEvent", "None", ev.e, l)}
Init == l = 1 /\ bad = <<>> /\ drift = <<>> /\ nchk = 0
Step == /\ l <= NTr /\ bad' = MergeBad(bad, l, Verdict(Tr[l])) /\ nchk' = nchk + (IF Tr[l].e = "End" THEN 0 ELSE 1)
        /\ drift' = (IF Tr[l].e = "Match" THEN MergeBad(drift, l, MatchDrift(Tr[l])) ELSE drift) /\ l' = l + 1
Fin  == /\ l = NTr + 1 /\ WriteOut(bad, drift, nchk) /\ l' = l + 1 /\ UNCHANGED <<bad, drift, nchk>>
Next == Step \/ Fin
Spec == Init /\ [][Next]_vars
=============================================================================
