SPECIFICATION Spec
CHECK_DEADLOCK FALSE
