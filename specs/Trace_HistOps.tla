--------------------------- MODULE Trace_HistOps ---------------------------
(* Validates harness/x10_histops.cpp against HistOps.tla (extension X10). *)
EXTENDS TraceBase, HistOps
VARIABLES l, bad, drift, nchk
vars == <<l, bad, drift, nchk>>
OpsVerdict(ev) ==
    LET exp == P_Equals(ev.a, ev.b)
        \* which side has bins the other lacks
        cause == IF Keys(ev.b) \subseteq Keys(ev.a) /\ Keys(ev.a) # Keys(ev.b) THEN "receiver-has-extra-bins" ELSE "None"
    IN (IF ev.a_equals_b = exp THEN {} ELSE {V("X_HistEquals", cause, "a.equals(b)", [a |-> ev.a, b |-> ev.b, got |-> ev.a_equals_b])})
  \cup (IF ev.b_equals_a = exp THEN {} ELSE {V("X_HistEquals", IF Keys(ev.a) \subseteq Keys(ev.b) /\ Keys(ev.a) # Keys(ev.b) THEN "receiver-has-extra-bins" ELSE "None", "b.equals(a)", [a |-> ev.a, b |-> ev.b, got |-> ev.b_equals_a])})
  \cup (IF ev.a_equals_b = ev.b_equals_a THEN {} ELSE {V("X_HistEqualsSymmetric", "None", "equals", [a |-> ev.a, b |-> ev.b])})
  \cup (IF ev.op_eq = exp THEN {} ELSE {V("X_HistOperatorEq", "None", "==", [a |-> ev.a, b |-> ev.b, got |-> ev.op_eq])})
  \cup (IF ev.nearest = P_Nearest(ev.a, ev.probe) THEN {} ELSE {V("X_HistNearestKey", "None", "nearest_key", [a |-> ev.a, probe |-> ev.probe, got |-> ev.nearest])})
  \cup (IF ev.min = P_Min(ev.a) /\ ev.max = P_Max(ev.a) THEN {} ELSE {V("X_HistMinMax", "None", "min_key/max_key", [a |-> ev.a, min |-> ev.min, max |-> ev.max])})
  \cup (IF P_IsSortedKeys(ev.a, ev.sorted) THEN {} ELSE {V("X_HistSortedKeys", "None", "sorted_keys", [a |-> ev.a, got |-> ev.sorted])})
Verdict(ev) ==
    CASE ev.e = "HistOps" -> OpsVerdict(ev)
      [] ev.e = "Fault" -> {V("X_NoFault", "None", "histops", ev.kind)}
      [] ev.e = "End" -> {}
      [] OTHER -> {V("UnknownEvent", "None", ev.e, l)}
Init == l = 1 /\ bad = <<>> /\ drift = <<>> /\ nchk = 0
Step == /\ l <= NTr /\ bad' = MergeBad(bad, l, Verdict(Tr[l])) /\ nchk' = nchk + (IF Tr[l].e = "End" THEN 0 ELSE 1) /\ drift' = drift /\ l' = l + 1
Fin  == /\ l = NTr + 1 /\ WriteOut(bad, drift, nchk) /\ l' = l + 1 /\ UNCHANGED <<bad, drift, nchk>>
Next == Step \/ Fin
Spec == Init /\ [][Next]_vars
=============================================================================
