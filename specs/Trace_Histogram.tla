---------------------------- MODULE Trace_Histogram ----------------------------
(* Validates recorded histogram operations of the real library (C19).               *)
EXTENDS Histogram, TraceBase
VARIABLES l, bad, drift, nchk
vars == <<l, bad, drift, nchk>>

\* does the image contain a value that the implementation's unsigned division maps differently from C++ signed division?
HasNegative(ev) == ev.bw > 1 /\ \E i \in 1..Len(ev.pixels) : \E d \in 1..Len(ev.dims) : ev.pixels[i][ev.dims[d] + 1] < 0

FillVerdict(ev) ==
    LET ks == {PixelKey(ev.pixels[i], ev.dims, ev.bw) : i \in 1..Len(ev.pixels)} \cup Keys(ev.hist) \cup Keys(ev.prev)
        Exp(k) == P_FillCount(ev.pixels, ev.mask, ev.use_mask, ev.dims, ev.bw, ev.lo, ev.hi, ev.use_limits, k)
                  + (IF ev.accumulate THEN CountIn(ev.prev, k) ELSE 0)
        badk == {k \in ks : CountIn(ev.hist, k) # Exp(k)}
        counted == Cardinality(Counted(ev.pixels, ev.mask, ev.use_mask, ev.dims, ev.bw, ev.lo, ev.hi, ev.use_limits)) + (IF ev.accumulate THEN Total(ev.prev) ELSE 0)
        key == ev.types \o ":" \o ToString(ev.dims)
        cause == IF HasNegative(ev) THEN "negative-value-unsigned-division" ELSE "None"
    IN (IF badk = {} THEN {} ELSE
          LET k == CHOOSE q \in badk : TRUE IN
          {V("P_BinCounts", cause, key, [bin |-> k, expected |-> Exp(k), got |-> CountIn(ev.hist, k), bw |-> ev.bw, mask |-> ev.use_mask, limits |-> ev.use_limits,
                                         accumulate |-> ev.accumulate, sparse |-> ev.sparse, dims |-> <<ev.w, ev.h>>])})
       \cup (IF Total(ev.hist) = counted THEN {} ELSE {V("P_MassConserved", cause, key, [sum |-> Total(ev.hist), counted |-> counted, accumulate |-> ev.accumulate, sparse |-> ev.sparse])})
       \cup (IF NoDupKeys(ev.hist) THEN {} ELSE {V("P_BinCounts", "None", key, "duplicate keys")})

CumVerdict(ev) ==
    LET ks == Keys(ev.hist) key == ev.types IN
    (IF Keys(ev.cum) = ks /\ \A k \in ks : CountIn(ev.cum, k) = P_Cumulative(ev.hist, k) THEN {} ELSE {V("P_Cumulative", "None", key, [hist |-> ev.hist, cum |-> ev.cum])})
    \cup (IF \A k1, k2 \in Keys(ev.cum) : LeqAll(k1, k2) => CountIn(ev.cum, k1) <= CountIn(ev.cum, k2) THEN {} ELSE {V("P_CumulativeMonotone", "None", key, ev.cum)})
    \cup (IF \A k \in Keys(ev.cum) : (\A k2 \in ks : LeqAll(k2, k)) => CountIn(ev.cum, k) = Total(ev.hist) THEN {} ELSE {V("P_CumulativeTotal", "None", key, ev.cum)})

\* cumulative histogram of non-integral bins (values scaled by 2^20 and rounded: one unit of slack per contributing bin)
CumNormVerdict(ev) ==
    LET ks == Keys(ev.norm)  n == Len(ev.norm) IN
    IF Keys(ev.cum) = ks /\ \A k \in ks : Abs(CountIn(ev.cum, k) - P_Cumulative(ev.norm, k)) <= n + 1 THEN {}
    ELSE {V("P_Cumulative", "None", ev.types \o ":normalised", [norm |-> ev.norm, cum |-> ev.cum])}

NormVerdict(ev) ==
    LET tot == Total(ev.hist) one == 1048576
        Ok(k) == Abs(CountIn(ev.norm, k) * tot - CountIn(ev.hist, k) * one) <= tot
    IN IF tot = 0 \/ (Abs(Total(ev.norm) - one) <= Len(ev.norm) + 1 /\ \A k \in Keys(ev.hist) : Ok(k)) THEN {}
       ELSE {V("P_NormalizeSumsToOne", "None", ev.types, [sum |-> Total(ev.norm), hist |-> ev.hist])}

SubAxesVerdict(ev) ==
    LET ks2 == {Project(k, ev.axes) : k \in Keys(ev.hist)} IN
    IF Keys(ev.sub) = ks2 /\ (\A k2 \in ks2 : CountIn(ev.sub, k2) = P_Marginal(ev.hist, ev.axes, k2)) /\ Total(ev.sub) = Total(ev.hist) THEN {}
    ELSE {V("P_SubHistogramAxes", "None", ev.types \o ":" \o ToString(ev.axes), [hist |-> ev.hist, sub |-> ev.sub])}

\* key range: either reading the code base itself uses is accepted (per-axis box, or lexicographic order of the selected axes)
SubRangeVerdict(ev) ==
    LET InBox(k) == LeqAll(ev.lo, Project(k, ev.axes)) /\ LeqAll(Project(k, ev.axes), ev.hi)
        InLex(k) == LexLeq(ev.lo, Project(k, ev.axes)) /\ LexLeq(Project(k, ev.axes), ev.hi)
        Same(In(_)) == /\ Keys(ev.sub) = {k \in Keys(ev.hist) : In(k) /\ CountIn(ev.hist, k) # 0} \cup {k \in Keys(ev.sub) : In(k) /\ CountIn(ev.sub, k) = 0}
                       /\ \A k \in Keys(ev.sub) : CountIn(ev.sub, k) = CountIn(ev.hist, k)
    IN IF Same(InBox) \/ Same(InLex) THEN {} ELSE {V("P_SubHistogramRange", "None", ev.types \o ":" \o ToString(ev.axes), [lo |-> ev.lo, hi |-> ev.hi, hist |-> ev.hist, sub |-> ev.sub])}

StdVerdict(ev) ==
    LET ks == Keys(ev.hist) \cup {<<ev.cont[i][1]>> : i \in 1..Len(ev.cont)} IN
    IF \A k \in ks : CountIn(ev.hist, k) = CountIn(ev.cont, k) THEN {} ELSE {V("P_StdContainersAgree", "None", ev.kind, [hist |-> ev.hist])}

Verdict(ev) ==
    CASE ev.e = "Fill"     -> FillVerdict(ev)
      [] ev.e = "Cum"      -> CumVerdict(ev)
      [] ev.e = "Norm"     -> NormVerdict(ev)
      [] ev.e = "CumNorm"  -> CumNormVerdict(ev)
      [] ev.e = "SubAxes"  -> SubAxesVerdict(ev)
      [] ev.e = "SubRange" -> SubRangeVerdict(ev)
      [] ev.e = "Std"      -> StdVerdict(ev)
      \* all 65536 16-bit values once: bin i of an N-bin array holds the values p with floor(p * (N-1) / 65535) = i,
      \* i.e. 65535 / (N-1) values each and the single value 65535 in the last bin (N - 1 divides 65535 for N = 16, 256, 65536)
      [] ev.e = "ArrFull"  -> LET per == 65535 \div (ev.n - 1) IN
                              IF Len(ev.counts) = ev.n /\ ev.counts[ev.n] = 1 /\ \A i \in 1..(ev.n - 1) : ev.counts[i] = per THEN {}
                              ELSE {V("P_StdContainersAgree", "None", "array:all-16-bit-values:" \o ToString(ev.n),
                                      [first_bad_bin |-> (CHOOSE i \in 1..ev.n : ev.counts[i] # (IF i = ev.n THEN 1 ELSE per)) - 1])}
      [] ev.e = "Fault"    -> {V("P_NoFault", "None", "driver", ev.kind)}
      [] ev.e = "End"      -> {}
      [] OTHER -> {V("UnknownEvent", "None", ev.e, l)}

Init == l = 1 /\ bad = <<>> /\ drift = <<>> /\ nchk = 0
Step == /\ l <= NTr
        /\ bad' = MergeBad(bad, l, Verdict(Tr[l]))
        /\ drift' = drift
        /\ nchk' = nchk + 1
        /\ l' = l + 1
Fin  == /\ l = NTr + 1 /\ WriteOut(bad, drift, nchk) /\ l' = l + 1 /\ UNCHANGED <<bad, drift, nchk>>
Next == Step \/ Fin
Spec == Init /\ [][Next]_vars
=============================================================================
