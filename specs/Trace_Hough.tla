----------------------------- MODULE Trace_Hough -----------------------------
(* Validates harness/x07_hough.cpp against Hough.tla (extension X07). *)
EXTENDS TraceBase, Hough
VARIABLES l, bad, drift, nchk
vars == <<l, bad, drift, nchk>>

ParamVerdict(ev) ==
    LET p == [start |-> ev.start, step |-> ev.step, count |-> ev.count]
        key == ev.kind
        \* from_step_count with a neighbourhood the half step count does not divide cannot be centred with an integer step
        cause == IF ev.kind = "step_count" /\ ev.n % ev.arg # 0 THEN "indivisible-neighbourhood" ELSE "None"
    IN (IF P_Centred(p, ev.mid) THEN {} ELSE {V("X_ParamCentred", cause, key, [mid |-> ev.mid, neighbourhood |-> ev.n, arg |-> ev.arg, points |-> Points(p)])})
  \cup (IF P_Within(p, ev.mid, ev.n) THEN {} ELSE {V("X_ParamWithin", cause, key, [mid |-> ev.mid, neighbourhood |-> ev.n, arg |-> ev.arg, points |-> Points(p)])})
ParamDrift(ev) ==
    LET want == IF ev.kind = "step_size" THEN I_FromStepSize(ev.mid, ev.n, ev.arg) ELSE I_FromStepCount(ev.mid, ev.n, ev.arg)
    IN IF want.start = ev.start /\ want.step = ev.step /\ want.count = ev.count THEN {} ELSE {V("I_Param", "model", ev.kind, [want |-> want, got |-> <<ev.start, ev.step, ev.count>>])}
CircleVerdict(ev) ==
    LET set == {<<ev.set[i][1], ev.set[i][2]>> : i \in 1..Len(ev.set)}
        exp(xi, yi) == P_CircleVotes(ev.w, ev.h, set, ev.pts, ev.xstart + xi * ev.xstep, ev.ystart + yi * ev.ystep)
        key == IF ev.border THEN "circle:border" ELSE "circle:interior"
    IN IF Len(ev.acc) = ev.xcount * ev.ycount /\ \A yi \in 0..(ev.ycount - 1), xi \in 0..(ev.xcount - 1) : ev.acc[yi * ev.xcount + xi + 1] = exp(xi, yi)
       THEN {} ELSE {V("X_CircleVotes", "None", key, [w |-> ev.w, h |-> ev.h, radius |-> ev.radius, acc |-> ev.acc])}
Verdict(ev) ==
    CASE ev.e = "Param" -> ParamVerdict(ev)
      [] ev.e = "Circle" -> CircleVerdict(ev)
      [] ev.e = "Fault" -> {V("X_NoFault", "None", "hough", ev.kind)}
      [] ev.e = "End" -> {}
      [] OTHER -> {V("UnknownEvent", "None", ev.e, l)}
Init == l = 1 /\ bad = <<>> /\ drift = <<>> /\ nchk = 0
Step == /\ l <= NTr /\ bad' = MergeBad(bad, l, Verdict(Tr[l])) /\ nchk' = nchk + (IF Tr[l].e = "End" THEN 0 ELSE 1)
        /\ drift' = (IF Tr[l].e = "Param" THEN MergeBad(drift, l, ParamDrift(Tr[l])) ELSE drift) /\ l' = l + 1
Fin  == /\ l = NTr + 1 /\ WriteOut(bad, drift, nchk) /\ l' = l + 1 /\ UNCHANGED <<bad, drift, nchk>>
Next == Step \/ Fin
Spec == Init /\ [][Next]_vars
=============================================================================
