-------------------------- MODULE Trace_ImageStore --------------------------
(* Validates replayed operation histories of real gil::image objects against    *)
(* ImageStore.tla (C10): allocator protocol, element balance, deep copies,      *)
(* recreate contract, exception safety.  The I_ model is stepped alongside for   *)
(* drift detection (dimensions of every handle).                                 *)
EXTENDS TraceBase, GilInt

VARIABLES l, bad, drift, nchk,
          tr,        \* trait of the current history ("prop" / "noprop")
          hp,        \* live blocks seen through allocator events: id -> [size, alloc]
          op,        \* the public call in progress (record) or NoOp
          own,       \* handle -> [w, h, blk, bsize] from the last State event
          nalloc,    \* allocations during the call in progress
          dead,      \* the rest of this history is meaningless (a Fault was observed)
          capOf      \* block id -> [w, h, al] the image had when the block was first seen (al = -1: not known)
vars == <<l, bad, drift, nchk, tr, hp, op, own, nalloc, dead, capOf>>

NoOp == [op |-> "none", h |-> 0, from |-> 0, w |-> 0, hh |-> 0, al |-> 0, a |-> 0, fail |-> FALSE, cfail |-> 0]
NoOwn == [w |-> 0, h |-> 0, blk |-> 0, bsize |-> 0, live |-> FALSE, a |-> 0]
Psz == 4
RowBytes(w, al) == IF al > 0 THEN Align(w * Psz, al) ELSE w * Psz
Needed(w, h, al) == RowBytes(w, al) * h + (IF al > 0 THEN al - 1 ELSE 0)

\* specification-level cause of a protocol violation: is the call one whose implementation swaps or takes
\* over memory between UNEQUAL allocators that do not propagate?
Unequal(a1, a2) == tr = "noprop" /\ a1 # a2
OpCause ==
    IF op.op \in {"CopyAssign"} /\ Unequal(own[op.h].a, own[op.from].a) THEN "unequal-nonpropagating-allocators"
    ELSE IF op.op \in {"Recreate", "RecreateFill"} /\ Unequal(own[op.h].a, 0) THEN "unequal-nonpropagating-allocators"
    ELSE IF op.op \in {"RecreateAlloc", "RecreateFillAlloc"} /\ Unequal(own[op.h].a, op.a) THEN "unequal-nonpropagating-allocators"
    ELSE IF op.fail THEN "injected-allocation-failure"
    ELSE IF op.cfail > 0 THEN "injected-element-construction-failure"
    ELSE "None"
Key == tr \o ":" \o op.op

FreeVerdict(ev) ==
    IF ev.blk <= 0 \/ ev.blk \notin DOMAIN hp
    THEN {V("P_FreeOnce", OpCause, Key, [what |-> "deallocate of a block that is not live", size |-> ev.size, blk |-> ev.blk])}
    ELSE (IF hp[ev.blk].size # ev.size THEN {V("P_FreeSameSize", OpCause, Key, [allocated |-> hp[ev.blk].size, freed |-> ev.size])} ELSE {})
         \cup (IF hp[ev.blk].alloc # ev.a THEN {V("P_FreeSameAllocator", OpCause, Key, [allocated_by |-> hp[ev.blk].alloc, freed_by |-> ev.a])} ELSE {})

StateVerdict(ev) ==
    LET I == {i \in 1..Len(ev.imgs) : ev.imgs[i].live}
        NonEmpty == {i \in I : ev.imgs[i].w * ev.imgs[i].hh > 0}
        pixels == SumSeq([i \in 1..Len(ev.imgs) |-> IF ev.imgs[i].live THEN ev.imgs[i].w * ev.imgs[i].hh ELSE 0])
        x == op.h
        me == IF x \in 1..Len(ev.imgs) THEN ev.imgs[x] ELSE [live |-> FALSE]
        prev == IF x \in DOMAIN own THEN own[x] ELSE NoOwn
        okRecreate == op.op \in {"Recreate", "RecreateAlloc", "RecreateFill", "RecreateFillAlloc"} /\ ~op.fail /\ op.cfail = 0
        okCtor == op.op = "Ctor" /\ ~op.fail /\ op.cfail = 0
    IN  \* one live block per non-empty image, of sufficient size, and all pixels inside it
        (IF \E i \in NonEmpty : ev.imgs[i].blk \notin DOMAIN hp \/ ~ev.imgs[i].inside \/ ev.imgs[i].bsize < ev.imgs[i].w * ev.imgs[i].hh * Psz
         THEN {V("P_OneBlock", OpCause, Key, [imgs |-> ev.imgs])} ELSE {})
        \cup (IF \E i, j \in NonEmpty : i # j /\ ev.imgs[i].blk = ev.imgs[j].blk THEN {V("P_OneBlock", OpCause, Key, "two images share a block")} ELSE {})
        \* no leak: never more live blocks than live images; none at quiescence
        \cup (IF Cardinality(DOMAIN hp) > Cardinality(I) THEN {V("P_NoLeak", OpCause, Key, [live_blocks |-> Cardinality(DOMAIN hp), live_images |-> Cardinality(I)])} ELSE {})
        \* elements: constructed = the pixels of the live images, nothing constructed or destroyed twice
        \cup (IF ev.elems # pixels \/ ev.bad_ctor # 0 \/ ev.bad_dtor # 0
              THEN {V("P_ElemBalance", OpCause, Key, [live_elements |-> ev.elems, pixels |-> pixels, bad_ctor |-> ev.bad_ctor, bad_dtor |-> ev.bad_dtor])} ELSE {})
        \* construction / recreate give the requested dimensions and alignment, and reuse storage when large enough
        \cup (IF (okRecreate \/ okCtor) /\ me.live /\ (me.w # op.w \/ me.hh # op.hh)
              THEN {V("P_Dims", IF op.w * op.hh = 0 THEN "zero-area" ELSE "None", Key, [requested |-> <<op.w, op.hh>>, got |-> <<me.w, me.hh>>])} ELSE {})
        \cup (IF (okRecreate \/ okCtor) /\ me.live /\ op.al > 0 /\ \E k \in 1..Len(me.rowmod) : me.rowmod[k] % op.al # 0
              THEN {V("P_RowAligned", OpCause, Key, [al |-> op.al, rowmod |-> me.rowmod])} ELSE {})
        \* existing storage is reused when large enough: a block the image obtained for w x h at some alignment is large enough for
        \* any request that is no larger in either dimension at the same alignment (whatever the size arithmetic of the implementation is)
        \cup (IF okRecreate /\ prev.live /\ prev.blk # 0 /\ prev.blk \in DOMAIN capOf /\ nalloc > 0
                 /\ capOf[prev.blk].al = op.al /\ op.w <= capOf[prev.blk].w /\ op.hh <= capOf[prev.blk].h /\ op.w * op.hh > 0
                 /\ (op.op \in {"Recreate", "RecreateFill"} \/ op.a = prev.a)
              THEN {V("P_ReuseStorage", OpCause, Key, [had |-> prev.bsize, block_was_for |-> capOf[prev.blk], requested |-> <<op.w, op.hh, op.al>>])} ELSE {})

\* the I_ layer's allocation arithmetic says the block suffices but the implementation allocated: a deviation from the model, not from the property
StateDrift(ev) ==
    LET x == op.h
        prev == IF x \in DOMAIN own THEN own[x] ELSE NoOwn
        okRecreate == op.op \in {"Recreate", "RecreateAlloc", "RecreateFill", "RecreateFillAlloc"} /\ ~op.fail /\ op.cfail = 0
    IN IF okRecreate /\ prev.live /\ prev.blk # 0 /\ prev.bsize >= Needed(op.w, op.hh, op.al) /\ nalloc > 0
          /\ (op.op \in {"Recreate", "RecreateFill"} \/ op.a = prev.a) /\ OpCause = "None"
       THEN {V("I_AllocSize", "model", Key, [had |-> prev.bsize, needed_by_model |-> Needed(op.w, op.hh, op.al)])} ELSE {}

DoneVerdict(ev) ==
    (IF ev.has_eq /\ ~ev.eq THEN {V("P_CopyEqual", IF \E h \in DOMAIN own : own[h].live /\ own[h].w * own[h].h = 0 /\ own[h].w + own[h].h > 0 THEN "zero-area" ELSE "None", Key, "copy does not compare equal to its source")} ELSE {})
    \cup (IF ev.has_eq /\ ev.alias THEN {V("P_DeepCopy", "None", Key, "write through the copy is visible in the source")} ELSE {})
    \* (a recreate to the dimensions the image already has may be a no-op; when the dimensions change every pixel holds the fill value)
    \cup (IF ev.op \in {"RecreateFill", "RecreateFillAlloc"} /\ ~ev.threw /\ ~ev.filled /\ (own[op.h].w # op.w \/ own[op.h].h # op.hh) THEN {V("P_RecreateFills", "None", Key, "recreate with a fill value left other values in the image")} ELSE {})
    \cup (IF ev.fired /\ ~ev.threw THEN {V("P_Strong", "None", Key, "allocation failure was swallowed")} ELSE {})
    \cup (IF ev.cfired /\ ~ev.threw THEN {V("P_Strong", "None", Key, "element construction failure was swallowed")} ELSE {})

\* the model chose a construction of the call to fail, but the call constructed fewer elements than that
DoneDrift(ev) == IF ~dead /\ op.cfail > 0 /\ ~ev.cfired /\ ~ev.threw
                 THEN {V("I_CtorFailPoint", "model", Key, [cfail |-> op.cfail])} ELSE {}

Verdict(ev) ==
    IF dead /\ ev.e # "Reset" THEN {}
    ELSE CASE ev.e = "Free"  -> FreeVerdict(ev)
           [] ev.e = "State" -> StateVerdict(ev)
           [] ev.e = "Done"  -> DoneVerdict(ev)
           \* copies / converting copies of real pixel types: same dimensions and pixels as the source, and independent of it
           [] ev.e = "CopyEq" -> (IF ev.dw = ev.w /\ ev.dh = ev.h /\ ev.dp = ev.sp /\ ev.eq THEN {}
                                  ELSE {V("P_CopyEqual", "None", ev.how \o ":" \o ev.src \o "->" \o ev.dst,
                                          [w |-> ev.w, h |-> ev.h, salign |-> ev.salign, dalign |-> ev.dalign, eq |-> ev.eq, dims |-> <<ev.dw, ev.dh>>])})
                                 \cup (IF ev.alias THEN {V("P_DeepCopy", "None", ev.how \o ":" \o ev.src \o "->" \o ev.dst, "write through the copy is visible in the source")} ELSE {})
           [] ev.e = "Fault" -> {V("P_NoFault", OpCause, Key, ev.kind)}
           [] ev.e \in {"Reset", "Op", "Alloc", "AllocFail", "End"} -> {}
           [] OTHER -> {V("UnknownEvent", "None", ev.e, l)}

Init == /\ l = 1 /\ bad = <<>> /\ drift = <<>> /\ nchk = 0 /\ tr = "none" /\ hp = <<>> /\ op = NoOp
        /\ own = [h \in 1..2 |-> NoOwn] /\ nalloc = 0 /\ dead = FALSE /\ capOf = <<>>
Step == /\ l <= NTr
        /\ LET ev == Tr[l] IN
           /\ bad' = MergeBad(bad, l, Verdict(ev))
           /\ tr' = IF ev.e = "Reset" THEN ev.trait ELSE tr
           /\ dead' = IF ev.e = "Reset" THEN FALSE ELSE IF ev.e = "Fault" THEN TRUE ELSE dead
           /\ hp' = CASE ev.e = "Reset" -> <<>>
                      [] ev.e = "Alloc" -> [i \in DOMAIN hp \cup {ev.blk} |-> IF i = ev.blk THEN [size |-> ev.size, alloc |-> ev.a] ELSE hp[i]]
                      [] ev.e = "Free" /\ ev.blk \in DOMAIN hp -> [i \in DOMAIN hp \ {ev.blk} |-> hp[i]]
                      [] OTHER -> hp
           /\ op' = IF ev.e = "Op" THEN ev ELSE IF ev.e = "Reset" THEN NoOp ELSE op
           /\ nalloc' = IF ev.e = "Op" THEN 0 ELSE IF ev.e = "Alloc" THEN nalloc + 1 ELSE nalloc
           /\ own' = IF ev.e = "Reset" THEN [h \in 1..2 |-> NoOwn]
                     ELSE IF ev.e = "State"
                     THEN [h \in 1..2 |-> IF ev.imgs[h].live
                                          THEN [w |-> ev.imgs[h].w, h |-> ev.imgs[h].hh, blk |-> ev.imgs[h].blk, bsize |-> ev.imgs[h].bsize, live |-> TRUE, a |-> ev.imgs[h].a]
                                          ELSE NoOwn]
                     ELSE own
           /\ nchk' = nchk + (IF ev.e \in {"State", "Free", "Done", "CopyEq"} THEN 1 ELSE 0)
           /\ capOf' = IF ev.e = "Reset" THEN <<>>
                       ELSE IF ev.e = "State"
                       THEN LET new == {h \in 1..2 : ev.imgs[h].live /\ ev.imgs[h].blk # 0 /\ ev.imgs[h].blk \notin DOMAIN capOf}
                                alOf(h) == IF op.h = h /\ op.op \in {"Ctor", "Recreate", "RecreateAlloc", "RecreateFill", "RecreateFillAlloc"} THEN op.al ELSE -1
                            IN [b \in DOMAIN capOf \cup {ev.imgs[h].blk : h \in new} |->
                                  IF b \in DOMAIN capOf THEN capOf[b]
                                  ELSE LET h == CHOOSE h \in new : ev.imgs[h].blk = b IN [w |-> ev.imgs[h].w, h |-> ev.imgs[h].hh, al |-> alOf(h)]]
                       ELSE capOf
           /\ drift' = IF ev.e = "State" /\ ~dead THEN MergeBad(drift, l, StateDrift(ev))
                       ELSE IF ev.e = "Done" THEN MergeBad(drift, l, DoneDrift(ev)) ELSE drift
        /\ l' = l + 1
Fin  == /\ l = NTr + 1 /\ WriteOut(bad, drift, nchk) /\ l' = l + 1 /\ UNCHANGED <<bad, drift, nchk, tr, hp, op, own, nalloc, dead, capOf>>
Next == Step \/ Fin
Spec == Init /\ [][Next]_vars
=============================================================================
