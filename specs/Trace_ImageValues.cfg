SPECIFICATION TSpec
CHECK_DEADLOCK FALSE
