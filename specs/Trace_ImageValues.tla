------------------------- MODULE Trace_ImageValues -------------------------
(* Validates harness/x03_fill.cpp against ImageValues.tla (extension X03). *)
EXTENDS TraceBase, ImageValuesBase
VARIABLES l, bad, drift, nchk
vars == <<l, bad, drift, nchk>>

Pixels(flat, nc) == [i \in 1..(Len(flat) \div nc) |-> [k \in 1..nc |-> flat[(i - 1) * nc + k]]]
FillVerdict(ev) ==
    LET got == Img(ev.rw, ev.rh, ev.al, Pixels(ev.px, ev.nc))
        before == Img(ev.bw, ev.bh, ev.bal, Pixels(ev.before, ev.nc))
        exp == IF ev.how = "ctor-fill" THEN P_CtorFill(ev.w, ev.h, ev.al, ev.fv) ELSE P_RecreateFill(before, ev.w, ev.h, ev.al, ev.fv)
        key == ev.type \o ":" \o ev.how
        organisation == IF ev.type \in {"ba565", "ba332", "ba1", "ba4", "ba7"} THEN "bit-aligned" ELSE "None"
    IN (IF got.w # exp.w \/ got.h # exp.h THEN {V("X_FillDims", "None", key, [requested |-> <<ev.w, ev.h>>, got |-> <<got.w, got.h>>])} ELSE {})
  \cup (IF got.w = exp.w /\ got.h = exp.h /\ got.px # exp.px
        THEN {V("X_FillValue", organisation, key, [w |-> ev.w, h |-> ev.h, al |-> ev.al, fill |-> ev.fv, got |-> got.px])} ELSE {})
Verdict(ev) ==
    CASE ev.e = "FillInit" -> FillVerdict(ev)
      [] ev.e = "Fault" -> {V("X_NoFault", "None", "fill", ev.kind)}
      [] ev.e = "End" -> {}
      [] OTHER -> {V("UnknownEvent", "None", ev.e, l)}
Init0 == l = 1 /\ bad = <<>> /\ drift = <<>> /\ nchk = 0
Step == /\ l <= NTr /\ bad' = MergeBad(bad, l, Verdict(Tr[l])) /\ nchk' = nchk + (IF Tr[l].e = "End" THEN 0 ELSE 1) /\ drift' = drift /\ l' = l + 1
Fin  == /\ l = NTr + 1 /\ WriteOut(bad, drift, nchk) /\ l' = l + 1 /\ UNCHANGED <<bad, drift, nchk>>
TNext == Step \/ Fin
TSpec == Init0 /\ [][TNext]_vars
=============================================================================
