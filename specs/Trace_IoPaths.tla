---------------------------- MODULE Trace_IoPaths ----------------------------
(* Validates that every recorded way of reading a file agrees with the full native read (C13). *)
EXTENDS IoPaths, TraceBase, ScanIterBase
VARIABLES l, bad, drift, nchk, file, canon,
          scanrows       \* checksums of the rows delivered by a plain front-to-back scan of the current file
vars == <<l, bad, drift, nchk, file, canon, scanrows>>
NoFile == [fmt |-> "none", variant |-> "", file |-> "", convert |-> FALSE]
NoCanon == [w |-> 0, h |-> 0, pix |-> <<>>, ok |-> FALSE]
Key == file.fmt \o ":" \o file.variant

\* specification-level causes of the known findings
IsTargaPartial(ev) == file.fmt = "tga" /\ ~(ev.x = 0 /\ ev.y = 0 /\ ev.w = canon.w /\ ev.h = canon.h)
IsBmpRlePartial(ev) == file.fmt = "bmp" /\ file.variant \in {"rle4", "rle8"} /\ ~(ev.x = 0 /\ ev.y = 0 /\ ev.w = canon.w /\ ev.h = canon.h)
IsRle == (file.fmt = "bmp" /\ file.variant \in {"rle4", "rle8"}) \/ (file.fmt = "tga" /\ Len(file.variant) >= 3 /\ SubSeq(file.variant, 1, 3) = "rle")
IsSeparatePlanes == file.fmt = "tif" /\ \E i \in 1..(Len(file.variant) - 14) : SubSeq(file.variant, i, i + 14) = "separate-planes"
IsTiledTiff == file.fmt = "tif" /\ \E i \in 1..(Len(file.variant) - 3) : SubSeq(file.variant, i, i + 3) = "tile"

SubVerdict(ev) ==
    LET cause == IF IsTargaPartial(ev) THEN "targa-partial-read" ELSE IF IsBmpRlePartial(ev) THEN "bmp-rle-partial-read" ELSE "None"
        info == [rect |-> <<ev.x, ev.y, ev.w, ev.h>>, image |-> <<canon.w, canon.h>>]
    IN IF ev.threw THEN {V("P_SubImageIsCrop", cause, Key, [rect |-> <<ev.x, ev.y, ev.w, ev.h>>, threw |-> TRUE])}
       ELSE IF ev.bw # ev.w \/ ev.bh # ev.h THEN {V("P_SubImageIsCrop", cause, Key, [rect |-> <<ev.x, ev.y, ev.w, ev.h>>, got_dims |-> <<ev.bw, ev.bh>>])}
       ELSE IF ev.pix = Crop(canon.pix, canon.w, ev.x, ev.y, ev.w, ev.h) THEN {} ELSE {V("P_SubImageIsCrop", cause, Key, info)}

Verdict(ev) ==
    IF ~canon.ok /\ ev.e \in {"Info", "Dev", "Sub", "View", "Small", "Conv", "Scan", "Any", "Truth", "ScanWalk"} /\ ev.e # "Sub"
    THEN {}                 \* the canonical read itself failed (reported at the Fault)
    ELSE CASE ev.e = "Info"  -> IF ev.w = canon.w /\ ev.h = canon.h THEN {} ELSE {V("P_InfoMatches", "None", Key, [info |-> <<ev.w, ev.h>>, image |-> <<canon.w, canon.h>>])}
           [] ev.e = "Dev"   -> IF ev.w = canon.w /\ ev.h = canon.h /\ ev.pix = canon.pix THEN {} ELSE {V("P_DevicesAgree", "None", Key \o ":" \o ev.dev, <<ev.w, ev.h>>)}
           [] ev.e = "Sub"   -> IF canon.ok THEN SubVerdict(ev) ELSE {}
           [] ev.e = "View"  -> (IF ~ev.threw /\ ev.pix = canon.pix THEN {} ELSE {V("P_ReadViewAgrees", "None", Key, [threw |-> ev.threw])})
                                \cup (IF ev.outside = 0 THEN {} ELSE {V("P_WritesOnlyDestination", "None", Key, ev.outside)})
           [] ev.e = "Small" -> (IF ev.threw THEN {} ELSE {V("P_SmallDestinationRejected", "None", Key, "read_view into a smaller view returned normally")})
                                \cup (IF ev.outside = 0 THEN {} ELSE {V("P_WritesOnlyDestination", "None", Key, ev.outside)})
           [] ev.e = "Conv"  -> IF ev.pix = ev.expect THEN {} ELSE {V("P_ConvertIsColorConvert", IF IsSeparatePlanes THEN "tiff-separate-planes-read_and_convert" ELSE IF IsTiledTiff THEN "tiled-tiff-read_and_convert" ELSE "None", Key \o ":" \o ev.type, "read_and_convert_image differs from color_convert of the native image")}
           [] ev.e = "Scan"  -> IF ~ev.threw /\ ev.w = canon.w /\ ev.h = canon.h /\ ev.pix = canon.pix THEN {}
                                ELSE {V("P_ScanlineAgrees", IF ev.threw /\ IsTiledTiff THEN "tiled-tiff-scanline-unsupported" ELSE IF ev.threw /\ IsRle THEN "rle-scanline-unsupported" ELSE "None", Key, [threw |-> ev.threw])}
           \* a walk of the scanline iterator (dereference some positions twice, pass others without dereferencing): ScanIter.tla
           [] ev.e = "ScanWalk" -> LET exp == P_Rows(ev.ops) IN
                                   IF ev.threw THEN {V("P_ScanlineAgrees", "None", Key \o ":walk", [ops |-> ev.ops, threw |-> TRUE])}
                                   ELSE IF Len(ev.got) = Len(exp) /\ \A i \in 1..Len(exp) : ev.got[i][1] = exp[i] /\ exp[i] + 1 \in DOMAIN scanrows /\ ev.got[i][2] = scanrows[exp[i] + 1]
                                   THEN {} ELSE {V("P_ScanlineAgrees", "None", Key \o ":walk", [ops |-> ev.ops, expected_rows |-> exp, got |-> [i \in 1..Len(ev.got) |-> ev.got[i][1]]])}
           \* (extension X04) a region that does not lie inside the image is rejected with an exception; one that does is not
           [] ev.e = "Region" -> IF P_RegionInside(ev.iw, ev.ih, ev.x, ev.y, ev.w, ev.h) THEN (IF ev.outcome = "returned" THEN {} ELSE {V("X_RegionInsideAccepted", "None", Key, [region |-> <<ev.x, ev.y, ev.w, ev.h>>, image |-> <<ev.iw, ev.ih>>, outcome |-> ev.outcome])})
                                 ELSE IF ev.outcome = "threw" THEN {} ELSE {V("X_RegionOutsideRejected", "None", Key, [region |-> <<ev.x, ev.y, ev.w, ev.h>>, image |-> <<ev.iw, ev.ih>>, outcome |-> ev.outcome])}
           [] ev.e = "ScanRows" -> {}
           [] ev.e = "Any"   -> IF ~ev.threw /\ ev.w = canon.w /\ ev.h = canon.h /\ ev.pix = canon.pix THEN {} ELSE {V("P_AnyImageAgrees", "None", Key, [threw |-> ev.threw, index |-> ev.index])}
           [] ev.e = "Fault" -> {V("P_NoFault", IF file.fmt = "bmp" /\ file.variant \in {"rle4", "rle8"} THEN "bmp-rle-partial-read" ELSE "None", Key, ev.kind)}
           \* (extension, not a clause of C13) a file produced by an independent encoder from known pixels decodes to those pixels
           [] ev.e = "Truth" -> IF ev.pix = canon.pix THEN {} ELSE {V("X_DecodesAsEncoded", "None", Key, [image |-> <<canon.w, canon.h>>])}
           [] ev.e \in {"File", "Canon", "EndFile", "End"} -> {}
           [] OTHER -> {V("UnknownEvent", "None", ev.e, l)}

Init == l = 1 /\ bad = <<>> /\ drift = <<>> /\ nchk = 0 /\ file = NoFile /\ canon = NoCanon /\ scanrows = <<>>
Step == /\ l <= NTr
        /\ bad' = MergeBad(bad, l, Verdict(Tr[l]))
        /\ drift' = drift
        /\ file' = IF Tr[l].e = "File" THEN [fmt |-> Tr[l].fmt, variant |-> Tr[l].variant, file |-> Tr[l].file, convert |-> Tr[l].convert] ELSE file
        /\ canon' = IF Tr[l].e = "File" THEN NoCanon ELSE IF Tr[l].e = "Canon" THEN [w |-> Tr[l].w, h |-> Tr[l].h, pix |-> Tr[l].pix, ok |-> TRUE] ELSE canon
        /\ scanrows' = IF Tr[l].e = "File" THEN <<>> ELSE IF Tr[l].e = "ScanRows" THEN Tr[l].rows ELSE scanrows
        /\ nchk' = nchk + (IF Tr[l].e \in {"Info", "Dev", "Sub", "View", "Small", "Conv", "Scan", "Any", "ScanWalk"} THEN 1 ELSE 0)
        /\ l' = l + 1
Fin  == /\ l = NTr + 1 /\ WriteOut(bad, drift, nchk) /\ l' = l + 1 /\ UNCHANGED <<bad, drift, nchk, file, canon, scanrows>>
Next == Step \/ Fin
Spec == Init /\ [][Next]_vars
=============================================================================
