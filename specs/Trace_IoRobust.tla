---------------------------- MODULE Trace_IoRobust ----------------------------
(* Validates recorded reader calls on truncated / corrupted / mutated files (C11). *)
EXTENDS IoRobust, TraceBase
VARIABLES l, bad, drift, nchk, case, open
vars == <<l, bad, drift, nchk, case, open>>
NoCase == [fmt |-> "none", base |-> "", mut |-> "", len |-> 0, head |-> <<>>]
NoOpen == [api |-> "none", dev |-> ""]
ReadsPixels(api) == api \in {"read_and_convert_image", "read_and_convert_view", "scanline_reader"}
MutKind == LET m == case.mut IN IF Len(m) >= 5 /\ SubSeq(m, 1, 5) = "trunc" THEN "truncation" ELSE IF Len(m) >= 4 /\ SubSeq(m, 1, 4) = "byte" THEN "header-byte"
                                 ELSE IF Len(m) >= 5 /\ SubSeq(m, 1, 5) = "field" THEN "header-field" ELSE IF Len(m) >= 6 /\ SubSeq(m, 1, 6) = "random" THEN "random" ELSE "original"
Key == case.fmt \o ":" \o open.api \o ":" \o open.dev

RetVerdict(ev) ==
    \* a file that is too short for the pixels its (plain) header declares cannot have been decoded: the call must throw
    IF ev.outcome = "return" /\ ReadsPixels(open.api) /\ open.api # "read_and_convert_view" /\ P_TooShort(case.fmt, case.head, case.len)
    THEN {V("P_TruncatedRejected", "short-read-ignored", Key, [base |-> case.base, mut |-> case.mut, len |-> case.len, dims |-> <<ev.w, ev.h>>])}
    ELSE {}
FaultVerdict(ev) ==
    IF ev.kind = "timeout" /\ DeclaredHuge(case.fmt, case.head) THEN {}       \* time proportional to the DECLARED size is allowed
    ELSE {V(IF ev.kind = "timeout" THEN "P_Terminates" ELSE "P_ReturnsOrThrows",
            \* an unmodified valid file has no excuse (except the hand-written file whose very content is the over-long token)
            IF case.mut = "original" /\ LongestDigitRun(case.head, 0, 0, 0) <= 15 THEN "None" ELSE Cause(case.fmt, case.head, open.api, case.len), Key,
            [kind |-> ev.kind, base |-> case.base, mut |-> case.mut, len |-> case.len])}

Verdict(ev) ==
    CASE ev.e = "Ret"   -> RetVerdict(ev)
      [] ev.e = "Fault" -> FaultVerdict(ev)
      [] ev.e \in {"Case", "Open", "End"} -> {}
      [] OTHER -> {V("UnknownEvent", "None", ev.e, l)}

Init == l = 1 /\ bad = <<>> /\ drift = <<>> /\ nchk = 0 /\ case = NoCase /\ open = NoOpen
Step == /\ l <= NTr
        /\ bad' = MergeBad(bad, l, Verdict(Tr[l]))
        /\ drift' = drift
        /\ case' = IF Tr[l].e = "Case" THEN [fmt |-> Tr[l].fmt, base |-> Tr[l].base, mut |-> Tr[l].mut, len |-> Tr[l].len, head |-> Tr[l].head] ELSE case
        /\ open' = IF Tr[l].e = "Open" THEN [api |-> Tr[l].api, dev |-> Tr[l].dev] ELSE IF Tr[l].e = "Case" THEN NoOpen ELSE open
        /\ nchk' = nchk + (IF Tr[l].e \in {"Ret", "Fault"} THEN 1 ELSE 0)
        /\ l' = l + 1
Fin  == /\ l = NTr + 1 /\ WriteOut(bad, drift, nchk) /\ l' = l + 1 /\ UNCHANGED <<bad, drift, nchk, case, open>>
Next == Step \/ Fin
Spec == Init /\ [][Next]_vars
=============================================================================
