-------------------------- MODULE Trace_IoRoundTrip --------------------------
(* Validates recorded write_view / read_image round trips of the real library (C12). *)
EXTENDS IoRoundTrip, TraceBase
VARIABLES l, bad, drift, nchk, cur
vars == <<l, bad, drift, nchk, cur>>
NoCase == [fmt |-> "none", type |-> "", org |-> "", dev |-> "", variant |-> "", w |-> 0, h |-> 0]
Key(c) == c.fmt \o ":" \o c.type \o ":" \o c.org \o ":" \o c.dev \o (IF c.variant = "" THEN "" ELSE ":" \o c.variant)

MaxDiff(a, b) == LET ds == {Abs(a[i][c] - b[i][c]) : i \in 1..Len(a), c \in 1..Len(a[1])} IN IF ds = {} THEN 0 ELSE CHOOSE m \in ds : \A d \in ds : d <= m
\* rgba written to TIFF comes back multiplied by alpha (associated alpha): the specification-level cause of the known finding
\* (tiled files: only the pixels of full tiles are premultiplied, those of partial edge tiles come back unchanged)
Premultiplied(src, back) ==
    \A i \in 1..Len(src) : /\ back[i][4] = src[i][4]
                           /\ (back[i] = src[i] \/ \A c \in 1..3 : Abs(back[i][c] * 255 - src[i][c] * src[i][4]) <= 255)

RTVerdict(ev) ==
    LET key == Key(ev) n == ev.w * ev.h
        dimsOk == ev.bw = ev.w /\ ev.bh = ev.h /\ Len(ev.back) = n
        info == [w |-> ev.w, h |-> ev.h]
    IN IF ev.threw THEN {V("P_RoundTrip", "None", key, [w |-> ev.w, h |-> ev.h, threw |-> ev.what])}
       ELSE IF ~dimsOk THEN {V("P_RoundTripDims", "None", key, [w |-> ev.w, h |-> ev.h, got |-> <<ev.bw, ev.bh>>])}
       ELSE IF ev.lossless THEN
            (IF ev.back = ev.src THEN {}
             ELSE {V("P_RoundTrip", IF ev.fmt = "tif" /\ ev.type = "rgba8" /\ Premultiplied(ev.src, ev.back) /\ (\E i \in 1..n : ev.src[i][4] < 255)
                                    THEN "associated-alpha" ELSE "None", key,
                     [w |-> ev.w, h |-> ev.h, first |-> (CHOOSE i \in 1..n : ev.back[i] # ev.src[i]) - 1])})
       ELSE \* JPEG at quality 100: constant images within one level, smooth gradients within 16; random content: dimensions only
            (IF ev.org = "constant" /\ MaxDiff(ev.src, ev.back) > 1 THEN {V("P_JpegConstant", "None", key, [w |-> ev.w, h |-> ev.h, maxdiff |-> MaxDiff(ev.src, ev.back)])} ELSE {})
            \cup (IF ev.org = "gradient" /\ MaxDiff(ev.src, ev.back) > 16 THEN {V("P_JpegBounded", "None", key, [w |-> ev.w, h |-> ev.h, maxdiff |-> MaxDiff(ev.src, ev.back)])} ELSE {})

RTDrift(ev) ==
    IF ~Has(ev, "file") \/ ev.threw THEN {}
    ELSE LET nch == Len(ev.src[1])
             model == CASE ev.fmt = "bmp" -> I_BmpEncode(ev.src, ev.w, ev.h, nch)
                        [] ev.fmt = "pnm" /\ ev.type \in {"gray8", "rgb8"} -> I_PnmEncode(ev.src, ev.w, ev.h, nch)
                        [] OTHER -> ev.file
         IN IF model = ev.file THEN {} ELSE {V("I_Encode", "model", ev.fmt \o ":" \o ev.type, [w |-> ev.w, h |-> ev.h, flen |-> ev.flen, model_len |-> Len(model)])}

Verdict(ev) ==
    CASE ev.e = "RT"    -> RTVerdict(ev)
      [] ev.e = "Fault" -> {V("P_NoFault", "None", Key(cur), [kind |-> ev.kind, w |-> cur.w, h |-> cur.h])}
      [] ev.e \in {"Try", "End"} -> {}
      [] OTHER -> {V("UnknownEvent", "None", ev.e, l)}
Drift(ev) == IF ev.e = "RT" THEN RTDrift(ev) ELSE {}

Init == l = 1 /\ bad = <<>> /\ drift = <<>> /\ nchk = 0 /\ cur = NoCase
Step == /\ l <= NTr
        /\ bad' = MergeBad(bad, l, Verdict(Tr[l]))
        /\ drift' = MergeBad(drift, l, Drift(Tr[l]))
        /\ cur' = IF Tr[l].e = "Try" THEN [fmt |-> Tr[l].fmt, type |-> Tr[l].type, org |-> Tr[l].org, dev |-> Tr[l].dev, variant |-> Tr[l].variant, w |-> Tr[l].w, h |-> Tr[l].h] ELSE cur
        /\ nchk' = nchk + (IF Tr[l].e = "RT" THEN 1 ELSE 0)
        /\ l' = l + 1
Fin  == /\ l = NTr + 1 /\ WriteOut(bad, drift, nchk) /\ l' = l + 1 /\ UNCHANGED <<bad, drift, nchk, cur>>
Next == Step \/ Fin
Spec == Init /\ [][Next]_vars
=============================================================================
