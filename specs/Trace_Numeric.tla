--------------------------- MODULE Trace_Numeric ---------------------------
(* Validates harness/x01_numeric.cpp against Numeric.tla (extension X01). *)
EXTENDS TraceBase, Numeric
VARIABLES l, bad, drift, nchk, kern
vars == <<l, bad, drift, nchk, kern>>

Pt(s) == <<s[1], s[2]>>
RoundVerdict(ev) == IF ev.r # P_Round(ev.f, ev.k) THEN {V("X_Rounding", "None", ev.f \o ":" \o ev.t, [k8 |-> ev.k, expected |-> P_Round(ev.f, ev.k), got |-> ev.r])} ELSE {}
RoundPtVerdict(ev) ==
    IF Pt(ev.round) # <<P_Round("iround", ev.kx), P_Round("iround", ev.ky)>> \/ Pt(ev.floor) # <<P_Round("ifloor", ev.kx), P_Round("ifloor", ev.ky)>>
       \/ Pt(ev.ceil) # <<P_Round("iceil", ev.kx), P_Round("iceil", ev.ky)>>
    THEN {V("X_Rounding", "None", "point:" \o ev.t, ev)} ELSE {}
PointVerdict(ev) ==
    LET a == Pt(ev.a)  b == Pt(ev.b)
        chk(name, got, exp) == IF Pt(got) # exp THEN {V("X_PointArithmetic", "None", name, [a |-> a, b |-> b, expected |-> exp, got |-> got])} ELSE {}
    IN chk("+", ev.add, PAdd(a, b)) \cup chk("-", ev.sub, PSub(a, b)) \cup chk("neg", ev.neg, PNeg(a)) \cup chk("+=", ev.addeq, PAdd(a, b)) \cup chk("-=", ev.subeq, PSub(a, b))
       \cup chk("*", ev.mulp, PMul(a, 2)) \cup chk("*", ev.lmulp, PMul(a, 2)) \cup chk("*", ev.mulm, PMul(a, -3)) \cup chk("*", ev.lmulm, PMul(a, -3))
       \cup chk("*=", ev.muleqp, PMul(a, 2)) \cup chk("*=", ev.muleqm, PMul(a, -3))
       \cup chk("/", ev.divp, PDivRound(a, 2)) \cup chk("/", ev.divm, PDivRound(a, -3))
       \cup chk("<<", ev.shl, <<Abs(a[1]) * 4, Abs(a[2]) * 4>>) \cup chk(">>", ev.shr, <<Abs(a[1]) * 2, Abs(a[2]) * 2>>)
       \cup (IF ev.eq # (a = b) \/ ev.ne # (a # b) THEN {V("X_PointArithmetic", "None", "==", [a |-> a, b |-> b])} ELSE {})
       \cup (IF <<ev.a0, ev.a1>> # a \/ <<ev.ax0, ev.ax1>> # a THEN {V("X_PointArithmetic", "None", "[]", [a |-> a])} ELSE {})
       \* a /= s and a / s are the same operation: stated as a law; the library rounds one and truncates the other
       \cup (IF Pt(ev.diveqp) # Pt(ev.divp) \/ Pt(ev.diveqm) # Pt(ev.divm)
             THEN {V("X_PointDivAssignAgrees", IF Pt(ev.diveqp) = PDivTrunc(a, 2) /\ Pt(ev.diveqm) = PDivTrunc(a, -3) THEN "div-assign-truncates" ELSE "None", "/=",
                     [a |-> a, div |-> <<ev.divp, ev.divm>>, diveq |-> <<ev.diveqp, ev.diveqm>>])} ELSE {})
ChanVerdict(ev) ==
    LET chk(op, got, x, y) == IF got # P_Chan(op, x, y) THEN {V("X_ChannelOp", "None", op, [a |-> x, b |-> y, expected |-> P_Chan(op, x, y), got |-> got])} ELSE {}
    IN chk("plus", ev.plus, ev.a, ev.b) \cup chk("minus", ev.minus, ev.a, ev.b) \cup chk("mul", ev.mul, ev.a, ev.b)
       \cup chk("pluss", ev.pluss, ev.a, ev.b) \cup chk("minuss", ev.minuss, ev.a, ev.b) \cup chk("muls", ev.muls, ev.a, ev.b)
       \cup (IF ev.b # 0 THEN chk("div", ev.div, ev.a, ev.b) \cup chk("divs", ev.divs, ev.a, ev.b) ELSE {})
       \cup chk("half", ev.half, ev.a, 0) \cup chk("zero", ev.zero, ev.a, 0) \cup chk("assign", ev.assign, ev.a, 0)
       \cup chk("uplus", ev.uplus, ev.ua, ev.ub) \cup chk("uminus", ev.uminus, ev.ua, ev.ub) \cup chk("umul", ev.umul, ev.ua, ev.ub)
PixVerdict(ev) ==
    LET key(op) == op \o ":" \o ev.l1 \o "," \o ev.l2
        chk(op, got) == IF got # P_Pix(op, ev.a, ev.b, ev.s) THEN {V("X_PixelOp", "None", key(op), [a |-> ev.a, b |-> ev.b, s |-> ev.s, expected |-> P_Pix(op, ev.a, ev.b, ev.s), got |-> got])} ELSE {}
    IN chk("plus", ev.plus) \cup chk("minus", ev.minus) \cup chk("mul", ev.mul) \cup chk("div", ev.div) \cup chk("muls", ev.muls) \cup chk("divs", ev.divs)
       \cup chk("half", ev.half) \cup chk("zero", ev.zero) \cup chk("assign", ev.assign)
KernelVerdict(ev) ==
    LET n == Side(ev.v)
        centre == IF ev.cx # n \div 2 \/ ev.cy # n \div 2 \/ n # ev.n THEN {V("X_KernelShape", "None", ev.name, [n |-> ev.n, cx |-> ev.cx, cy |-> ev.cy])} ELSE {}
    IN centre \cup
       CASE ev.name = "sobel_dx" -> IF ev.v # SobelDx THEN {V("X_KernelValues", "None", ev.name, ev.v)} ELSE {}
         [] ev.name = "sobel_dy" -> IF ~P_DyOfDx(kern["sobel_dx"], ev.v) THEN {V("X_GradientPair", "None", "sobel", [dx |-> kern["sobel_dx"], dy |-> ev.v])} ELSE {}
         [] ev.name = "scharr_dx" -> IF ~P_IsDx(ev.v) THEN {V("X_KernelValues", "None", ev.name, ev.v)} ELSE {}
         [] ev.name = "scharr_dy" -> IF ~P_DyOfDx(kern["scharr_dx"], ev.v)
                                     THEN {V("X_GradientPair", IF ev.v = [i \in 1..9 |-> -KTranspose(kern["scharr_dx"])[i]] THEN "opposite-sign" ELSE "None", "scharr",
                                             [dx |-> kern["scharr_dx"], dy |-> ev.v])} ELSE {}
         [] ev.name = "identity" -> IF ev.v # <<1>> THEN {V("X_KernelValues", "None", ev.name, ev.v)} ELSE {}
         [] ev.name = "ones" -> IF \E i \in 1..Len(ev.v) : ev.v[i] # 1 THEN {V("X_KernelValues", "None", ev.name, ev.v)} ELSE {}
         [] ev.name = "mean" -> IF (\E i \in 1..Len(ev.v) : ev.v[i] # ev.v[1]) \/ ~P_SumsTo(ev.v, ev.scale, 2 * Len(ev.v))
                                THEN {V("X_KernelNormalised", "None", ev.name, [n |-> n, sum |-> SumSeq(ev.v)])} ELSE {}
         [] ev.name = "gauss" -> (IF ~P_GaussShape(ev.v) THEN {V("X_GaussShape", "None", ev.name, [n |-> n, sigma8 |-> ev.sigma8, v |-> ev.v])} ELSE {})
                                 \cup (IF ~P_SumsTo(ev.v, ev.scale, 2 * Len(ev.v) + 8) THEN {V("X_KernelNormalised", "None", ev.name, [n |-> n, sum |-> SumSeq(ev.v)])} ELSE {})
         [] OTHER -> {V("UnknownEvent", "None", ev.name, l)}
PremulVerdict(src, rgb, rgba) ==
       (IF \E c \in 1..3 : ~P_MulNear(src[c], src[4], rgb[c]) THEN {V("X_Premultiply", "None", "rgb", [src |-> src, got |-> rgb])} ELSE {})
  \cup (IF rgba # <<>> /\ ((\E c \in 1..3 : rgba[c] # rgb[c]) \/ rgba[4] # src[4]) THEN {V("X_Premultiply", "None", "rgba", [src |-> src, got |-> rgba])} ELSE {})
VirtVerdict(ev) ==
    LET d == ChainDims(ev.ops, ev.w, ev.h)
        exp == P_VirtVals(ev.ops, ev.w, ev.h)
        key == IF Len(ev.ops) = 2 THEN ev.ops[1].op \o ">" \o ev.ops[2].op ELSE ev.ops[1].op
    IN (IF <<ev.rw, ev.rh>> # d THEN {V("X_VirtualDims", "None", key, [w |-> ev.w, h |-> ev.h, ops |-> ev.ops, expected |-> d, got |-> <<ev.rw, ev.rh>>])} ELSE {})
  \cup (IF <<ev.rw, ev.rh>> = d /\ ev.vals # exp THEN {V("X_VirtualValues", "None", key, [w |-> ev.w, h |-> ev.h, ops |-> ev.ops, expected |-> exp, got |-> ev.vals])} ELSE {})
  \cup (IF ev.vals1d # ev.vals THEN {V("X_Virtual1DTraversal", "None", key, [w |-> ev.w, h |-> ev.h, ops |-> ev.ops, xy |-> ev.vals, it |-> ev.vals1d])} ELSE {})

Verdict(ev) ==
    CASE ev.e = "Round" -> RoundVerdict(ev)
      [] ev.e = "RoundPt" -> RoundPtVerdict(ev)
      [] ev.e = "Point" -> PointVerdict(ev)
      [] ev.e = "ChanOp" -> ChanVerdict(ev)
      [] ev.e = "PixOp" -> PixVerdict(ev)
      [] ev.e = "Kernel" -> KernelVerdict(ev)
      [] ev.e = "KernelEven" -> IF ev.mean # "invalid_argument" \/ ev.ones # "invalid_argument" \/ ev.gauss # "invalid_argument"
                                THEN {V("X_KernelOddOnly", "None", "even-side", ev)} ELSE {}
      [] ev.e = "Premul" -> PremulVerdict(ev.src, ev.rgb, ev.rgba)
      [] ev.e = "PremulView" -> UNION {PremulVerdict(ev.px[i].src, ev.px[i].rgb, <<>>) : i \in 1..Len(ev.px)}
                                \cup (IF <<ev.w, ev.h>> # <<3, 2>> THEN {V("X_Premultiply", "None", "view-dims", ev)} ELSE {})
      [] ev.e = "Virt" -> VirtVerdict(ev)
      [] ev.e = "Fault" -> {V("X_NoFault", "None", IF l > 1 THEN Tr[l - 1].e ELSE "start", ev.kind)}
      [] ev.e = "End" -> {}
      [] OTHER -> {V("UnknownEvent", "None", ev.e, l)}

Init == l = 1 /\ bad = <<>> /\ drift = <<>> /\ nchk = 0 /\ kern = [n \in {"sobel_dx", "scharr_dx"} |-> <<>>]
Step == /\ l <= NTr
        /\ LET ev == Tr[l] IN
           /\ bad' = MergeBad(bad, l, Verdict(ev))
           /\ kern' = IF ev.e = "Kernel" /\ ev.name \in DOMAIN kern THEN [kern EXCEPT ![ev.name] = ev.v] ELSE kern
           /\ nchk' = nchk + (IF ev.e \in {"End"} THEN 0 ELSE 1)
        /\ drift' = drift /\ l' = l + 1
Fin  == /\ l = NTr + 1 /\ WriteOut(bad, drift, nchk) /\ l' = l + 1 /\ UNCHANGED <<bad, drift, nchk, kern>>
Next == Step \/ Fin
Spec == Init /\ [][Next]_vars
=============================================================================
