-------------------------- MODULE Trace_PackedBits --------------------------
(* Validates recorded packed / bit-aligned pixel operations and bit-cursor   *)
(* moves of the real library against PackedBits.tla (C08).                   *)
EXTENDS PackedBits, TraceBase

VARIABLES l, bad, drift, nchk, cur      \* cur: the configuration announced by the last Try event
vars == <<l, bad, drift, nchk, cur>>

NoCfg == [name |-> "none", cs |-> <<>>, carrier |-> 0, o |-> 0, place |-> "none", nbytes |-> 0, bit_aligned |-> FALSE]
CfgKey(c) == c.name \o "@" \o ToString(c.o) \o "/" \o c.place

\* spec-level cause of a fault: does a whole-carrier access starting at the first byte of some
\* channel leave the buffer?  (what the ideal model says is special about this configuration)
CarrierOverhang(c) ==
    c.bit_aligned /\ \E i \in 0..2 : \E k \in 1..Len(c.cs) :
        (ChanPos(c.o + i * PixBits(c.cs), c.cs, k) \div 8) + c.carrier > c.nbytes

WVerdict(ev) ==
    LET exp == P_Expected(ev.before, ev)
        key == CfgKey(cur) \o ":" \o ev.op
        FirstDiff == CHOOSE k \in 1..Len(exp) : exp[k] # ev.after[k]
        memOk == Len(ev.after) = Len(exp) /\ \A k \in 1..Len(exp) : exp[k] = ev.after[k]
        \* value read back through the library = value in the expected memory
        rdExp == ReadPixel(exp, ev.pos, ev.cs)
        rdOk  == ev.rd = rdExp
        \* spec-level cause: whole-pixel copy of a packed pixel VALUE whose bit field has unused bits;
        \* only those unused bits of the written pixels differ from the expectation
        whole   == ev.op \in {"pix_assign", "fill", "copy", "swap"}
        targets == IF ev.op = "swap" THEN {ev.pos, ev.pos2}
                   ELSE IF ev.op \in {"fill", "copy"} THEN {ev.pos + px * ev.stride : px \in 0..(ev.count - 1)}
                   ELSE {ev.pos}
        InTarget(k) == \E q \in targets : 8 * (k - 1) >= q /\ 8 * k <= q + ev.stride
        spareOnly == /\ ~cur.bit_aligned /\ whole /\ PixBits(ev.cs) < ev.stride /\ Len(ev.after) = Len(exp)
                     /\ \A k \in 1..Len(exp) : InTarget(k) \/ exp[k] = ev.after[k]
                     /\ \A q \in targets : ReadPixel(ev.after, q, ev.cs) = ReadPixel(exp, q, ev.cs)
        cause == IF spareOnly THEN "packed-unused-bits-copied" ELSE "None"
    IN (IF memOk THEN {} ELSE
          {V("P_WriteExact", cause, key, [pos |-> ev.pos, byte |-> FirstDiff - 1, expected |-> exp[FirstDiff],
                                           got |-> ev.after[FirstDiff], before |-> ev.before[FirstDiff]])})
       \cup (IF rdOk THEN {} ELSE {V("P_ReadBack", "None", key, [pos |-> ev.pos, expected |-> rdExp, got |-> ev.rd])})

CurVerdict(ev) ==
    LET a  == P_CursorAfter(ev.b0, ev.o0, ev.psz, ev.n)
        ai == P_CursorAfter(a[1], a[2], ev.psz, 1)
        ad == P_CursorAfter(a[1], a[2], ev.psz, -1)
        key == ev.name
        info == [o0 |-> ev.o0, n |-> ev.n, psz |-> ev.psz]
    IN (IF <<ev.b1, ev.o1>> = a /\ <<ev.b3, ev.o3>> = a THEN {} ELSE {V("P_CursorAdvance", "None", key, info)})
       \cup (IF <<ev.b2, ev.o2>> = <<ev.b0, ev.o0>> /\ <<ev.b4, ev.o4>> = <<ev.b0, ev.o0>> /\ ev.eq THEN {} ELSE {V("P_CursorThereAndBack", "None", key, info)})
       \cup (IF <<ev.bi, ev.oi>> = ai THEN {} ELSE {V("P_CursorInc", "None", key, info)})
       \cup (IF <<ev.bd, ev.od>> = ad THEN {} ELSE {V("P_CursorDec", "None", key, info)})
       \cup (IF <<ev.bid, ev.oid>> = a THEN {} ELSE {V("P_CursorIncDec", "None", key, info)})
       \cup (IF ev.dist = ev.n /\ ev.rdist = -ev.n THEN {} ELSE {V("P_CursorDistance", "None", key, info)})
       \cup (IF ev.eq13 /\ (ev.lt <=> ev.n > 0) /\ (ev.gt <=> ev.n < 0) THEN {} ELSE {V("P_CursorOrder", "None", key, info)})

CurDrift(ev) ==
    LET a == I_BitAdvance(ev.b0, ev.o0, ev.n * ev.psz) IN
    IF <<ev.b1, ev.o1>> = a /\ ev.dist = I_Distance(ev.b0, ev.o0, ev.b1, ev.o1, ev.psz) THEN {}
    ELSE {V("I_BitAdvance", "model", ev.name, [o0 |-> ev.o0, n |-> ev.n])}

Verdict(ev) ==
    CASE ev.e = "W"     -> WVerdict(ev)
      [] ev.e = "Cur"   -> CurVerdict(ev)
      [] ev.e = "Fault" -> {V("P_NoFault", IF CarrierOverhang(cur) THEN "carrier>remaining" ELSE "None", CfgKey(cur), ev.kind)}
      [] ev.e \in {"Try", "End"} -> {}
      [] OTHER -> {V("UnknownEvent", "None", ev.e, l)}
Drift(ev) == IF ev.e = "Cur" THEN CurDrift(ev) ELSE {}

Init == l = 1 /\ bad = <<>> /\ drift = <<>> /\ nchk = 0 /\ cur = NoCfg
Step == /\ l <= NTr
        /\ bad' = MergeBad(bad, l, Verdict(Tr[l]))
        /\ drift' = MergeBad(drift, l, Drift(Tr[l]))
        /\ cur' = IF Tr[l].e = "Try" THEN [name |-> Tr[l].name, cs |-> Tr[l].cs, carrier |-> Tr[l].carrier, o |-> Tr[l].o,
                                          place |-> Tr[l].place, nbytes |-> Tr[l].nbytes, bit_aligned |-> Tr[l].bit_aligned]
                  ELSE cur
        /\ nchk' = nchk + (IF Tr[l].e \in {"W", "Cur"} THEN 1 ELSE 0)
        /\ l' = l + 1
Fin  == /\ l = NTr + 1 /\ WriteOut(bad, drift, nchk) /\ l' = l + 1 /\ UNCHANGED <<bad, drift, nchk, cur>>
Next == Step \/ Fin
Spec == Init /\ [][Next]_vars
=============================================================================
