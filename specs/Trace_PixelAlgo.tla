--------------------------- MODULE Trace_PixelAlgo ---------------------------
(* Validates recorded pixel-algorithm calls of the real library (C04).          *)
EXTENDS PixelAlgo, TraceBase

VARIABLES l, bad, drift, nchk
vars == <<l, bad, drift, nchk>>

FirstDiffIdx(a, b) == IF Len(a) # Len(b) THEN 0 ELSE CHOOSE k \in 1..Len(a) : a[k] # b[k]

AlgoVerdict(ev) ==
    LET key == ev.algo \o ":" \o ev.case \o ":" \o ev.sshape \o "->" \o ev.dshape
        val == IF Has(ev, "val") THEN ev.val ELSE <<>>
        exp0 == P_Result(ev.algo, ev.src, ev.dst, ev.sf, ev.df, ev.integral, val)
        \* storage bits of a destination pixel that belong to no channel (unused bits of a packed pixel) are
        \* inside "the destination view's pixels": the property does not say what they hold afterwards
        exp == IF ev.algo = "equal" THEN exp0
               ELSE P_LoopFrom(exp0, ev.dspare, 1, [i \in 1..Len(ev.dspare) |-> PixVals(ev.dst_after, ev.dspare[i])])
        dims == [w |-> ev.w, h |-> ev.h]
        \* bytes of the destination pixels' own fields, to classify a deviation
        OwnByte(k) == \E i \in 1..Len(ev.df) : \E f \in 1..NF(ev.df[i]) :
                          (FPos(ev.df[i], f) \div 8) + 1 <= k /\ k <= ((FPos(ev.df[i], f) + FLen(ev.df[i], f) - 1) \div 8) + 1
    IN (IF ev.dst_after = exp THEN {}
        ELSE LET k == FirstDiffIdx(ev.dst_after, exp) IN
             {V(IF k # 0 /\ OwnByte(k) THEN "P_LoopResult" ELSE "P_Frame", "None", key,
                [dims |-> dims, byte |-> k - 1, expected |-> IF k = 0 THEN -1 ELSE exp[k], got |-> IF k = 0 THEN -1 ELSE ev.dst_after[k]])})
       \cup (IF ev.src_after = ev.src THEN {} ELSE {V("P_SourceUntouched", "None", key, dims)})
       \cup (IF Has(ev, "ret") /\ (ev.ret # P_Equal(ev.src, ev.dst, ev.sf, ev.df))
             THEN {V("P_EqualResult", "None", key, [dims |-> dims, ret |-> ev.ret, px |-> IF Has(ev, "px") THEN <<ev.px, ev.py>> ELSE <<>>])} ELSE {})
       \cup (IF Has(ev, "calls") /\ ~P_CallOrder(ev.calls, ev.df) THEN {V("P_CallOrder", "None", key, [dims |-> dims, calls |-> ev.calls])} ELSE {})
       \cup (IF Has(ev, "scalls") /\ ~P_CallOrder(ev.scalls, ev.sf) THEN {V("P_CallOrder", "None", key, [dims |-> dims, calls |-> ev.scalls])} ELSE {})
       \cup (IF Has(ev, "ncalls") /\ ev.ncalls # Len(ev.df) THEN {V("P_CallOrder", "None", key, [dims |-> dims, ncalls |-> ev.ncalls])} ELSE {})

Verdict(ev) ==
    CASE ev.e = "Algo"     -> AlgoVerdict(ev)
      \* image equality = same dimensions and no differing pixel
      [] ev.e = "ImgEq"    -> LET exp == (ev.w1 = ev.w2 /\ ev.h1 = ev.h2 /\ ev.p1 = ev.p2) IN
                              IF ev.eq = exp /\ ev.ne = ~exp THEN {}
                              ELSE {V("P_ImageEquality", "None", ev.type, [a |-> <<ev.w1, ev.h1>>, b |-> <<ev.w2, ev.h2>>, variant |-> ev.variant, eq |-> ev.eq, ne |-> ev.ne])}
      \* a functor that carries its state by value: the result is that of the row-major loop run with ONE functor object (k-th call sees state k-1),
      \* and the functor handed back has made one call per pixel
      [] ev.e = "Stateful" -> LET n == ev.w * ev.h
                                  exp(i) == CASE ev.algo = "generate" -> (i - 1) % 256
                                              [] ev.algo = "for_each" -> (ev.s1[i] + (i - 1)) % 256
                                              [] ev.algo = "transform1" -> (ev.s1[i] + (i - 1)) % 256
                                              [] ev.algo = "transform2" -> (ev.s1[i] + 2 * ev.s2[i] + (i - 1)) % 256
                                  key == ev.algo \o ":stateful-functor:" \o ev.shape
                              IN (IF Len(ev.out) = n /\ \A i \in 1..n : ev.out[i] = exp(i) THEN {}
                                  ELSE {V("P_CallOrder", "None", key, [w |-> ev.w, h |-> ev.h, out |-> ev.out])})
                                 \cup (IF ev.retn = -1 \/ ev.retn = n THEN {} ELSE {V("P_CallOrder", "None", key \o ":returned", [w |-> ev.w, h |-> ev.h, calls_of_returned_functor |-> ev.retn])})
      [] ev.e = "PixEq"    -> IF ev.ret = (ev.p1 = ev.p2) THEN {} ELSE {V("P_EqualResult", "None", "shared-origin:" \o ev.how, [w |-> ev.w, h |-> ev.h, ret |-> ev.ret, p1 |-> ev.p1, p2 |-> ev.p2])}
      [] ev.e = "Compiles" -> IF ev.ok THEN {} ELSE {V("P_Total", "does-not-compile", ev.case, ev.msg)}
      [] ev.e = "Fault"    -> {V("P_NoFault", "None", "driver", ev.kind)}
      [] ev.e = "End"      -> {}
      [] OTHER -> {V("UnknownEvent", "None", ev.e, l)}

Init == l = 1 /\ bad = <<>> /\ drift = <<>> /\ nchk = 0
Step == /\ l <= NTr
        /\ bad' = MergeBad(bad, l, Verdict(Tr[l]))
        /\ drift' = drift
        /\ nchk' = nchk + (IF Tr[l].e \in {"Algo", "Compiles", "ImgEq", "Stateful", "PixEq"} THEN 1 ELSE 0)
        /\ l' = l + 1
Fin  == /\ l = NTr + 1 /\ WriteOut(bad, drift, nchk) /\ l' = l + 1 /\ UNCHANGED <<bad, drift, nchk>>
Next == Step \/ Fin
Spec == Init /\ [][Next]_vars
=============================================================================
