----------------------------- MODULE Trace_Raster -----------------------------
(* Validates recorded rasterizer output of the real library (C20).               *)
EXTENDS Raster, TraceBase
VARIABLES l, bad, drift, nchk, applied      \* applied: result of the apply_rasterizer probe preceding the event
vars == <<l, bad, drift, nchk, applied>>

Pt(q) == <<q[1], q[2]>>
\* the faithful model of the pinned loop (slope over pixel counts) itself breaks the clause for this line:
\* the specification-level cause of the known finding
ModelBreaks(s, e, Clause(_, _, _)) == LET m == I_Line(s, e, FALSE) IN \E i \in 1..Len(m) : ~Clause(m[i], s, e)

LineVerdict(ev) ==
    LET s == <<ev.sx, ev.sy>> e == <<ev.ex, ev.ey>> n == Len(ev.pts)
        p(i) == Pt(ev.pts[i])
        key == "line"
        info == [s |-> s, e |-> e]
        cBox == IF ModelBreaks(s, e, InBBox) THEN "slope-over-pixel-counts" ELSE "None"
        cNear == IF ModelBreaks(s, e, NearSegment) THEN "slope-over-pixel-counts" ELSE "None"
        countOk == ev.count = LineCount(s, e) /\ n = ev.count /\ ~ev.overrun
    IN (IF countOk THEN {} ELSE {V("P_LineCount", "None", key, [s |-> s, e |-> e, count |-> ev.count, emitted |-> n])})
       \cup (IF n > 0 /\ p(1) = s /\ p(n) = e THEN {} ELSE {V("P_LineEnds", "None", key, info)})
       \cup (IF \A i \in 1..(n - 1) : StepOk(p(i), p(i+1), s, e) THEN {} ELSE {V("P_LineConnected", cBox, key, info)})
       \cup (IF \A i \in 1..n : InBBox(p(i), s, e) THEN {} ELSE {V("P_LineInBBox", cBox, key, info)})
       \cup (IF \A i \in 1..n : NearSegment(p(i), s, e) THEN {} ELSE {V("P_LineNear", cNear, key, info)})
       \cup (IF applied = 0 THEN {} ELSE {V("P_ApplyInsideView", cBox, key, [s |-> s, e |-> e, outside |-> applied])})
LineDrift(ev) ==
    LET s == <<ev.sx, ev.sy>> e == <<ev.ex, ev.ey>> m == I_Line(s, e, FALSE) IN
    IF Len(m) = Len(ev.pts) /\ \A i \in 1..Len(m) : m[i] = Pt(ev.pts[i]) THEN {} ELSE {V("I_Line", "model", "line", [s |-> s, e |-> e])}

CircleVerdict(ev) ==
    LET r == ev.r n == Len(ev.pts)
        rel == {<<ev.pts[i][1] - ev.cx, ev.pts[i][2] - ev.cy>> : i \in 1..n}
        key == "circle:" \o ev.kind
        info == [r |-> r, c |-> <<ev.cx, ev.cy>>]
    IN (IF n = ev.count /\ ~ev.overrun THEN {} ELSE {V("P_CircleCount", "None", key, [r |-> r, count |-> ev.count, emitted |-> n])})
       \cup (IF \A q \in rel : NearCircle(q[1], q[2], r) THEN {} ELSE {V("P_CircleNear", "None", key, info)})
       \cup (IF \A q \in rel : Abs(q[1]) <= r /\ Abs(q[2]) <= r THEN {} ELSE {V("P_CircleInBBox", "None", key, info)})
       \cup (IF \A q \in rel : Mirror8(q[1], q[2]) \subseteq rel THEN {} ELSE {V("P_CircleSymmetric", "None", key, info)})
       \cup (IF r < 2 \/ \A q \in rel : Cardinality({t \in rel : Adjacent(q, t)}) >= 2 THEN {} ELSE {V("P_CircleClosed", "None", key, info)})
       \cup (IF applied = 0 THEN {} ELSE {V("P_ApplyInsideView", "None", key, [r |-> r, outside |-> applied])})

EllipseVerdict(ev) ==
    LET a == ev.a b == ev.b key == "ellipse"
        tr == {Pt(ev.traj[i]) : i \in 1..Len(ev.traj)}
        dr == {Pt(ev.drawn[i]) : i \in 1..Len(ev.drawn)}
        info == [a |-> a, b |-> b]
        deg == a = 0 \/ b = 0
    IN (IF \A q \in tr : q[1] >= 0 /\ q[1] <= a /\ q[2] >= 0 /\ q[2] <= b THEN {} ELSE {V("P_EllipseInBBox", "None", key, info)})
       \cup (IF deg \/ \A q \in tr : NearEllipse(q[1], q[2], a, b) THEN {} ELSE {V("P_EllipseNear", "None", key, info)})
       \cup (IF \A q \in dr : Mirror4(q[1], q[2]) \subseteq dr THEN {} ELSE {V("P_EllipseSymmetric", "None", key, info)})
       \cup (IF dr = UNION {Mirror4(q[1], q[2]) : q \in tr} THEN {} ELSE {V("P_EllipseDrawn", "None", key, info)})
       \* closed: the first-quadrant trajectory is an 8-connected chain from the x axis to the y axis; with the 4-fold symmetry the curve closes
       \cup (IF deg \/ (/\ Len(ev.traj) >= 1 /\ Pt(ev.traj[1])[2] = 0 /\ Pt(ev.traj[Len(ev.traj)])[1] = 0
                         /\ \A i \in 1..(Len(ev.traj) - 1) : Adjacent(Pt(ev.traj[i]), Pt(ev.traj[i+1])))
              THEN {} ELSE {V("P_EllipseClosed", "None", key, info)})
       \cup (IF ev.outside = 0 THEN {} ELSE {V("P_ApplyInsideView", "None", key, [a |-> a, b |-> b, outside |-> ev.outside])})

Verdict(ev) ==
    CASE ev.e = "Line"    -> LineVerdict(ev)
      [] ev.e = "Circle"  -> CircleVerdict(ev)
      [] ev.e = "Ellipse" -> EllipseVerdict(ev)
      [] ev.e = "Applied" -> {}
      \* shapes applied one after the other in one process: each stays inside its view and draws no more pixels than it has points
      [] ev.e = "SeqApplied" -> IF ev.outside = 0 /\ (ev.count < 0 \/ ev.drawn <= ev.count) /\ applied # -1 THEN {}
                                ELSE {V("P_ApplyInsideView", "None", "sequence:" \o ev.what, [arg |-> <<ev.arg, ev.arg2>>, outside |-> ev.outside, drawn |-> ev.drawn, count |-> ev.count])}
      [] ev.e = "End" -> IF applied = -1 THEN {V("P_ApplyInsideView", "None", "sequence", "fault while applying a sequence of shapes")} ELSE {}
      [] ev.e = "Fault"   -> {}            \* folded into the next event as applied = -1
      [] OTHER -> {V("UnknownEvent", "None", ev.e, l)}
Drift(ev) == IF ev.e = "Line" THEN LineDrift(ev) ELSE {}

Init == l = 1 /\ bad = <<>> /\ drift = <<>> /\ nchk = 0 /\ applied = 0
Step == /\ l <= NTr
        /\ bad' = MergeBad(bad, l, Verdict(Tr[l]))
        /\ drift' = MergeBad(drift, l, Drift(Tr[l]))
        /\ applied' = IF Tr[l].e = "Applied" THEN Tr[l].outside ELSE IF Tr[l].e = "Fault" THEN -1 ELSE 0
        /\ nchk' = nchk + (IF Tr[l].e \in {"Line", "Circle", "Ellipse", "SeqApplied"} THEN 1 ELSE 0)
        /\ l' = l + 1
Fin  == /\ l = NTr + 1 /\ WriteOut(bad, drift, nchk) /\ l' = l + 1 /\ UNCHANGED <<bad, drift, nchk, applied>>
Next == Step \/ Fin
Spec == Init /\ [][Next]_vars
=============================================================================
