--------------------------- MODULE Trace_RawViews ---------------------------
(* Validates harness/x09_rawviews.cpp against RawViews.tla (extension X09). *)
EXTENDS TraceBase, RawViews
VARIABLES l, bad, drift, nchk
vars == <<l, bad, drift, nchk>>
IsInterleaved(kind) == Len(kind) >= 11 /\ SubSeq(kind, 1, 11) = "interleaved"
RawVerdict(ev) ==
    LET n == ev.w * ev.h * ev.nc
        exp == [i \in 1..n |-> LET k == ((i - 1) % ev.nc) + 1 p == (i - 1) \div ev.nc x == p % ev.w y == p \div ev.w IN
                               IF IsInterleaved(ev.kind) THEN P_InterleavedAt(ev.planes[1], ev.nc, ev.rb, x, y, k) ELSE P_PlanarAt(ev.planes, ev.rb, x, y, k)]
    IN (IF ev.rw = ev.w /\ ev.rh = ev.h THEN {} ELSE {V("X_RawViewDims", "None", ev.kind, [requested |-> <<ev.w, ev.h>>, got |-> <<ev.rw, ev.rh>>])})
  \cup (IF ev.px = exp THEN {} ELSE {V("X_RawViewPixel", "None", ev.kind, [w |-> ev.w, h |-> ev.h, rowbytes |-> ev.rb])})
Verdict(ev) ==
    CASE ev.e = "RawView" -> RawVerdict(ev)
      [] ev.e = "Compiles" -> IF ev.ok THEN {} ELSE {V("X_RawViewInstantiates", "does-not-compile", ev.case, ev.msg)}
      [] ev.e = "Fault" -> {V("X_NoFault", "None", "rawviews", ev.kind)}
      [] ev.e = "End" -> {}
      [] OTHER -> {V("UnknownEvent", "None", ev.e, l)}
Init == l = 1 /\ bad = <<>> /\ drift = <<>> /\ nchk = 0
Step == /\ l <= NTr /\ bad' = MergeBad(bad, l, Verdict(Tr[l])) /\ nchk' = nchk + (IF Tr[l].e = "End" THEN 0 ELSE 1) /\ drift' = drift /\ l' = l + 1
Fin  == /\ l = NTr + 1 /\ WriteOut(bad, drift, nchk) /\ l' = l + 1 /\ UNCHANGED <<bad, drift, nchk>>
Next == Step \/ Fin
Spec == Init /\ [][Next]_vars
=============================================================================
