---------------------------- MODULE Trace_Resample ----------------------------
(* Validates recorded sampler / resample / affine results of the real library (C17). *)
EXTENDS Resample, TraceBase
VARIABLES l, bad, drift, nchk
vars == <<l, bad, drift, nchk>>

SampleRowVerdict(ev) ==
    LET n == Len(ev.rets) img == ev.img key == ev.sampler \o ":" \o ev.types
        X8(i) == ev.px8_first + i - 1
        Untouched(i) == ev.rets[i] = 0 => ev.vals[i] = ev.sentinel
        NearOk(i) == IF P_NearestInside(img, X8(i), ev.py8) THEN ev.rets[i] = 1 /\ ev.vals[i] = P_NearestValue(img, X8(i), ev.py8) ELSE ev.rets[i] = 0
        BilOk(i)  == ev.rets[i] = 1 => P_BilinearOk(img, X8(i), ev.py8, ev.vals[i])
        \* a point strictly inside the pixel grid must be reported inside
        BilInside(i) == (X8(i) >= 0 /\ X8(i) <= 8 * (W(img) - 1) /\ ev.py8 >= 0 /\ ev.py8 <= 8 * (H(img) - 1)) => ev.rets[i] = 1
        chk(cl, Ok(_)) == LET k == FirstBad(n, Ok) IN IF k = 0 THEN {} ELSE {V(cl, "None", key, [px8 |-> X8(k), py8 |-> ev.py8, ret |-> ev.rets[k], val |-> ev.vals[k], dims |-> <<W(img), H(img)>>])}
    IN chk("P_OutsideLeavesResult", Untouched)
       \cup (IF ev.sampler = "nearest" THEN chk("P_NearestIsNearest", NearOk) ELSE chk("P_BilinearConvex", BilOk) \cup chk("P_BilinearInside", BilInside))
SampleRowDrift(ev) ==
    IF ev.sampler # "bilinear" THEN {} ELSE
    LET n == Len(ev.rets) img == ev.img
        X8(i) == ev.px8_first + i - 1
        Same(i) == IF I_BilinearOutside(img, X8(i), ev.py8) THEN ev.rets[i] = 0 ELSE ev.rets[i] = 1 /\ (ev.types = "gray32f/float" \/ ev.vals[i] = I_Bilinear(img, X8(i), ev.py8))
        k == FirstBad(n, Same)
    IN IF k = 0 THEN {} ELSE {V("I_Bilinear", "model", ev.types, [px8 |-> X8(k), py8 |-> ev.py8, got |-> ev.vals[k]])}

ResampleVerdict(ev) ==
    LET n == ev.dw * ev.dh key == "resample_pixels:" \o ev.sampler \o ":" \o ev.types
        Flat(img) == [i \in 1..n |-> img[((i - 1) \div ev.dw) + 1][((i - 1) % ev.dw) + 1]]
        d == Flat(ev.dst) b == Flat(ev.before)
        \* the mapped point (entries in quarters, integer pixel): in eighths
        Pt(i) == LET q == TransformQ(ev.m4, (i - 1) % ev.dw, (i - 1) \div ev.dw) IN <<2 * q[1], 2 * q[2]>>
        Ok(i) == d[i] = (IF ev.dret[i] = 1 THEN ev.direct[i] ELSE b[i])
        k == FirstBad(n, Ok) kp == FirstBad(n, LAMBDA i : ev.px8[i] = Pt(i)[1] /\ ev.py8[i] = Pt(i)[2])
    IN (IF k = 0 THEN {} ELSE {V("P_ResampleIsSampleOfMap", "None", key, [pixel |-> k - 1, m4 |-> ev.m4, got |-> d[k], direct |-> ev.direct[k], inside |-> ev.dret[k]])})
       \cup (IF kp = 0 THEN {} ELSE {V("P_TransformPoint", "None", key, [pixel |-> kp - 1, m4 |-> ev.m4, got |-> <<ev.px8[kp], ev.py8[kp]>>])})

ResizeVerdict(ev) == IF ev.img = ev.dst THEN {} ELSE {V("P_ResizeSameSizeIdentity", "None", ev.types, [img |-> ev.img, dst |-> ev.dst])}

AssocVerdict(ev) ==
    LET ab == MatMulS(ev.a4, 4, ev.b4) IN
    (IF ev.ab_c = MatMulS(ab, 16, ev.c4) /\ ev.a_bc = ev.ab_c THEN {} ELSE {V("P_MatrixAssociative", "None", "matrix3x2", ev)})
    \cup (IF ev.ab = ab THEN {} ELSE {V("P_MatrixProduct", "None", "matrix3x2", ev)})
ComposeVerdict(ev) ==
    LET p == ev.p IN
    IF /\ ev.pT16 = <<16 * p[1] + 4 * ev.t4[1], 16 * p[2] + 4 * ev.t4[2]>>
       /\ ev.pS16 = <<4 * p[1] * ev.s4[1], 4 * p[2] * ev.s4[2]>>
       /\ ev.pST16 = <<4 * p[1] * ev.s4[1] + 4 * ev.t4[1], 4 * p[2] * ev.s4[2] + 4 * ev.t4[2]>>
    THEN {} ELSE {V("P_TranslateScaleCompose", "None", "matrix3x2", ev)}
InverseVerdict(ev) ==
    LET one == 1048576 tol == 64
        IsId(m) == Abs(m[1] - one) <= tol /\ Abs(m[2]) <= tol /\ Abs(m[3]) <= tol /\ Abs(m[4] - one) <= tol /\ Abs(m[5]) <= 4096 /\ Abs(m[6]) <= 4096
    IN IF IsId(ev.inv_a) /\ IsId(ev.a_inv) /\ Abs(ev.back[1] - one * ev.p[1]) <= 4096 /\ Abs(ev.back[2] - one * ev.p[2]) <= 4096 THEN {}
       ELSE {V("P_InverseIsInverse", "None", "matrix3x2", ev)}
RotateVerdict(ev) ==
    LET r == ev.r c == r[1] s == r[2] one == 1048576
        \* c^2 + s^2 = 1 within tolerance, computed in units of 2^10 to stay inside 31 bits
        c10 == c \div 1024 s10 == s \div 1024
    IN IF r[3] = -s /\ r[4] = c /\ r[5] = 0 /\ r[6] = 0 /\ Abs(c10 * c10 + s10 * s10 - 1048576) <= 8192 THEN {} ELSE {V("P_RotateStructure", "None", "matrix3x2", ev)}

Verdict(ev) ==
    CASE ev.e = "SampleRow" -> SampleRowVerdict(ev)
      [] ev.e = "Resample"  -> ResampleVerdict(ev)
      [] ev.e = "Resize"    -> ResizeVerdict(ev)
      [] ev.e = "Assoc"     -> AssocVerdict(ev)
      [] ev.e = "Compose"   -> ComposeVerdict(ev)
      [] ev.e = "Inverse"   -> InverseVerdict(ev)
      [] ev.e = "Rotate"    -> RotateVerdict(ev)
      [] ev.e = "Fault"     -> {V("P_NoFault", "None", "driver", ev.kind)}
      [] ev.e = "End"       -> {}
      [] OTHER -> {V("UnknownEvent", "None", ev.e, l)}
Drift(ev) == IF ev.e = "SampleRow" THEN SampleRowDrift(ev) ELSE {}

Init == l = 1 /\ bad = <<>> /\ drift = <<>> /\ nchk = 0
Step == /\ l <= NTr
        /\ bad' = MergeBad(bad, l, Verdict(Tr[l]))
        /\ drift' = MergeBad(drift, l, Drift(Tr[l]))
        /\ nchk' = nchk + 1
        /\ l' = l + 1
Fin  == /\ l = NTr + 1 /\ WriteOut(bad, drift, nchk) /\ l' = l + 1 /\ UNCHANGED <<bad, drift, nchk>>
Next == Step \/ Fin
Spec == Init /\ [][Next]_vars
=============================================================================
