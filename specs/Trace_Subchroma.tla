--------------------------- MODULE Trace_Subchroma ---------------------------
(* Validates harness/x08_subchroma.cpp against Subchroma.tla (extension X08). *)
EXTENDS TraceBase, Subchroma
VARIABLES l, bad, drift, nchk
vars == <<l, bad, drift, nchk>>
\* the planes as painted by the driver
Ypl(w, h) == [y \in 1..h |-> [x \in 1..w |-> (1 + (x - 1) + 10 * (y - 1)) % 256]]        \* (8-bit planes: the driver's values wrap)
Cpl(base, d) == [y \in 1..d[2] |-> [x \in 1..d[1] |-> (base + (x - 1) + 10 * (y - 1)) % 256]]
SubVerdict(ev) ==
    LET d == P_PlaneDims(ev.w, ev.h, ev.a, ev.b)
        key == "4:" \o ToString(ev.a) \o ":" \o ToString(ev.b)
        Y == Ypl(ev.w, ev.h) Vp == Cpl(100, d) Up == Cpl(180, d)
        exp == [i \in 1..(3 * ev.w * ev.h) |-> LET k == (i - 1) \div 3 x == k % ev.w y == k \div ev.w IN P_Pixel(Y, Vp, Up, x, y, ev.a, ev.b)[((i - 1) % 3) + 1]]
        shape == IF ev.w % SSX(ev.a) = 0 /\ ev.h % SSY(ev.a, ev.b) = 0 THEN "None" ELSE "dimension-not-multiple-of-factor"
    IN (IF ev.rw = ev.w /\ ev.rh = ev.h THEN {} ELSE {V("X_SubchromaDims", "None", key, [requested |-> <<ev.w, ev.h>>, got |-> <<ev.rw, ev.rh>>])})
  \cup (IF <<ev.vw, ev.vh>> = d /\ <<ev.uw, ev.uh>> = d THEN {} ELSE {V("X_SubchromaPlaneDims", shape, key, [w |-> ev.w, h |-> ev.h, needed |-> d, v |-> <<ev.vw, ev.vh>>, u |-> <<ev.uw, ev.uh>>])})
  \cup (IF <<ev.vw, ev.vh>> = d /\ <<ev.uw, ev.uh>> = d /\ (ev.p_xyat # exp \/ ev.p_call # exp)
        THEN {V("X_SubchromaPixel", shape, key, [w |-> ev.w, h |-> ev.h, expected |-> exp, got |-> ev.p_xyat])} ELSE {})
Verdict(ev) ==
    CASE ev.e = "Sub" -> SubVerdict(ev)
      [] ev.e = "Fault" -> {V("X_NoFault", "None", "subchroma", ev.kind)}
      [] ev.e = "End" -> {}
      [] OTHER -> {V("UnknownEvent", "None", ev.e, l)}
Init == l = 1 /\ bad = <<>> /\ drift = <<>> /\ nchk = 0
Step == /\ l <= NTr /\ bad' = MergeBad(bad, l, Verdict(Tr[l])) /\ nchk' = nchk + (IF Tr[l].e = "End" THEN 0 ELSE 1) /\ drift' = drift /\ l' = l + 1
Fin  == /\ l = NTr + 1 /\ WriteOut(bad, drift, nchk) /\ l' = l + 1 /\ UNCHANGED <<bad, drift, nchk>>
Next == Step \/ Fin
Spec == Init /\ [][Next]_vars
=============================================================================
