---------------------------- MODULE Trace_Toolbox ----------------------------
(* Validates recorded toolbox colour-space conversions of the real library (C18). *)
EXTENDS Toolbox, TraceBase
VARIABLES l, bad, drift, nchk
vars == <<l, bad, drift, nchk>>
One == 1048576
Eps == 64                     \* 2^-14 of float slack on [0,1] ranges
\* round-trip tolerance in 8-bit levels per colour space ("exactly for hsv, hsl and xyz")
Tol(space) == CASE space \in {"hsv", "hsl", "xyz"} -> 0 [] space = "lab" -> 2 [] OTHER -> 3

SpaceRowVerdict(ev) ==
    LET tol == Tol(ev.space)
        Back(i) == P_Within(<<ev.br[i], ev.bg[i], ev.bb[i]>>, <<ev.r, ev.g, i - 1>>, tol)
        InR(i)  == ev.space \notin {"hsv", "hsl"} \/ (/\ ev.m0[i] >= 0 /\ ev.m0[i] <= One + Eps /\ ev.m1[i] >= 0 /\ ev.m1[i] <= One + Eps
                                                    /\ ev.m2[i] >= 0 /\ ev.m2[i] <= One + Eps)
        kb == FirstBad(256, Back) kr == FirstBad(256, InR)
    IN (IF kb = 0 THEN {} ELSE {V("P_RoundTrip", "None", ev.space, [rgb |-> <<ev.r, ev.g, kb - 1>>, back |-> <<ev.br[kb], ev.bg[kb], ev.bb[kb]>>, tolerance |-> tol])})
       \cup (IF kr = 0 THEN {} ELSE {V("P_ChannelRange", "None", ev.space, [rgb |-> <<ev.r, ev.g, kr - 1>>, mid |-> <<ev.m0[kr], ev.m1[kr], ev.m2[kr]>>])})
SpaceRowDrift(ev) ==
    IF ev.space # "hsv" THEN {} ELSE
    LET Same(i) == LET b == i - 1 mx == Max3(ev.r, ev.g, b) mn == Min3(ev.r, ev.g, b) IN
                   \* value = max/255 and saturation*value = diff/255 up to float rounding
                   Abs(ev.m2[i] * 255 - mx * One) <= 255 * 4
        k == FirstBad(256, Same)
    IN IF k = 0 THEN {} ELSE {V("I_Hsv", "model", "hsv", [r |-> ev.r, g |-> ev.g, b |-> k - 1])}

HueGridVerdict(ev) == {}      \* periodicity and greys need two events; see the HueGrid accumulator below
GrayAlphaVerdict(ev) ==
    IF ev.rgba[4] = ev.a THEN {} ELSE {V("P_GrayAlphaCarriesAlpha", "None", "gray_alpha", ev)}

\* across depths gray and alpha are carried by channel_convert: 8 -> 16 is v * 257, 16 -> 8 of v * 257 is v, 8 -> float is v / 255 (logged x 255 x 256)
GrayAlphaXVerdict(ev) ==
    LET exp == CASE ev.dir = "8->16" -> <<ev.v * 257, ev.v * 257, ev.v * 257, ev.a * 257>>
                 [] ev.dir = "16->8" -> <<ev.v, ev.v, ev.v, ev.a>>
                 [] ev.dir = "8->32f" -> <<ev.v * 256, ev.v * 256, ev.v * 256, ev.a * 256>>
        ok == IF ev.dir = "8->32f" THEN \A c \in 1..4 : Abs(ev.rgba[c] - exp[c]) <= 1 ELSE ev.rgba = exp
    IN IF ok THEN {} ELSE {V("P_GrayAlphaCarriesAlpha", "None", "gray_alpha:" \o ev.dir, [v |-> ev.v, a |-> ev.a, expected |-> exp, got |-> ev.rgba])}

Verdict(ev, grid) ==
    CASE ev.e = "GrayAlphaX" -> GrayAlphaXVerdict(ev)
      [] ev.e = "SpaceRow"  -> SpaceRowVerdict(ev)
      [] ev.e = "GrayAlpha" -> GrayAlphaVerdict(ev)
      [] ev.e = "HueGrid"   ->
            \* greys ignore hue: with saturation 0 the result equals that of hue 0;  hue 1 = hue 0
            LET k0 == <<0, ev.s2, ev.v2>> IN
            (IF ev.s2 = 0 /\ k0 \in DOMAIN grid /\ (grid[k0].hsv # ev.hsv \/ grid[k0].hsl # ev.hsl) THEN {V("P_GreysIgnoreHue", "None", "hue", ev)} ELSE {})
            \cup (IF ev.h12 = 12 /\ k0 \in DOMAIN grid /\ grid[k0].hsv # ev.hsv THEN {V("P_HuePeriodic", "hue=1", "hsv", [s2 |-> ev.s2, v2 |-> ev.v2, at1 |-> ev.hsv, at0 |-> grid[k0].hsv])} ELSE {})
            \cup (IF ev.h12 = 12 /\ k0 \in DOMAIN grid /\ grid[k0].hsl # ev.hsl THEN {V("P_HuePeriodic", "hue=1", "hsl", [s2 |-> ev.s2, v2 |-> ev.v2, at1 |-> ev.hsl, at0 |-> grid[k0].hsl])} ELSE {})
      [] ev.e = "Cmyka"     -> IF ev.rgb = ev.core THEN {} ELSE {V("P_CmykaAgreesWithCmyk", "None", "cmyka", ev)}
      [] ev.e = "Fault"     -> {V("P_NoFault", "None", "driver", ev.kind)}
      [] ev.e = "End"       -> {}
      [] OTHER -> {V("UnknownEvent", "None", ev.e, l)}
Drift(ev) == IF ev.e = "SpaceRow" THEN SpaceRowDrift(ev) ELSE {}

VARIABLE grid
tvars == <<vars, grid>>
Init == l = 1 /\ bad = <<>> /\ drift = <<>> /\ nchk = 0 /\ grid = <<>>
Step == /\ l <= NTr
        /\ bad' = MergeBad(bad, l, Verdict(Tr[l], grid))
        /\ drift' = MergeBad(drift, l, Drift(Tr[l]))
        /\ grid' = IF Tr[l].e = "HueGrid" /\ Tr[l].h12 = 0
                   THEN [k \in DOMAIN grid \cup {<<0, Tr[l].s2, Tr[l].v2>>} |-> IF k = <<0, Tr[l].s2, Tr[l].v2>> THEN [hsv |-> Tr[l].hsv, hsl |-> Tr[l].hsl] ELSE grid[k]]
                   ELSE grid
        /\ nchk' = nchk + 1
        /\ l' = l + 1
Fin  == /\ l = NTr + 1 /\ WriteOut(bad, drift, nchk) /\ l' = l + 1 /\ UNCHANGED <<bad, drift, nchk, grid>>
Next == Step \/ Fin
Spec == Init /\ [][Next]_tvars
=============================================================================
