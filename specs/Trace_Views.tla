----------------------------- MODULE Trace_Views -----------------------------
(* Validates recorded images, views, navigation paths and single-pixel writes  *)
(* of the real library against Views.tla / Navigation laws (C01, C02, C03).    *)
EXTENDS Views, TraceBase, Bitwise

VARIABLES l, bad, drift, nchk, root, views, cfg
vars == <<l, bad, drift, nchk, root, views, cfg>>

NoRoot == [kind |-> "none", how |-> "none", w |-> 0, h |-> 0, align |-> 0, size |-> 0, psz |-> 1, upb |-> 1, planes |-> 1, nch |-> 1, chbits |-> 0, addrmod |-> 0]
PixBits(r) == IF r.upb = 8 THEN r.psz ELSE r.psz * 8 * (IF r.planes > 1 THEN 1 ELSE 1)
Key(ev) == root.kind \o "/" \o root.how \o ":" \o ev.op

Idx(w, x, y) == y * w + x + 1

\* footprint of pixel i of a view: set of <<start bit, length>>
Footprint(v, i) ==
    IF v.cm # <<>> THEN {<<v.cm[c][i], root.chbits>> : c \in 1..Len(v.cm)}
    ELSE {<<v.map[i], PixBits(root)>>}
FpMask(fp, b) ==   \* bits of byte b covered by the footprint (ranges are disjoint)
    LET parts == {<<Max2(r[1], 8 * b), Min2(r[1] + r[2], 8 * b + 8)>> : r \in fp}
        live  == {p \in parts : p[1] < p[2]}
    IN IF live = {} THEN 0
       ELSE LET S[T \in SUBSET live] == IF T = {} THEN 0 ELSE LET p == CHOOSE q \in T : TRUE IN
                                          (Pow2(p[2] - 8 * b) - Pow2(p[1] - 8 * b)) + S[T \ {p}]
            IN S[live]
FpBytes(fp) == UNION {(r[1] \div 8)..((r[1] + r[2] - 1) \div 8) : r \in fp}

InsideBlock(v, i) == \A r \in Footprint(v, i) : r[1] >= 0 /\ r[1] + r[2] <= 8 * root.size

ViewVerdict(ev) ==
    LET isRoot == ev.src = -1
        s  == IF isRoot THEN [w |-> ev.w, h |-> ev.h, map |-> ev.map, cm |-> ev.cm, nch |-> ev.nch] ELSE views[ev.src]
        v  == [w |-> ev.w, h |-> ev.h, map |-> ev.map, cm |-> ev.cm, nch |-> ev.nch]
        n  == ev.w * ev.h
        key == Key(ev)
        dims == IF isRoot THEN <<root.w, root.h>> ELSE P_Dims(ev.op, ev.args, s.w, s.h)
        dimsOk == <<ev.w, ev.h>> = dims /\ Len(ev.map) = n
        SrcIdx(x, y) == LET p == P_Src(ev.op, ev.args, s.w, s.h, x, y) IN Idx(s.w, p[1], p[2])
        isCh == ev.op \in {"nthch", "kthch"}
        MapOk(x, y) == LET i == Idx(ev.w, x, y) IN
                       IF isCh THEN ev.map[i] = s.cm[ev.args[1] + 1][SrcIdx(x, y)]
                       ELSE ev.map[i] = s.map[SrcIdx(x, y)]
                            /\ (ev.cm # <<>> => \A c \in 1..Len(ev.cm) : ev.cm[c][i] = s.cm[c][SrcIdx(x, y)])
        coords == {<<x, y>> : x \in 0..(ev.w - 1), y \in 0..(ev.h - 1)}
        badMap == {p \in coords : ~MapOk(p[1], p[2])}
        badIn  == {i \in 1..n : ~InsideBlock(v, i)}
        \* single-pixel writes
        PokeOk(i) == LET fp == Footprint(v, i) d == ev.pokes[i] IN
                     /\ d # <<>>
                     /\ \A k \in 1..Len(d) : (d[k][2] & (255 - FpMask(fp, d[k][1]))) = 0
        PokeExact(i) == LET fp == Footprint(v, i) d == ev.pokes[i] IN
                     {d[k][1] : k \in 1..Len(d)} = FpBytes(fp) /\ \A k \in 1..Len(d) : d[k][2] = FpMask(fp, d[k][1])
        exact == root.kind # "rgb32f"
        badPoke == IF Has(ev, "pokes") /\ dimsOk THEN {i \in 1..n : ~PokeOk(i) \/ (exact /\ ~PokeExact(i))} ELSE {}
        \* navigation paths
        paths == {"p_row", "p_col", "p_it1d", "p_at", "p_rbegin", "p_xy", "p_xat", "p_yat", "p_itadv", "p_locmove", "p_cache", "p_axis"}
        badPaths == IF Has(ev, "p_row") THEN {p \in paths : ev[p] # ev.map} ELSE {}
    IN (IF dimsOk THEN {} ELSE {V("P_Dims", "None", key, [got |-> <<ev.w, ev.h>>, expected |-> dims, args |-> ev.args, src |-> <<s.w, s.h>>])})
       \cup (IF dimsOk /\ ~isRoot /\ badMap # {} THEN {V("P_Map", "None", key, [at |-> CHOOSE p \in badMap : TRUE, args |-> ev.args, src |-> <<s.w, s.h>>])} ELSE {})
       \cup (IF dimsOk /\ badIn # {} THEN {V("P_InBounds", "None", key, [pixel |-> CHOOSE i \in badIn : TRUE, dims |-> <<ev.w, ev.h>>, size |-> root.size, align |-> root.align])} ELSE {})
       \cup (IF badPoke # {} THEN {V("P_Shallow", "None", key, [pixel |-> CHOOSE i \in badPoke : TRUE, diff |-> ev.pokes[CHOOSE i \in badPoke : TRUE], dims |-> <<ev.w, ev.h>>])} ELSE {})
       \cup {V("P_SamePixel", "None", key \o ":" \o p, [dims |-> <<ev.w, ev.h>>]) : p \in badPaths}
       \cup (IF Has(ev, "size1d") /\ ev.size1d # n THEN {V("P_Size1D", "None", key, ev.size1d)} ELSE {})
       \cup (IF Has(ev, "rowend_next") /\ ev.is1d /\ ev.rowend_next # ev.row1_first THEN {V("P_1DTraversable", "None", key, <<ev.w, ev.h>>)} ELSE {})

\* 1-D iterator laws
ItLawVerdict(ev) ==
    LET v == views[ev.id] w == ev.w n == ev.w * ev.h i == ev.i
        key == root.kind \o "/" \o root.how
        Pos(p) == IF p = n /\ w > 0 THEN <<0, ev.h>> ELSE <<p % w, p \div w>>
        RowOk(r) == /\ <<r.x1, r.y1>> = Pos(i + r.a) /\ <<r.x2, r.y2>> = Pos(i + r.a + r.b)
                    /\ r.assoc /\ r.back /\ r.incdec /\ r.d10 = r.a /\ r.d01 = -r.a
                    /\ (r.lt <=> r.a > 0) /\ (r.gt <=> r.a < 0) /\ (r.le <=> r.a >= 0) /\ (r.eq <=> r.a = 0)
                    /\ (i + r.a + r.b < n => r.addr2 = v.map[i + r.a + r.b + 1])
        b == FirstBad(Len(ev.rows), LAMBDA k : RowOk(ev.rows[k]))
    IN IF b = 0 THEN {} ELSE {V("P_IterLaws", "None", key, [i |-> i, w |-> w, h |-> ev.h, row |-> ev.rows[b]])}
StepLawVerdict(ev, isX) ==
    LET v == views[ev.id]
        key == root.kind \o "/" \o root.how
        RowOk(r) == /\ r.d = r.b - r.a /\ (r.lt <=> r.a < r.b) /\ (r.eq <=> r.a = r.b)
                    /\ (r.addr # -1 => r.addr = (IF isX THEN v.map[Idx(v.w, r.b, ev.y)] ELSE v.map[Idx(v.w, ev.x, r.b)]))
        b == FirstBad(Len(ev.rows), LAMBDA k : RowOk(ev.rows[k]))
    IN IF b = 0 THEN {} ELSE {V("P_StepIterLaws", "None", key \o (IF isX THEN ":x" ELSE ":y"), [row |-> ev.rows[b], w |-> v.w, h |-> v.h])}

\* ---- views without addresses (virtual locators, dereference adaptors): pixels carry Gen of the base coordinates
VViewVerdict(ev) ==
    LET d   == ChainDims(ev.ops, ev.w, ev.h)
        off == IF ev.kind = "virtcc" THEN 100000 ELSE 0
        exp == P_ChainVals(ev.ops, ev.w, ev.h, off)
        chain == IF ev.ops = <<>> THEN "base" ELSE IF Len(ev.ops) = 1 THEN ev.ops[1].op
                 ELSE IF Len(ev.ops) = 2 THEN ev.ops[1].op \o ">" \o ev.ops[2].op ELSE ev.ops[1].op \o ">" \o ev.ops[2].op \o ">" \o ev.ops[3].op
        key == ev.kind \o "/" \o chain
        ctx == [w |-> ev.w, h |-> ev.h, ops |-> ev.ops]
        path(name, got) == IF got # exp THEN {V("P_SamePixel", "None", key \o ":" \o name, [ctx |-> ctx, expected |-> exp, got |-> got])} ELSE {}
    IN IF <<ev.rw, ev.rh>> # d \/ ev.size # d[1] * d[2]
       THEN {V("P_Dims", "None", key, [ctx |-> ctx, expected |-> d, got |-> <<ev.rw, ev.rh, ev.size>>])}
       ELSE (IF ev.p_xy # exp THEN {V("P_Map", "None", key, [ctx |-> ctx, expected |-> exp, got |-> ev.p_xy])} ELSE {})
            \cup (IF ev.p_xy = exp
                  THEN path("row_begin", ev.p_row) \cup path("col_begin", ev.p_col) \cup path("begin[]", ev.p_it1d) \cup path("at", ev.p_at)
                       \cup path("rbegin", ev.p_rbegin) \cup path("xy_at", ev.p_xyat) \cup path("x_at", ev.p_xat) \cup path("y_at", ev.p_yat)
                       \cup path("it+=", ev.p_itadv) \cup path("loc+=", ev.p_locmove) \cup path("cache_location", ev.p_cache)
                       \cup path("axis++", ev.p_axis) \cup path("begin..end", ev.p_loop)
                       \cup path("assigned-view", ev.p_assigned) \cup path("assigned-iterator", ev.p_assigned_it)
                       \* a derived view stored by assignment is still the derived view (C02: its pixels are those of the formula)
                       \cup (IF ev.p_assigned # exp \/ ev.p_assigned_it # exp
                             THEN {V("P_Map", "None", key \o ":assigned", [ctx |-> ctx, expected |-> exp, got |-> ev.p_assigned, got_it |-> ev.p_assigned_it])} ELSE {})
                  ELSE {})
            \cup (IF ev.size1d # d[1] * d[2] THEN {V("P_Size1D", "None", key, [ctx |-> ctx, got |-> ev.size1d])} ELSE {})
            \cup (IF ev.bad_assoc + ev.bad_back + ev.bad_dist + ev.bad_order + ev.bad_incdec > 0
                  THEN {V("P_IterLaws", "None", key, [ctx |-> ctx, assoc |-> ev.bad_assoc, back |-> ev.bad_back, dist |-> ev.bad_dist, order |-> ev.bad_order, incdec |-> ev.bad_incdec, of |-> ev.nlaw])} ELSE {})
            \cup (IF ev.bad_axis > 0 THEN {V("P_StepIterLaws", "None", key, [ctx |-> ctx, bad |-> ev.bad_axis])} ELSE {})
            \* a view that claims to be 1-D traversable must deliver its rows back to back through the x iterator (checked by begin..end above
            \* for the positional iterator; here: a dereference adaptor over padded or stepped memory must not claim it)

Verdict(ev) ==
    CASE ev.e = "View"   -> ViewVerdict(ev)
      [] ev.e = "ItLaw"  -> ItLawVerdict(ev)
      [] ev.e = "XItLaw" -> StepLawVerdict(ev, TRUE)
      [] ev.e = "YItLaw" -> StepLawVerdict(ev, FALSE)
      [] ev.e = "VView"  -> VViewVerdict(ev)
      [] ev.e = "Fault"  -> {V("P_NoFault", "None", IF l > 1 /\ Tr[l - 1].e = "VView" THEN "value-views" ELSE cfg, ev.kind)}
      [] ev.e \in {"Try", "Root", "End"} -> {}
      [] OTHER -> {V("UnknownEvent", "None", ev.e, l)}

Init == l = 1 /\ bad = <<>> /\ drift = <<>> /\ nchk = 0 /\ root = NoRoot /\ views = <<>> /\ cfg = "none"
Step == /\ l <= NTr
        /\ LET ev == Tr[l] IN
           /\ bad' = MergeBad(bad, l, Verdict(ev))
           /\ root' = IF ev.e = "Root" THEN ev ELSE root
           /\ cfg' = IF ev.e = "Try" THEN ev.kind \o "/" \o ToString(ev.w) \o "x" \o ToString(ev.h) \o "/a" \o ToString(ev.align) ELSE cfg
           /\ views' = IF ev.e = "Root" THEN <<>>
                       ELSE IF ev.e = "View" THEN
                            [i \in (DOMAIN views) \cup {ev.id} |->
                                IF i = ev.id THEN [w |-> ev.w, h |-> ev.h, map |-> ev.map, cm |-> ev.cm, nch |-> ev.nch] ELSE views[i]]
                       ELSE views
           /\ nchk' = nchk + (IF ev.e \in {"View", "ItLaw", "XItLaw", "YItLaw", "VView"} THEN 1 ELSE 0)
        /\ drift' = drift
        /\ l' = l + 1
Fin  == /\ l = NTr + 1 /\ WriteOut(bad, drift, nchk) /\ l' = l + 1 /\ UNCHANGED <<bad, drift, nchk, root, views, cfg>>
Next == Step \/ Fin
Spec == Init /\ [][Next]_vars
=============================================================================
