--------------------------- MODULE Trace_Written ---------------------------
(* Extension X05: a file written by GIL's writers decodes, with an INDEPENDENT *)
(* decoder (libpng / libtiff / libjpeg called directly by the driver), to the   *)
(* pixels of the view that was written.  Lossless formats: identical; JPEG of a *)
(* constant image at maximum quality: within one level (the bound C12 states).  *)
EXTENDS TraceBase
VARIABLES l, bad, drift, nchk
vars == <<l, bad, drift, nchk>>

AbsD(a, b) == IF a >= b THEN a - b ELSE b - a
P_SameDims(ev) == ev.dw = ev.w /\ ev.dh = ev.h
P_Lossless(ev) == ev.dec = ev.src
P_WithinOne(ev) == Len(ev.dec) = Len(ev.src) /\ \A i \in 1..Len(ev.src) : AbsD(ev.dec[i], ev.src[i]) <= 1

WrittenVerdict(ev) ==
    LET key == ev.fmt \o ":" \o ev.type \o ":" \o ev.variant IN
    IF ~ev.decoded THEN {V("X_IndependentDecoderAccepts", "None", key, [w |-> ev.w, h |-> ev.h])}
    ELSE (IF P_SameDims(ev) THEN {} ELSE {V("X_WrittenDims", "None", key, [written |-> <<ev.w, ev.h>>, decoded |-> <<ev.dw, ev.dh>>])})
    \cup (IF ~P_SameDims(ev) \/ (IF ev.fmt = "jpg" THEN P_WithinOne(ev) ELSE P_Lossless(ev)) THEN {}
          ELSE {V("X_WrittenPixels", "None", key, [w |-> ev.w, h |-> ev.h, channels |-> ev.nc, decoded_channels |-> ev.dnc, bits |-> ev.dbits])})
Verdict(ev) ==
    CASE ev.e = "Written" -> WrittenVerdict(ev)
      [] ev.e = "Fault" -> {V("X_NoFault", "None", "written", ev.kind)}
      [] ev.e = "End" -> {}
      [] OTHER -> {V("UnknownEvent", "None", ev.e, l)}
Init == l = 1 /\ bad = <<>> /\ drift = <<>> /\ nchk = 0
Step == /\ l <= NTr /\ bad' = MergeBad(bad, l, Verdict(Tr[l])) /\ nchk' = nchk + (IF Tr[l].e = "End" THEN 0 ELSE 1) /\ drift' = drift /\ l' = l + 1
Fin  == /\ l = NTr + 1 /\ WriteOut(bad, drift, nchk) /\ l' = l + 1 /\ UNCHANGED <<bad, drift, nchk>>
Next == Step \/ Fin
Spec == Init /\ [][Next]_vars
=============================================================================
