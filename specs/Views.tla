-------------------------------- MODULE Views --------------------------------
(***************************************************************************)
(* Image storage, views and view transformations (C01, C02).               *)
(*                                                                         *)
(* P_ layer: the documented coordinate formulas and dimensions of every    *)
(* view factory, and what "inside the storage" means.                      *)
(* I_ layer: the memory descriptors [org, xs, ys, w, h] (in memory units:  *)
(* bytes, or bits for bit-aligned pixels) the factories of                 *)
(* image_view_factory.hpp compute, and the allocation arithmetic of        *)
(* image.hpp.                                                              *)
(***************************************************************************)
EXTENDS GilInt

Ops0 == {"flipUD", "flipLR", "transposed", "rot90cw", "rot90ccw", "rot180"}

\* dimensions of op(v) for a source of w x h
P_Dims(op, args, w, h) ==
    CASE op \in {"flipUD", "flipLR", "rot180", "nthch", "kthch", "ccv", "same"} -> <<w, h>>
      [] op \in {"transposed", "rot90cw", "rot90ccw"} -> <<h, w>>
      [] op = "subimage"   -> <<args[3], args[4]>>
      [] op = "subsampled" -> <<CeilDiv(w, args[1]), CeilDiv(h, args[2])>>

\* source coordinates of pixel (x,y) of op(v)
P_Src(op, args, w, h, x, y) ==
    CASE op = "flipUD"     -> <<x, h - 1 - y>>
      [] op = "flipLR"     -> <<w - 1 - x, y>>
      [] op = "transposed" -> <<y, x>>
      [] op = "rot90cw"    -> <<y, h - 1 - x>>
      [] op = "rot90ccw"   -> <<w - 1 - y, x>>
      [] op = "rot180"     -> <<w - 1 - x, h - 1 - y>>
      [] op = "subimage"   -> <<args[1] + x, args[2] + y>>
      [] op = "subsampled" -> <<x * args[1], y * args[2]>>
      [] op \in {"nthch", "kthch", "ccv", "same"} -> <<x, y>>

\* a valid application (preconditions of the factories)
P_OpValid(op, args, w, h) ==
    CASE op = "subimage"   -> args[1] >= 0 /\ args[2] >= 0 /\ args[3] >= 0 /\ args[4] >= 0
                              /\ args[1] + args[3] <= w /\ args[2] + args[4] <= h
      [] op = "subsampled" -> args[1] >= 1 /\ args[2] >= 1
      [] OTHER -> TRUE

-----------------------------------------------------------------------------
(* Implementation-shaped layer: memory descriptors                         *)
Desc(org, xs, ys, w, h) == [org |-> org, xs |-> xs, ys |-> ys, w |-> w, h |-> h]
AddrOf(d, x, y) == d.org + x * d.xs + y * d.ys

I_Apply(op, args, d) ==
    CASE op = "flipUD"     -> Desc(AddrOf(d, 0, d.h - 1), d.xs, -d.ys, d.w, d.h)
      [] op = "flipLR"     -> Desc(AddrOf(d, d.w - 1, 0), -d.xs, d.ys, d.w, d.h)
      [] op = "transposed" -> Desc(d.org, d.ys, d.xs, d.h, d.w)
      [] op = "rot90cw"    -> Desc(AddrOf(d, 0, d.h - 1), -d.ys, d.xs, d.h, d.w)
      [] op = "rot90ccw"   -> Desc(AddrOf(d, d.w - 1, 0), d.ys, -d.xs, d.h, d.w)
      [] op = "rot180"     -> Desc(AddrOf(d, d.w - 1, d.h - 1), -d.xs, -d.ys, d.w, d.h)
      [] op = "subimage"   -> Desc(AddrOf(d, args[1], args[2]), d.xs, d.ys, args[3], args[4])
      [] op = "subsampled" -> Desc(d.org, d.xs * args[1], d.ys * args[2],
                                   (d.w + args[1] - 1) \div args[1], (d.h + args[2] - 1) \div args[2])

\* image.hpp allocation arithmetic.  psz: memory units per pixel (per channel for planar),
\* upb: memory units per byte (1, or 8 for bit-aligned), planes, align in bytes (0 = none)
I_RowSize(w, psz, upb, align) == IF align > 0 THEN Align(w * psz, align * upb) ELSE w * psz
I_AllocBytes(w, h, psz, upb, planes, align) ==
    CeilDiv(I_RowSize(w, psz, upb, align) * h * planes, upb) + (IF align > 0 THEN align - 1 ELSE 0)
\* first pixel: the allocation address rounded up to the alignment; a0 = address mod align
I_FirstByte(a0, align) == IF align > 0 THEN (align - (a0 % align)) % align ELSE 0

\* P_: every memory unit of every pixel (all planes) lies inside [0, size) bytes
P_PixelInside(d, x, y, psz, upb, planes, planesize, sizeBytes) ==
    \A p \in 0..(planes - 1) :
        LET a == AddrOf(d, x, y) + p * planesize IN a >= 0 /\ a + psz <= sizeBytes * upb
-----------------------------------------------------------------------------
(* Chains of factories applied left to right to a w x h base view: dimensions *)
(* of the result and, for its pixel (x,y), the coordinates in the base view.  *)
(* Used for view kinds that have no addresses (virtual locators, dereference  *)
(* adaptors): their pixels carry Gen(x,y) of the base coordinates.            *)
Gen(x, y) == 7 + x + 100 * y
RECURSIVE ChainDims(_, _, _)
ChainDims(ops, w, h) == IF ops = <<>> THEN <<w, h>>
                        ELSE LET o == Head(ops)  d == P_Dims(o.op, o.args, w, h) IN ChainDims(Tail(ops), d[1], d[2])
RECURSIVE ChainSrc(_, _, _, _, _)
ChainSrc(ops, w, h, x, y) ==
    IF ops = <<>> THEN <<x, y>>
    ELSE LET n == Len(ops)
             front == SubSeq(ops, 1, n - 1)
             o == ops[n]
             d == ChainDims(front, w, h)
             s == P_Src(o.op, o.args, d[1], d[2], x, y)
         IN ChainSrc(front, w, h, s[1], s[2])
P_ChainVals(ops, w, h, offset) == LET d == ChainDims(ops, w, h) IN
    [i \in 1..(d[1] * d[2]) |-> LET s == ChainSrc(ops, w, h, (i - 1) % d[1], (i - 1) \div d[1]) IN Gen(s[1], s[2]) + offset]

=============================================================================
