#!/usr/bin/env python3
"""Regenerates /verif/MANIFEST.json from the claim table below (kept in one place so the manifest is always valid)."""
import json, os
V = os.path.dirname(os.path.dirname(os.path.abspath(__file__)))
TECH = 'TLA+ specification model-checked with TLC + trace validation of recorded implementation behaviour against the specification'
CLAIMS = {
 'C06': ('channel_convert: TLC model-checks the implementation-shaped converter case split against the property layer for every source value of every ordered pair of <=16-bit channel models (I => P), and the complete function tables recorded from the real channel_convert (all pairs of 20 narrow models; stratified 32-bit/float) are validated by TLC against the property layer of specs/Channel.tla.',
         'Trusted: TLC, the table dumper harness/c06_channel.cpp (public API only), shifted-unsigned logging. 32-bit and float models are stratified, not exhaustive; float tolerance 2^-22 of range.', '4 C06'),
 'C07': ('channel_multiply / channel_invert: TLC scans all operand pairs of the implementation-shaped multiplier for widths up to 8 (quick) / 10 (thorough) bits against the property layer, and tables recorded from the real functions (all pairs for <=8-bit models, structured+seeded operands for 9..16 bits, dyadic floats, complete invert tables) are validated by TLC.',
         'The 2^32 pair space of 16-bit multiply is sampled, not enumerated (stated in evidence). Within-one-unit is read inclusively.', '4 C07'),
 'C08': ('Packed / bit-aligned writes: TLC explores the implementation-shaped bit-cursor machine (every ++/--/advance sequence tracks the ideal bit position; n then -n is the identity; distance = pixels moved) and the channel read-modify-write machine over every content of a 12-bit (quick) / 16-bit (thorough) field, and every recorded operation of the real packed_pixel / bit_aligned_pixel_reference / bit_aligned_pixel_iterator (full before/after byte images, buffers flush against inaccessible pages) is validated by TLC against the "exactly these bits" layer of specs/PackedBits.tla.',
         'Little-endian host. Faults are observed through guard pages, ASan and UBSan; configurations are an explicit list (20 bit-aligned, 8 packed). One open known finding (packed_pixel value copy overwrites unused bits).', '4 C08'),
 'C01': ('Storage bounds: TLC explores the allocation arithmetic of image.hpp and the memory descriptors of every view factory for every shape, alignment, pixel organisation, allocator address residue and composition up to depth 2 (quick) / 3 (thorough) and checks that every pixel (all planes) lies inside the allocation; the address of every pixel of every view of real images (created / copied / assigned / recreated through a tracking allocator) and of views over exact caller buffers flush against inaccessible pages is recorded and validated by TLC against the block bounds, and every pixel is touched through the accessors and pixel algorithms under ASan/UBSan/guard pages.',
         'Explicit list of 16 pixel organisations; accesses that are neither an address we log nor trapped by ASan/guard pages are not seen. NDEBUG build; UBSan null/pointer-overflow checks disabled because empty views do arithmetic on null pointers without touching memory.', '4 C01'),
 'C02': ('View algebra: TLC checks on every reachable composition that the implementation-shaped descriptor addresses exactly the root pixel named by the documented coordinate formulas, with the documented dimensions, plus the algebraic identities; for the real library every derived view\'s pixel (and channel) addresses are validated by TLC against its source view through the documented formula (dims, map), and a single write through each pixel of each mutable view must change exactly the bits of that pixel (byte-level xor of the whole block).',
         'Address-based: covers pointer, planar, step, packed and bit-aligned locators. Dereference-adaptor (color_converted) and virtual locators have no addresses and are covered by value tags in the C09/C14 drivers only.', '4 C02'),
 'C03': ('Navigation: TLC explores every bounded sequence of ++/--/+=d of the implementation-shaped 1-D iterator over every shape (carry arithmetic with C++ / and %), the step-iterator ordering rule and 1-D traversability against the ideal linear-index model; for the real library the address reached through 12 access paths (view(x,y), row_begin[x], col_begin[y], begin()[i], at, rbegin, xy_at, x_at, y_at, it+=i, moved locator, cached location, axis iterators) is validated to be the same pixel for every view, and the random-access laws of the 1-D and x/y step iterators are validated for every start and offsets crossing row ends.',
         'Same organisations and compositions as C01/C02 (depth <= 2); locator move sequences are single 2-D moves plus axis-iterator walks, not arbitrary sequences.', '4 C03'),
 'C04': ('Pixel algorithms: TLC checks that the 1-D-traversable dispatch of fill/copy touches exactly the slots of the per-pixel loop for every pair of view descriptors (sizes, paddings, step signs, offsets), and every recorded call of copy / copy_and_convert / generate / fill / for_each(+position) / transform with 1 and 2 sources (+position) / equal on real views of 27 compatible organisation pairs x 3 view classes is validated by TLC: the whole destination buffer after the call must equal the bit-exact per-pixel loop applied to the buffer before (channels paired by colour; everything else is a frame condition), functors are called once per pixel in row-major order, the source is untouched and equal_pixels returns the per-pixel answer. Every (pair, class, algorithm group) is first an instantiation probe, so a combination that stops compiling is an observed violation.',
         'Organisation pairs / view classes are an explicit table (harness/c04_cases.py). NDEBUG build. Unused bits inside a destination packed pixel are not constrained (they are inside the destination pixels). Float organisations use finite positive floats only (bitwise-comparable assumption).', '4 C04'),
 'C10': ('image container protocol: TLC explores every history of public operations (construct, copy, move, assign, recreate with and without allocator, swap, destroy) up to 3 (quick) / 4 (thorough) calls over two handles with propagating and non-propagating allocator traits and an allocation failure injected at every allocating call, checking no leak / no double free / free with the allocation size and an equal allocator / element balance / sufficiently sized blocks in every state; the histories themselves are exported by TLC (BFS: all of length 2 / 3, plus seeded simulated histories of 6 / 9 calls), replayed on real gil::image objects over a tracking allocator and a counting element type, and every allocator event and the projected state after every call are validated by TLC against the same invariants plus requested dimensions, row alignment, storage reuse, deep-copy equality / non-aliasing and exception propagation.',
         'Element-constructor failures are not injected. Ownership of an EMPTY image\'s retained block is not observable: leaks are detected as more live blocks than live images and at quiescence. One open known finding (unequal non-propagating allocators).', '4 C10'),
}
NA_REASON = {}
HOOK_COMMITS = []

def main():
    props = [json.loads(l) for l in open(os.path.join(V, 'properties.jsonl'))]
    checks = []
    for pid, (text, note, ref) in sorted(CLAIMS.items()):
        checks.append({'property_id': pid, 'quick_cmd': 'tools/check %s --tier quick' % pid, 'thorough_cmd': 'tools/check %s --tier thorough' % pid,
                       'evidence_file': '/verif/evidence/%s.json' % pid, 'replay_cmd_template': 'tools/check %s --replay {path}' % pid,
                       'engine': 'tlc-trace', 'level_claimed': {'category': 'model_checking', 'text': text, 'design_ref': 'DESIGN.md section ' + ref},
                       'level_note': note, 'technique': TECH})
    na = [{'property_id': p['id'], 'reason': NA_REASON.get(p['id'], 'not yet covered by the machinery in this commit (work in progress; see DESIGN.md section 8 for the order)')}
          for p in props if p['id'] not in CLAIMS]
    m = {'version': 1, 'setup_cmd': 'make -C harness -j16 prebuild',
         'hooks': {'guard': 'BOOST_GIL_VERIF_HOOKS', 'enable': 'harness/Makefile compiles every driver with -DBOOST_GIL_VERIF_HOOKS against /repo/include',
                   'baseline_off_cmd': 'cmake --build /repo/_build -j16 && ctest --test-dir /repo/_build -j8 --timeout 900',
                   'source_commits': HOOK_COMMITS, 'add_only': True},
         'engines': [{'name': 'tlc-trace', 'path': 'tools/check', 'serves_properties': sorted(CLAIMS),
                      'kind_free_text': 'TLC model checking of specs/*.tla plus TLC trace validation of ndjson traces recorded from C++ harnesses built against /repo'}],
         'checks': checks, 'not_applicable': na,
         'notes': 'Exit 0 held / 1 VIOLATION / 2 infrastructure failure. known_findings.json lists open findings and fixed defects. seeded/ holds confirmed seeded changes.'}
    json.dump(m, open(os.path.join(V, 'MANIFEST.json'), 'w'), indent=1)

main()
