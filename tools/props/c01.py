"""C01 pixel access stays inside the image's storage: MC of Views.tla (allocation arithmetic + view descriptors for every
shape/alignment/organisation/composition) and validation of the recorded address of every pixel of every view of real
images (tracking allocator) and of views over guard-paged caller buffers; every pixel is also touched through
the accessors and algorithms under ASan/UBSan/guard pages."""
import json
OWN = {'P_InBounds', 'P_NoFault', 'UnknownEvent'}

def keyfn_factory():
    st = {'root': None}
    def k(ev):
        if ev['e'] == 'Root':
            st['root'] = (ev['kind'], ev['how'], ev['w'], ev['h'], ev['align'])
        if ev['e'] == 'View' and ev['w'] * ev['h'] > 0:
            return (st['root'], ev['op'], tuple(ev['args']), ev['src'])
        return None
    return k

def run(ctx, mode='views', own=OWN):
    exe, = ctx.build(['c01_views.nsan'], timeout=3000)
    ctx.mc('MC_Views', 'MC_Views_%s.cfg' % ctx.tier, timeout=6000, heap='24g')
    if mode == 'nav':
        ctx.mc('MC_Navigation', 'MC_Navigation_%s.cfg' % ctx.tier, timeout=6000)
    traces = ctx.record(exe, [mode] if mode != 'views' else [], shards=48 if (ctx.thorough and mode == 'nav') else 16, timeout=3000)
    if own is not OWN:
        # C02 / C03 also quantify over views that have no addresses (virtual locators, dereference adaptors): by value
        vexe, = ctx.build(['c02_values.nsan'], timeout=3000)
        traces += ctx.record(vexe, [], shards=4, name='trace-values', timeout=3000)
    ctx.validate('Trace_Views', traces, timeout=3000)
    ctx.own = own
    kf = keyfn_factory()
    def k(ev):
        if ev['e'] == 'VView' and ev['rw'] * ev['rh'] > 0:
            return ('VView', ev['kind'], ev['w'], ev['h'], json.dumps(ev['ops']))
        return kf(ev)
    ctx.scan(traces, k, trim=300)
    ctx.rule = ('for 16 pixel organisations (interleaved 8/16/32f, planar, packed, bit-aligned 1..16 bits) x every shape 0..4 (quick) / 0..5 (thorough) '
                'x alignments: images created / copied / assigned / recreated (grow, shrink, realign) through a tracking allocator, and interleaved/planar views '
                'over caller buffers of exactly h x rowbytes flush against inaccessible pages; every composition of flip/rotate/transpose/subimage/subsample/'
                'nth_channel up to depth 2; one event per view with the address of every pixel (and channel). For C02/C03 additionally one VView event per '
                '(virtual_2d_locator view | color_converted_view over an rgb16 image | color_converted_view over a virtual view) x base shape <= 4x3 / 4x4 x chain of up to 2 / 3 factories, '
                'with the value (= base coordinates) reached through every accessor and the 1-D / axis iterator laws. Non-trivial = non-empty view; '
                'distinct = distinct (root configuration, op, args, source view).')
    ctx.exhaustive = False
    ctx.assumptions += ['release-mode (NDEBUG) build of the driver so that assertions cannot mask accesses; ASan + UBSan (minus null/pointer-overflow checks on empty views) + guard pages observe accesses',
                        'addresses are logged relative to the block obtained from the allocator']

def replay(ctx, path):
    ctx.validate('Trace_Views', [path])
    ctx.own = OWN
