"""C02 view transformations are exact, copy-free coordinate remappings (shares driver and trace spec with C01)."""
from props import c01
OWN = {'P_Dims', 'P_Map', 'P_Shallow', 'P_NoFault', 'UnknownEvent'}

def run(ctx):
    c01.run(ctx, 'views', OWN)
    ctx.assumptions.append('virtual and dereference-adaptor locators have no addresses: they are covered by value (pixels carry their base coordinates), without the shallow-write clause (they are read-only)')

def replay(ctx, path):
    ctx.validate('Trace_Views', [path])
    ctx.own = OWN
