"""C02 view transformations are exact, copy-free coordinate remappings (shares driver and trace spec with C01)."""
from props import c01
OWN = {'P_Dims', 'P_Map', 'P_Shallow', 'P_NoFault', 'UnknownEvent'}

def run(ctx):
    c01.run(ctx, 'views', OWN)
    ctx.assumptions.append('virtual / dereference-adaptor locators are covered by value tags in the C14/C09 drivers, not by addresses here')

def replay(ctx, path):
    ctx.validate('Trace_Views', [path])
    ctx.own = OWN
