"""C03 all navigation paths reach the same pixel; iterator laws (driver in nav mode)."""
from props import c01
OWN = {'P_SamePixel', 'P_IterLaws', 'P_StepIterLaws', 'P_Size1D', 'P_1DTraversable', 'P_NoFault', 'UnknownEvent', 'P_CursorAdvance'}

def run(ctx):
    c01.run(ctx, 'nav', OWN)

def replay(ctx, path):
    ctx.validate('Trace_Views', [path])
    ctx.own = OWN
