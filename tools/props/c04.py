"""C04 pixel algorithms equal the per-pixel loop and nothing else.
1. compile probes: every (organisation pair, view class pair, algorithm group) of harness/c04_cases.py is an explicit
   instantiation compiled with -fsyntax-only; the outcome is an observed event (P_Total).
2. the instantiable cases are generated into driver translation units, built with ASan/UBSan, run, and every algorithm call
   (whole buffers before/after, channel bit fields of every pixel) is validated by TLC against PixelAlgo.tla."""
import os, sys, json, subprocess, hashlib
from concurrent.futures import ThreadPoolExecutor
sys.path.insert(0, os.path.join(os.path.dirname(os.path.abspath(__file__)), '..', '..', 'harness'))
import c04_cases
import vlib

NPARTS = 12

def probe(ctx, case):
    name, os_, od, cs, cd, g = case
    src = '#include "c04_algo.hpp"\ntemplate void c04::run_case<%s, %s, %s, %s, %d>(const char*);\n' % (os_, od, cs, cd, g)
    ok, out = ctx.try_compile('p_' + hashlib.md5(name.encode()).hexdigest()[:12], src)
    return name, ok, out

def run(ctx):
    cases = c04_cases.cases()
    t0 = __import__('time').time()
    with ThreadPoolExecutor(max_workers=vlib.NCPU) as ex:
        res = list(ex.map(lambda c: probe(ctx, c), cases))
    okcases = [c for c, r in zip(cases, res) if r[1]]
    vlib.log('[probe] %d instantiation probes, %d compile, %.1fs' % (len(cases), len(okcases), __import__('time').time() - t0))
    # compile-outcome trace
    ptrace = os.path.join(ctx.dir, 'trace-probes.ndjson')
    with open(ptrace, 'w') as f:
        for (name, ok, out) in res:
            msg = ''
            if not ok:
                errs = [l for l in out.split('\n') if 'error' in l]
                msg = (errs[0] if errs else out[-200:])[-220:]
            f.write(json.dumps({'e': 'Compiles', 'case': name, 'group': int(name[-1]), 'ok': ok, 'msg': msg}) + '\n')
        f.write(json.dumps({'e': 'End', 'events': len(res)}) + '\n')
    # generate driver parts
    gen = os.path.join(vlib.HARNESS, 'gen')
    os.makedirs(gen, exist_ok=True)
    parts = [[] for _ in range(NPARTS)]
    for i, c in enumerate(okcases):
        parts[i % NPARTS].append(c)
    targets = []
    for k, cs in enumerate(parts):
        body = '#include "c04_algo.hpp"\nint main(int argc, char** argv) {\n  vt::Args args(argc, argv); c04::A = &args; vt::install_handlers(); vt::T().open(args.out.c_str());\n'
        for (name, os_, od, cls, cld, g) in cs:
            body += '  c04::run_case<%s, %s, %s, %s, %d>("%s");\n' % (os_, od, cls, cld, g, name)
        body += '  vt::J("End").num("events", vt::T().events).emit(); vt::T().close(); return 0;\n}\n'
        path = os.path.join(gen, 'c04_part%02d.cpp' % k)
        if not os.path.exists(path) or open(path).read() != body:
            open(path, 'w').write(body)
        targets.append('c04_part%02d.nsan' % k)
    exes = ctx.build(targets, timeout=3000)
    # image == / != of real image types: if the tree no longer instantiates it, that is an observed outcome (P_Total), not an infrastructure error
    try:
        eqexe, = ctx.build(['c04_imgeq.nsan'])
    except vlib.Infra:
        ok, out = ctx.try_compile('p_imgeq', open(os.path.join(vlib.HARNESS, 'c04_imgeq.cpp')).read().replace('"lib/', '"' + vlib.HARNESS + '/lib/'))
        if ok:
            raise
        errs = [l for l in out.split('\n') if 'error' in l]
        with open(ptrace, 'r+') as f:
            lines = [l for l in f.read().split('\n') if l.strip()]
            lines.insert(len(lines) - 1, json.dumps({'e': 'Compiles', 'case': 'image==image/g3', 'group': 3, 'ok': False, 'msg': (errs[0] if errs else out[-200:])[-220:]}))
            f.seek(0); f.truncate(); f.write('\n'.join(lines) + '\n')
        eqexe = None
    ctx.mc('MC_PixelAlgo', 'MC_PixelAlgo_%s.cfg' % ctx.tier)
    traces = [ptrace]
    t0 = __import__('time').time()
    def rec(i):
        out = os.path.join(ctx.dir, 'trace-%02d.ndjson' % i)
        ctx.run_harness(exes[i], [], out, timeout=3000)
        return out
    with ThreadPoolExecutor(max_workers=vlib.NCPU) as ex:
        traces += list(ex.map(rec, range(len(exes))))
    vlib.log('[record] %d driver parts, %.1f MB, %.1fs' % (len(exes), sum(os.path.getsize(t) for t in traces) / 1e6, __import__('time').time() - t0))
    if eqexe:
        traces += ctx.record(eqexe, [], shards=2, name='trace-imgeq')
    ctx.validate('Trace_PixelAlgo', traces, timeout=3000)
    def k(ev):
        if ev['e'] == 'Algo' and ev['w'] * ev['h'] > 0:
            return (ev['algo'], ev['case'], ev['sshape'], ev['dshape'], ev['w'], ev['h'], ev.get('px', -1), ev.get('py', -1))
        if ev['e'] == 'ImgEq':
            return ('imgeq', ev['type'], ev['w1'], ev['h1'], ev['w2'], ev['h2'], ev['variant'])
        if ev['e'] == 'Compiles':
            return ('compiles', ev['case'])
        return None
    ctx.scan(traces, k, trim=300)
    ctx.extra['instantiation_probes'] = len(cases)
    ctx.extra['instantiable'] = len(okcases)
    ctx.rule = ('one event per algorithm call (copy, copy_and_convert, generate, fill, for_each(+position), transform with 1 and 2 sources (+position), equal) for '
                '27 compatible organisation pairs (interleaved / planar / packed / bit-aligned, rgb/bgr/rgba/abgr) x view classes (pointer views: contiguous, padded, '
                'sub-view; step views: flipLR, flipUD, subsampled; transposed: transposed, rot90) x sizes 0..4 x 0..3 with random contents; equality additionally with a '
                'single differing pixel at every position; plus one event per instantiation probe. Non-trivial = non-empty view; distinct = distinct '
                '(algorithm, case, shapes, size, differing pixel).')
    ctx.exhaustive = False
    ctx.assumptions += ['release-mode (NDEBUG) build: on empty views for_each_pixel_position / transform_pixel_positions call xy_at(0,0), whose BOOST_ASSERT fires in debug builds only',
                        'float pixels are compared bitwise (no -0.0 / NaN special cases: random bytes may form NaNs, so equality events of float organisations are limited to copied data)',
                        'channel values are transferred as bit fields; channels wider than 16 bits are split into 16-bit fields']

def replay(ctx, path):
    ctx.validate('Trace_PixelAlgo', [path])
