"""C05 pixel operations pair channels by colour: MC of ColorBase.tla (all pairs/triples of channel mappings up to 4/5 channels) and
validation of recorded construction / assignment / equality / channel access / static_* events of every pixel model."""

def run(ctx):
    exe, = ctx.build(['c05_colorbase_t.san' if ctx.thorough else 'c05_colorbase.san'], timeout=3000)
    ctx.mc('MC_ColorBase', 'MC_ColorBase_%s.cfg' % ctx.tier, timeout=3000)
    traces = ctx.record(exe, [], shards=8)
    ctx.validate('Trace_ColorBase', traces)
    def k(ev):
        if ev['e'] == 'Assign' and ev['smap'] != ev['dmap'] or ev['e'] == 'Assign' and ev['src'] != ev['dst']:
            return (ev['how'], ev['src'], ev['dst'], tuple(ev['sphys']))
        if ev['e'] == 'Access':
            return ('access', ev['model'])
        if ev['e'] == 'Static':
            return (ev['op'], ev['models'], tuple(ev['p1']), tuple(ev.get('p2', [])))
        return None
    ctx.scan(traces, k, trim=300)
    ctx.rule = ('one event per (assignment | converting construction) between two pixel objects with distinct channel values, for every ordered pair of: the 6 '
                'permutation layouts of rgb (pixel values), 8 rgba layouts incl. the 4 provided x the 4 provided (both directions), planar references <-> every layout, '
                'packed 4-4-4 / 4-4-4-4 pixels and bit-aligned references in rgb/bgr/rgba/abgr/argb/bgra orders; one event per model for at_c / semantic_at_c / get_color / '
                'operator[]; one event per static_* algorithm over layout triples. Physical values are read from raw memory. Non-trivial = different models or layouts; '
                'distinct = distinct (operation, models, values).')
    ctx.exhaustive = False
    ctx.assumptions += ['a layout is identified with its channel_mapping_type (the definition of the layout, an input)',
                        'little-endian bit numbering for packed / bit-aligned physical channels']

def replay(ctx, path):
    ctx.validate('Trace_ColorBase', [path])
