"""C06 channel_convert: MC of Channel.tla (I => P on all pairs of <=16-bit models) + complete function tables
of the real channel_convert validated by Trace_Channel.tla."""

def keyfn(ev):
    if ev['e'] == 'Conv' and ev['s']['name'] != ev['d']['name']:
        return 'T:%s->%s%s' % (ev['s']['name'], ev['d']['name'], ev.get('via', ''))
    if ev['e'] == 'ConvW':
        return 'W:%s->%s' % (ev['s']['name'], ev['d']['name'])
    return None

def run(ctx):
    exe, = ctx.build(['c06_channel.fast'])
    ctx.mc('MC_Channel', 'MC_Channel_%s.cfg' % ctx.tier)
    traces = ctx.record(exe, ['conv'], shards=16)
    ctx.validate('Trace_Channel', traces)
    entries = [0]
    def k(ev):
        if 'tbl' in ev: entries[0] += len(ev['tbl'])
        if 'vs' in ev: entries[0] += len(ev['vs'])
        return keyfn(ev)
    ctx.scan(traces, k, trim=200)
    ctx.extra['table_entries_checked'] = entries[0]
    ctx.rule = ('one event per ordered pair of channel models carrying the COMPLETE function table of channel_convert '
                '(every source value; <=16-bit models) or a sorted stratified sample (32-bit / float: boundaries, powers of two +-2, '
                'k/4096, k/255 +-1ulp, seeded random); non-trivial = ordered pair of two different models; distinct = distinct pair')
    ctx.exhaustive = ctx.thorough
    ctx.assumptions += ['values logged in shifted-unsigned form v-min (the documented signed shift)',
                        'float32 values logged as round(x*2^30); tolerance 2^-22 of full range where a float or 32-bit model is involved',
                        'quick tier: all pairs of <=8-bit models complete, selected 16-bit pairs; thorough: all 20x20 pairs of <=16-bit models complete']

def replay(ctx, path):
    ctx.validate('Trace_Channel', [path])
