"""C07 channel_multiply / channel_invert: MC of Channel.tla multiply scan + tables of the real functions."""

def run(ctx):
    exe, = ctx.build(['c06_channel.fast'])
    ctx.mc('MC_Channel', 'MC_Channel_%s.cfg' % ctx.tier)
    traces = ctx.record(exe, ['mul'], shards=16)
    ctx.validate('Trace_Channel', traces)
    cnt = {'pairs': 0, 'inv': 0}
    def k(ev):
        if ev['e'] in ('Mul', 'MulW'):
            cnt['pairs'] += 2 * len(ev['bs'])
            return 'M:%s:%s' % (ev['m']['name'], ev['a'])
        if ev['e'] in ('Inv', 'InvW'):
            cnt['inv'] += len(ev.get('tbl', ev.get('vs', [])))
            return 'I:%s' % ev['m']['name']
        return None
    ctx.scan(traces, k, trim=200)
    ctx.extra['multiply_pairs_checked'] = cnt['pairs']
    ctx.extra['invert_values_checked'] = cnt['inv']
    ctx.extra['not_enumerated'] = ('the 2^32 operand pairs of 16-bit multiply are not enumerated: thorough checks every a of uint16/int16 against '
                                   '~150 structured+random b (both argument orders); other 16-bit models are sampled')
    ctx.rule = ('one event per (model, a) with the results of channel_multiply(a,b) and (b,a) for every b (all pairs, models <= 8 bits) or a '
                'structured+seeded set of b (9..16 bits), float on the dyadic grid k/64; one event per model with the complete channel_invert '
                'table (<=16 bits) or a stratified sample; non-trivial = every such event; distinct = distinct (model, a)')
    ctx.exhaustive = False
    ctx.assumptions += ['"within one unit" read inclusively (|r*max - a*b| <= max)',
                        'signed channels compared after the documented shift to the unsigned range']

def replay(ctx, path):
    ctx.validate('Trace_Channel', [path])
