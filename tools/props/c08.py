"""C08 packed / bit-aligned writes: MC of PackedBits.tla (cursor machine + read-modify-write machine) and
validation of recorded operations on real packed_pixel / bit_aligned_pixel_reference objects."""

def run(ctx):
    exe, = ctx.build(['c08_bits.san'])
    ctx.mc('MC_PackedBits', 'MC_PackedBits_%s.cfg' % ctx.tier)
    traces = ctx.record(exe, [], shards=16, timeout=3000)
    ctx.validate('Trace_PackedBits', traces, timeout=3000)
    cfg = [None]
    def k(ev):
        if ev['e'] == 'Try':
            cfg[0] = (ev['name'], ev['o'], ev['place'])
        if ev['e'] == 'W' and ev['op'] != 'read':
            return (cfg[0], ev['op'], ev['pos'], ev.get('k', 0), ev.get('v', ev.get('d', 0)))
        if ev['e'] == 'Cur' and ev['n'] != 0:
            return ('cur', ev['name'], ev['o0'], ev['n'])
        return None
    ctx.scan(traces, k, trim=260)
    ctx.rule = ('one event per operation (channel assign / ++,--,+=,-= / whole-pixel assign / swap / fill / copy / read) on a 3-pixel buffer placed '
                'flush against inaccessible pages, for 20 bit-aligned configurations (carriers 8/16/32/64 bit) at every bit offset 0..7 and 8 packed_pixel '
                'types, over structured and random backgrounds, with full before/after byte images; one event per bit-cursor move (n in a window around 0, '
                'every start bit). Non-trivial = a mutating operation or a non-zero move; distinct = distinct (configuration, op, position, channel, value).')
    ctx.exhaustive = False
    ctx.assumptions += ['little-endian host; bit j of the buffer is bit j%8 of byte j/8',
                        'bit-field carrier of a bit-aligned reference has at least max(pixel bits, 7 + widest channel) bits, so that the pixel value type exists and every channel fits in one carrier from its first byte at any bit offset (includes the pixel_bits+7 carriers bit_aligned_image_type picks and tighter ones such as 5-6-5 in uint16_t)',
                        'thorough tier additionally enumerates all 2^16 contents of a 16-bit pixel for packed 5-6-5, 4-4-4-4 and bit-aligned 5-6-5 at offsets 0,3,5,7']

def replay(ctx, path):
    ctx.validate('Trace_PackedBits', [path])
