"""C09 default colour conversion: MC of ColorConvert.tla over the rgb8 lattice x all b, and validation of recorded conversions."""

def run(ctx):
    exe, = ctx.build(['c09_color.fast'])
    ctx.mc('MC_ColorConvert', 'MC_ColorConvert_%s.cfg' % ctx.tier, timeout=6000, heap='24g')
    traces = ctx.record(exe, [], shards=16, timeout=3000)
    ctx.validate('Trace_ColorConvert', traces, timeout=6000, heap='10g')
    cnt = {'rgb': 0, 'rgba': 0}
    def k(ev):
        if ev['e'] == 'RgbRow':
            cnt['rgb'] += 256
            return ('rgb', ev['r'], ev['g'])
        if ev['e'] == 'RgbaRow':
            cnt['rgba'] += 256
            return ('rgba', ev['r'], ev['g'], ev['b'])
        if ev['e'] == 'Conv':
            return (ev['s'], ev['d'], tuple(ev['sv']))
        if ev['e'] in ('Layouts', 'ViewAgree'):
            return (ev['e'], str(ev)[:80])
        return None
    ctx.scan(traces, k, trim=200)
    ctx.extra['rgb8_triples_checked'] = cnt['rgb']
    ctx.extra['rgba8_pixels_checked'] = cnt['rgba']
    ctx.exhaustive = ctx.thorough
    ctx.rule = ('rgb8: one event per (r,g) carrying, for every b, rgb->gray (plus the r+1 and g+1 neighbours), rgb->cmyk and cmyk->rgb back; thorough = all 65536 rows '
                '(2^24 pixels), quick = 24x24 lattice rows + 400 seeded rows. rgba8: one event per colour with every alpha (conversion to gray/rgb/cmyk against the conversion of the '
                'premultiplied rgb). cmyk8 axes, gray, 16-bit and float conversions, other layouts (bgr, argb, abgr, planar reference), to-rgba alpha, same-space per-channel '
                'conversion, color_converted_view / copy_and_convert_pixels agreement. Non-trivial = every event; distinct = distinct inputs.')
    ctx.assumptions += ['"within one unit of 0.30r+0.59g+0.11b" is read inclusively', 'float channels are logged scaled by 2^20; gray of a float neutral within 2^-14']

def replay(ctx, path):
    ctx.validate('Trace_ColorConvert', [path])
