"""C11 reading any byte sequence as an image terminates safely (no UB, no hang)."""
import os
import vlib

def run(ctx):
    exe, = ctx.build(['c11_robust.san'], timeout=3000)
    ctx.mc('MC_IoRobust', 'MC_IoRobust_%s.cfg' % ctx.tier, timeout=3000)
    tmp = os.path.join(ctx.dir, 'files'); os.makedirs(tmp, exist_ok=True)
    traces = ctx.record(exe, [tmp, os.path.join(vlib.REPO, 'test/extension/io/images')], shards=16, timeout=10000)
    ctx.validate('Trace_IoRobust', traces, timeout=6000, heap='10g')
    st = {'c': None, 'o': None}
    cnt = {'calls': 0, 'files': 0}
    def k(ev):
        if ev['e'] == 'Case':
            st['c'] = (ev['fmt'], ev['base'], ev['mut']); cnt['files'] += 1
        elif ev['e'] == 'Open':
            st['o'] = (ev['api'], ev['dev']); cnt['calls'] += 1
            return (st['c'], st['o']) if st['c'][2] != 'original' else None
        return None
    ctx.scan(traces, k, trim=260)
    ctx.extra['mutated_files'] = cnt['files']
    ctx.extra['reader_calls'] = cnt['calls']
    ctx.rule = ('base files: written by GIL (BMP rgb8/rgba8, PNM P5/P6, TARGA rgb8/rgba8, PNG rgb8/gray16, JPEG, TIFF strip and tiled) plus corpus BMP (1/4 bpp, RLE4, RLE8), '
                'RLE TARGA and hand-written ascii PNM; mutations: every truncation (all bytes of files <= 700 bytes, the first 130 and a sample otherwise), every header byte set to '
                '0/1/0x7f/0x80/0xff, 16/32-bit header fields set to boundary values, seeded random multi-byte mutations; per mutated file: read_image_info, '
                'read_and_convert_image (file name; FILE* and istream on a third each), read_and_convert_view, scanline reader, in one child process with ASan/UBSan and an 8 s '
                'watchdog. Non-trivial = a reader call on a mutated file; distinct = distinct (file, mutation, api, device).')
    ctx.exhaustive = False
    ctx.assumptions += ['memory safety and undefined behaviour are observed through ASan/UBSan and the process outcome; a read of an indeterminate value that no instrument reports is not seen',
                        '"time proportional to input and declared size": a timeout is accepted only when the header declares more than ~4M pixels',
                        'inside libpng / libjpeg / libtiff only the outcome of the call is observed']

def replay(ctx, path):
    ctx.validate('Trace_IoRobust', [path])
