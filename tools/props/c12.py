"""C12 writing a view and reading it back reproduces it for every lossless format."""
import os

def run(ctx):
    exe, = ctx.build(['c12_roundtrip.san'], timeout=3000)
    ctx.mc('MC_IoRoundTrip', 'MC_IoRoundTrip_%s.cfg' % ctx.tier, timeout=3000)
    tmp = os.path.join(ctx.dir, 'files'); os.makedirs(tmp, exist_ok=True)
    traces = ctx.record(exe, [tmp], shards=16, timeout=6000)
    ctx.validate('Trace_IoRoundTrip', traces, timeout=6000, heap='10g')
    def k(ev):
        if ev['e'] == 'RT':
            return (ev['fmt'], ev['type'], ev['org'], ev['dev'], ev['variant'], ev['w'], ev['h'])
        return None
    ctx.scan(traces, k, trim=260)
    ctx.rule = ('write_view then read_image for BMP (rgb8, rgba8), binary PNM (gray1, gray8, rgb8), TARGA (rgb8, rgba8), PNG (gray1/2/4/8/16, rgb8/16, rgba8), TIFF (gray1/4/8/32f, '
                'rgb8/16, rgba8; strips and 16x16 tiles; none/LZW/deflate/packbits) and JPEG q100 (gray8, rgb8: constant, gradient, random), widths 1..9 (quick) / 1..17 (thorough) '
                'x heights (quick: 1..3, the diagonal and a sample; thorough: all), organisations interleaved / planar / sub-view / stepped / flipped / bit-aligned, through file name, '
                'FILE* and std::stream. One event per round trip with source pixels, pixels read back and (small BMP/PNM/TARGA) the file bytes. Non-trivial = every round trip.')
    ctx.exhaustive = False
    ctx.assumptions += ['fidelity of the compressed codecs (libpng, libtiff, libjpeg) is observed only through the round-trip equation',
                        'JPEG: constant images within one level, linear gradients within 16 levels at quality 100; random content is checked for dimensions only']

def replay(ctx, path):
    ctx.validate('Trace_IoRoundTrip', [path])
