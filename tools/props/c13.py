"""C13 all ways of reading one file agree: partial, converting, scanline, any device."""
import os
OWN = {'P_AnyImageAgrees', 'P_ConvertIsColorConvert', 'P_DevicesAgree', 'P_InfoMatches', 'P_NoFault', 'P_ReadViewAgrees', 'P_ScanlineAgrees',
       'P_SmallDestinationRejected', 'P_SubImageIsCrop', 'P_WritesOnlyDestination', 'UnknownEvent'}      # (X_DecodesAsEncoded belongs to extension X04)

def run(ctx):
    exe, = ctx.build(['c13_paths.san'], timeout=3000)
    ctx.mc('MC_IoPaths', 'MC_IoPaths_%s.cfg' % ctx.tier, timeout=3000)
    tmp = os.path.join(ctx.dir, 'files'); os.makedirs(tmp, exist_ok=True)
    traces = ctx.record(exe, [tmp, os.path.join(vlib_repo(), 'test/extension/io/images')], shards=16, timeout=6000)
    ctx.validate('Trace_IoPaths', traces, timeout=6000, heap='10g')
    st = {'f': None}
    def k(ev):
        if ev['e'] == 'File':
            st['f'] = (ev['fmt'], ev['variant'], ev['file'])
        if ev['e'] in ('Info', 'Dev', 'Sub', 'View', 'Small', 'Conv', 'Scan', 'Any'):
            return (st['f'], ev['e'], ev.get('x', 0), ev.get('y', 0), ev.get('w', 0), ev.get('h', 0), ev.get('type', ''), ev.get('dev', ''))
        return None
    ctx.scan(traces, k, trim=220)
    ctx.own = OWN
    ctx.rule = ('test files: written by GIL itself in every variant it can produce (BMP rgb8/rgba8, PNM P5/P6, TARGA rgb8/rgba8, PNG gray8/rgb8/rgba8/rgb16, TIFF rgb8/gray8 strip and '
                'tiled incl. partial edge tiles, JPEG) at sizes 5x4, 3x2, 1x1, 4x1, 1x3 (+8x6, 7x5, 2x5 thorough), plus corpus files for palette / RLE / 16-bit / OS2 BMP, '
                'TARGA raw/RLE x origin and ascii/bit PNM, plus files produced by independent encoders (this driver / libpng): 24/32 bpp BMP bottom-up and TOP-DOWN, raw TARGA 24/32 bpp with either screen origin (with the scanline reader), plain and INTERLACED PNG gray8/rgb8/rgba8/rgb16. Per file: read_image_info, FILE* and istream reads, EVERY sub-rectangle (small files) or sampled ones, read_view into a '
                'canary image, a too-small destination, read_and_convert_image to gray8/rgba8/rgb16 against color_convert of the native read, the scanline reader, any_image. '
                'Non-trivial = every read event; distinct = distinct (file, path kind, rectangle / type / device).')
    ctx.exhaustive = False
    ctx.assumptions += ['the canonical image of a file is defined as the result of the full native read_image',
                        'the scanline reader yields rows in the file\'s own channel order (bgr for BMP / TARGA): compared by colour']

def vlib_repo():
    import vlib
    return vlib.REPO

def replay(ctx, path):
    ctx.validate('Trace_IoPaths', [path])
    ctx.own = OWN
