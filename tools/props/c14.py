"""C14 run-time typed images behave exactly like the concrete image they hold.
1. instantiation probes: every transformation / algorithm overload / container operation of harness/c14_dyn.hpp is one
   feature compiled on its own with -fsyntax-only; the outcome is an observed Probe event (P_Total) and decides whether
   the feature is part of the generated drivers (so a feature that stops compiling is a verdict, not a build failure).
2. MC: DynImage.tla -- the state machine of any_image / any_image_view variables (deep values, shallow views, recreate
   keeps the held type, bad_cast changes nothing) is explored exhaustively; the transformation / algorithm algebra of
   Part A is evaluated over every small grid.
3. record -> validate: for every alternative (and ordered pair, in the three overload shapes) the dynamic overload and
   the concrete call are executed and both results validated by TLC against the P_ operators.
4. generate -> replay -> validate: TLC exports histories of the state machine (BFS: all of the bound; -simulate: longer,
   seeded); they are replayed on real any_image / any_image_view variables and the observable state after every call is
   compared with the state machine stepped by the trace specification."""
import os, re, json, subprocess, time
from concurrent.futures import ThreadPoolExecutor
import vlib

PARTS = [
    ['query', 'flipUD', 'flipLR', 'rot180', 'c_flipUD', 'c_flipLR', 'c_rot180'],
    ['transposed', 'rot90cw', 'rot90ccw', 'c_transposed', 'c_rot90cw', 'c_rot90ccw'],
    ['subimage', 'subimage_pt', 'c_subimage', 'subsampled', 'subsampled_pt', 'c_subsampled'],
    ['nthch', 'c_nthch', 'ccv', 'c_ccv', 'ccvk'],
    ['copy'], ['equal'], ['ccdef'], ['cccust'], ['resample'],
    ['fill', 'foreach'],
    ['hist'],
]
WHAT = {
    'query': 'dimensions()/width()/height()/num_channels()/size() of any_image and any_image_view',
    'flipUD': 'flipped_up_down_view(any_image_view)', 'flipLR': 'flipped_left_right_view(any_image_view)',
    'transposed': 'transposed_view(any_image_view)', 'rot90cw': 'rotated90cw_view(any_image_view)', 'rot90ccw': 'rotated90ccw_view(any_image_view)',
    'rot180': 'rotated180_view(any_image_view)', 'subimage': 'subimage_view(any_image_view, x, y, w, h)', 'subimage_pt': 'subimage_view(any_image_view, point, point)',
    'subsampled': 'subsampled_view(any_image_view, xstep, ystep)', 'subsampled_pt': 'subsampled_view(any_image_view, point)',
    'nthch': 'nth_channel_view(any_image_view, n)', 'ccv': 'color_converted_view<P>(any_image_view)', 'ccvk': 'color_converted_view<P>(any_image_view, cc)',
    'copy': 'copy_pixels with run-time typed arguments (3 overloads)', 'equal': 'equal_pixels with run-time typed arguments (3 overloads)',
    'ccdef': 'copy_and_convert_pixels with run-time typed arguments (3 overloads)', 'cccust': 'copy_and_convert_pixels with a converter and run-time typed arguments (3 overloads)',
    'resample': 'resample_pixels with run-time typed arguments (3 overloads)', 'fill': 'fill_pixels(any_image_view, pixel)', 'foreach': 'for_each_pixel(any_image_view, f)',
    'hist': 'any_image / any_image_view construction, copy, assignment, recreate, ==, view, subimage_view, fill/copy/equal_pixels',
}

def what(f):
    return WHAT[f] if f in WHAT else WHAT[f[2:]].replace('any_image_view', 'any_image_view of const views')

def probe(ctx, feat):
    src = '#define C14_F_%s 1\n#include "c14_dyn.hpp"\ntemplate void c14::probe_%s<void>();\n' % (feat, feat)
    d = os.path.join(ctx.dir, 'probes')
    os.makedirs(d, exist_ok=True)
    path = os.path.join(d, 'c14_' + feat + '.cpp')
    open(path, 'w').write(src)
    p = subprocess.run(['g++', '-std=c++17', '-fsyntax-only', '-I' + vlib.REPO + '/include', '-I' + vlib.HARNESS, '-w', path],
                       stdout=subprocess.PIPE, stderr=subprocess.STDOUT, text=True, timeout=900)
    m = re.search(r'(\S+:\d+:\d+: )?error: [^\n]*', p.stdout)
    return feat, p.returncode == 0, (m.group(0)[:300] if m else p.stdout[-300:])

def export(ctx, cfg, out, simulate=None, depth=0, timeout=1500):
    t = time.time()
    args = ['-workers', '1', '-config', os.path.join(vlib.SPECS, cfg), os.path.join(vlib.SPECS, 'Export_DynImage.tla')]
    if simulate:
        args = ['-simulate', simulate, '-depth', str(depth), '-seed', str(ctx.seed)] + args
    try:
        rc, txt = ctx._tlc(args, env={'OUT': out}, timeout=timeout, heap='8g', tag='ex')
    except subprocess.TimeoutExpired:
        rc, txt = -9, 'timeout'
    if not os.path.exists(out):
        open(out + '.log', 'w').write(txt)
        raise vlib.Infra('history export failed for %s: %s' % (cfg, txt[-800:]))
    n = sum(1 for x in open(out) if x.strip())
    gen, dist = ctx._stats(txt)
    ctx.mc_runs.append({'module': 'Export_DynImage', 'cfg': cfg, 'histories': n, 'states_generated': gen, 'distinct_states': dist,
                        'mode': 'simulate' if simulate else 'bfs', 'wall_s': round(time.time() - t, 1)})
    vlib.log('[export] %s: %d histories, %.1fs' % (cfg, n, time.time() - t))
    return n

def run(ctx):
    feats = [f for p in PARTS for f in p]
    t0 = time.time()
    with ThreadPoolExecutor(max_workers=vlib.NCPU) as ex:
        res = list(ex.map(lambda f: probe(ctx, f), feats))
    okf = {f for f, ok, _ in res if ok}
    vlib.log('[probe] %d feature probes, %d compile, %.1fs' % (len(feats), len(okf), time.time() - t0))
    ptrace = os.path.join(ctx.dir, 'trace-probes.ndjson')
    with open(ptrace, 'w') as f:
        for (feat, ok, out) in res:
            msg = '' if ok else out
            f.write(json.dumps({'e': 'Probe', 'name': what(feat), 'feature': feat, 'ok': ok, 'msg': msg}) + '\n')
        f.write(json.dumps({'e': 'End', 'events': len(res)}) + '\n')
    # generated drivers: one translation unit per group of features that compile
    gen = os.path.join(vlib.HARNESS, 'gen')
    os.makedirs(gen, exist_ok=True)
    targets, kinds = [], []
    for k, part in enumerate(PARTS):
        on = [f for f in part if f in okf]
        if not on:
            continue
        body = ''.join('#define C14_F_%s 1\n' % f for f in on) + '#include "c14_dyn.hpp"\nint main(int argc, char** argv) { return c14::main_(argc, argv); }\n'
        path = os.path.join(gen, 'c14_part%02d.cpp' % k)
        if not os.path.exists(path) or open(path).read() != body:
            open(path, 'w').write(body)
        targets.append('c14_part%02d.nsan' % k)
        kinds.append('hist' if part == ['hist'] else 'static')
    exes = ctx.build(targets, timeout=3000)
    ctx.mc('MC_DynImage', 'MC_DynImage_%s.cfg' % ctx.tier, timeout=3000, heap='24g')
    # histories from the specification
    jobs = [('Export_DynImage_bfs3.cfg' if ctx.thorough else 'Export_DynImage_bfs2.cfg', None, 0),
            ('Export_DynImage_sim8.cfg', 'num=%d' % (1500 if ctx.thorough else 250), 18),
            ('Export_DynImage_views10.cfg', 'num=%d' % (1500 if ctx.thorough else 250), 14)]
    if ctx.thorough:
        jobs.append(('Export_DynImage_sim14.cfg', 'num=600', 30))
    def do(j):
        out = os.path.join(ctx.dir, 'hist-' + j[0].replace('.cfg', '') + '.ndjson')
        return out, export(ctx, j[0], out, j[1], j[2], timeout=3000)
    with ThreadPoolExecutor(max_workers=8) as ex:
        hres = list(ex.map(do, jobs))
    nhist = sum(r[1] for r in hres)
    traces = [ptrace]
    for exe, kind in zip(exes, kinds):
        name = 'trace-' + os.path.basename(exe).split('.')[0]
        if kind == 'hist':
            traces += ctx.record(exe, ['--mode=hist'] + [r[0] for r in hres], shards=8, name=name, timeout=3000)
        else:
            traces += ctx.record(exe, [], shards=2, name=name, timeout=3000)
    ctx.validate('Trace_DynImage', traces, timeout=3000)
    st = {'h': None}
    def k(ev):
        e = ev['e']
        if e == 'Probe':
            return ('probe', ev['feature'])
        if e == 'Q' and ev['w'] * ev['h'] > 0:
            return ('Q', ev['alt'], ev['w'], ev['h'])
        if e == 'T' and ev['w'] * ev['h'] > 0:
            return ('T', ev['t'], ev['const'], ev['alt'], tuple(ev['args']), ev['w'], ev['h'], ev['target'].get('space', ''))
        if e == 'B' and ev['w'] * ev['h'] > 0:
            return ('B', ev['alg'], ev['form'], ev['si'], ev['di'], ev['w'], ev['h'], tuple(ev['args']), ev['prep'])
        if e == 'Reset':
            st['h'] = ev['idx']
            return None
        if e == 'St':
            o = ev['op']
            return ('St', st['h'], ev['i'], o['op'], o['a'], o['b'], o['t'], o['w'], o['h'], o['k'], o['x'], o['y'])
        return None
    ctx.scan(traces, k, trim=300)
    ctx.extra['feature_probes'] = len(feats)
    ctx.extra['features_compiling'] = len(okf)
    ctx.extra['histories_replayed'] = nhist
    ctx.rule = ('type list {gray8, rgb8, rgb8 planar, bgr8, rgba8, rgb16, cmyk8}. One Probe event per feature; one Q event per (alternative, shape); one T event per '
                '(transformation, mutable/const any view, alternative, arguments, shape <= 3x3 / 5x4) carrying the result of the dynamic overload, of the concrete call and the '
                'source after a write through the result; one B event per (algorithm, overload shape, ordered pair of alternatives, shape, arguments); one St event per call of a '
                'replayed history (histories are generated by TLC from DynImage.tla: BFS of 2 / 3 operations, seeded simulations of 8 / 10 / 14 operations over all 7 alternatives). '
                'Non-trivial = non-empty view / any history call; distinct = distinct parameter tuple (history index and position for St).')
    ctx.exhaustive = False
    ctx.assumptions += ['release-mode (NDEBUG) build: the flips/rotations of an EMPTY view call xy_at(w-1, ...) whose BOOST_ASSERT fires in debug builds only (same choice as C01/C02)',
                        'type list of 7 memory-based alternatives; lists with duplicate derived view types (e.g. a view and its step view) are outside the bound',
                        'colour conversion values of color_converted_view / copy_and_convert_pixels with the default converter are taken from the concrete call (C09 owns the values); '
                        'with the harness converter (every channel := k) the specification computes them',
                        'views into an image that is reassigned, recreated or destroyed are dropped by the driver (dangling by contract), also when the implementation happens to keep the storage',
                        'algorithms are called on views of equal dimensions (precondition of the concrete algorithms)']

def replay(ctx, path):
    ctx.validate('Trace_DynImage', [path])
