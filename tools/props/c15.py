"""C15 convolution / correlation equal the textbook sums for every boundary policy."""

def run(ctx):
    exe, = ctx.build(['c15_convolve.san'])
    ctx.mc('MC_Convolve', 'MC_Convolve_%s.cfg' % ctx.tier, timeout=6000, heap='24g')
    traces = ctx.record(exe, [], shards=16, timeout=3000)
    ctx.validate('Trace_Convolve', traces, timeout=6000)
    def k(ev):
        if ev['e'] == 'Corr' and ev['w'] * ev['h'] > 0:
            return (ev['fn'], ev['types'], ev['opt'], ev['w'], ev['h'], tuple(ev['ker']), ev['c'], ev['ch'])
        if ev['e'] == 'Conv2D' and ev['w'] * ev['h'] > 0:
            return ('conv2d', ev['w'], ev['h'], str(ev['ker2']), ev['cx'], ev['cy'])
        if ev['e'] == 'Box' and ev['w'] * ev['h'] > 0:
            return (ev['fn'], ev['types'], ev.get('ch', 0), ev['opt'], ev['w'], ev['h'], ev['K'], ev['anchor'])
        if ev['e'] == 'Extend':
            return ('extend', ev['opt'], ev['n'], str(ev['src']))
        return None
    ctx.scan(traces, k, trim=300)
    ctx.rule = ('every width 0..6 (quick) / 0..9 (thorough) x height 0..3 / 0..5 x kernel size 1..4 / 1..5 x every centre x all five boundary options, for '
                'correlate/convolve rows/cols with dynamic kernels (gray8->gray32f, rgb8->rgb32f per channel, gray16s->gray32s with integer accumulators) and fixed-size '
                'kernels (sizes 3, 5); the source is a sub-view of a larger random image so extend_padded sees real neighbouring pixels; convolve_2d for every kernel '
                'size 1..3 and centre; extend_row/col/boundary for n = 0..3; box_filter (unit taps, gray8->gray32f and bgr8->rgb32f per colour) and blur (taps 1/K, K in {1,2,4}, gray8->gray8) for every kernel size, every anchor incl. the default -1 and the four options that need no caller padding, against the two passes as written and the K x K window sum. Integer-valued data, so float accumulators are exact. Non-trivial = non-empty image; '
                'distinct = distinct (function, types, option, shape, kernel, centre, channel).')
    ctx.exhaustive = False
    ctx.assumptions += ['kernel values and pixels are small integers: sums are exact in float', 'out-of-bounds accesses are observed by ASan/UBSan (each case runs in its own child process)']

def replay(ctx, path):
    ctx.validate('Trace_Convolve', [path])
