"""C16 threshold, morphology and median filters satisfy their per-pixel definitions."""

def run(ctx):
    exe, = ctx.build(['c16_filters.san'])
    ctx.mc('MC_Filters', 'MC_Filters_%s.cfg' % ctx.tier, timeout=6000, heap='24g')
    traces = ctx.record(exe, [], shards=16, timeout=3000)
    ctx.validate('Trace_Filters', traces, timeout=6000)
    def k(ev):
        if ev['e'] in ('Thr', 'Otsu', 'Morph', 'Median') and len(ev['src']) > 0 and len(ev['src'][0]) > 0:
            return (ev['e'], ev.get('fn', ''), ev['types'], ev.get('dir', ''), ev.get('mode', ''), ev.get('t', 0), ev.get('maxv', 0), ev.get('k', 0), str(ev.get('se', '')), str(ev['src']))
        return None
    ctx.scan(traces, k, trim=300)
    ctx.rule = ('shapes 0..4 x 0..4 (quick) / 0..6 (thorough); threshold_binary (both overloads) and threshold_truncate for gray8/16, gray8s/16s, rgb8 with thresholds at the '
                'range ends, 0, +-1, mid and a pixel value, both directions and modes; threshold_optimal for the same types on random / constant / two-valued / all-zero / '
                'near-zero images (each in its own child process with a watchdog); dilate/erode/opening/closing/2 iterations with random symmetric structuring elements of '
                'size 1,3,5; median_filter k = 1,3,5. Non-trivial = non-empty image; distinct = distinct (function, types, parameters, source contents).')
    ctx.exhaustive = False
    ctx.assumptions += ['structuring elements are symmetric (point reflection and transposition) with the centre set, as the property requires',
                        'a value is "the median" of a window if at most half of the samples lie strictly below and at most half strictly above it']

def replay(ctx, path):
    ctx.validate('Trace_Filters', [path])
