"""C17 samplers interpolate within bounds and resampling follows the given mapping."""

def run(ctx):
    exe, = ctx.build(['c17_resample.san'])
    ctx.mc('MC_Resample', 'MC_Resample_%s.cfg' % ctx.tier, timeout=6000, heap='24g')
    traces = ctx.record(exe, [], shards=16, timeout=3000)
    ctx.validate('Trace_Resample', traces, timeout=6000)
    pts = [0]
    def k(ev):
        if ev['e'] == 'SampleRow':
            pts[0] += len(ev['rets'])
            return ('sample', ev['sampler'], ev['types'], ev['ch'], ev['py8'], str(ev['img']))
        if ev['e'] in ('Resample', 'Resize', 'Assoc', 'Compose', 'Inverse', 'Rotate'):
            return (ev['e'], str(ev)[:160])
        return None
    ctx.scan(traces, k, trim=260)
    ctx.extra['sample_points_checked'] = pts[0]
    ctx.rule = ('every source shape 1..4 x 1..4 (quick) / 1..5 (thorough) for gray8, rgb8, gray16, gray32f, embedded in a canary image; nearest and bilinear samplers at '
                'every point of the 1/8 grid over [-2, w+1] x [-2, h+1] (one event per grid row); resample_pixels with affine maps with entries k/4 against the sampler '
                'applied at the mapped point; resize_view to the same size; matrix3x2 associativity / products (exact on dyadic entries), translate/scale composition, '
                'inverse, rotation structure. Non-trivial = every event; distinct = distinct inputs.')
    ctx.exhaustive = False
    ctx.assumptions += ['one unit of slack around the convex hull for truncation of integer channels', 'inverse / rotation are checked within 2^-14 (entries) and 2^-8 (translations)']

def replay(ctx, path):
    ctx.validate('Trace_Resample', [path])
