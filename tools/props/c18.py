"""C18 toolbox colour spaces round-trip with RGB and stay in range."""

def run(ctx):
    exe, = ctx.build(['c18_toolbox.fast'])
    ctx.mc('MC_Toolbox', 'MC_Toolbox_%s.cfg' % ctx.tier, timeout=6000, heap='24g')
    traces = ctx.record(exe, [], shards=16, timeout=6000)
    ctx.validate('Trace_Toolbox', traces, timeout=10000, heap='10g')
    n = [0]
    def k(ev):
        if ev['e'] == 'SpaceRow':
            n[0] += 256
            return (ev['space'], ev['r'], ev['g'])
        if ev['e'] in ('HueGrid', 'GrayAlpha', 'Cmyka'):
            return (ev['e'], str(ev)[:120])
        return None
    ctx.scan(traces, k, trim=220)
    ctx.extra['rgb8_pixels_per_space_times_spaces'] = n[0]
    ctx.exhaustive = ctx.thorough
    ctx.rule = ('per colour space (hsv, hsl, xyz, lab, ycbcr601, ycbcr709) one event per (r,g) with, for every b, the intermediate channels and the rgb8 obtained by converting '
                'back: thorough = all 65536 rows (2^24 pixels per space), quick = 20x20 lattice rows + 200 seeded rows; hsv/hsl -> rgb on the boundary grid hue k/12 (incl. 1), '
                's,v in {0,1/2,1}; gray_alpha -> rgba/rgb/gray for every value x 4 alphas; cmyka -> rgba against the core cmyk conversion. Non-trivial = every event.')
    ctx.assumptions += ['round-trip tolerance: 0 for hsv/hsl/xyz (exact), 2 levels for lab, 3 levels for ycbcr and cmyka ("a small fixed tolerance")',
                        'h,s,v/l range [0,1] checked with 2^-14 float slack', 'the toolbox rgb_to_luminance specialisation (double channels) is not exercised']

def replay(ctx, path):
    ctx.validate('Trace_Toolbox', [path])
