"""C19 histograms conserve mass and bin exactly the pixels that were counted."""

def run(ctx):
    exe, = ctx.build(['c19_hist.san'])
    ctx.mc('MC_Histogram', 'MC_Histogram_%s.cfg' % ctx.tier, timeout=6000, heap='24g')
    traces = ctx.record(exe, [], shards=16, timeout=3000)
    ctx.validate('Trace_Histogram', traces, timeout=6000)
    def k(ev):
        if ev['e'] == 'Fill' and ev['w'] * ev['h'] > 0:
            return ('fill', ev['types'], tuple(ev['dims']), ev['bw'], ev['use_mask'], ev['use_limits'], ev['accumulate'], ev['sparse'], str(ev['pixels']))
        if ev['e'] in ('Cum', 'Norm', 'SubAxes', 'SubRange', 'Std') and len(ev['hist']) > 0:
            return (ev['e'], ev.get('types', ev.get('kind', '')), str(ev.get('axes', '')), str(ev.get('lo', '')), str(ev['hist']))
        return None
    ctx.scan(traces, k, trim=300)
    ctx.rule = ('shapes 0..4 x 0..4 (quick) / 0..5 (thorough); fill_histogram for gray8/16, gray8s, rgb8 (1, 2, 3 axes in several orders), rgba8 (4 axes), rgb16s, bin widths '
                '1,2,3,5, with / without mask, limit box, accumulate, dense (non-sparse) fill and a stale bin that must be replaced; cumulative_histogram, normalize, '
                'sub_histogram over axis subsets and key ranges, std::vector/array/map fillers. Non-trivial = non-empty image or histogram; distinct = distinct parameters and contents.')
    ctx.exhaustive = False
    ctx.assumptions += ['a multi-axis key range of sub_histogram is accepted under either reading used in the code base (per-axis box or lexicographic order)',
                        'limits of fill are the per-axis box on bin keys', 'normalized bins are logged scaled by 2^20']

def replay(ctx, path):
    ctx.validate('Trace_Histogram', [path])
