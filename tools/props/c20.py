"""C20 rasterizers: MC of Raster.tla (every end point in a window, every radius) and validation of recorded point sequences."""

def run(ctx):
    exe, = ctx.build(['c20_raster.san'])
    ctx.mc('MC_Raster', 'MC_Raster_%s.cfg' % ctx.tier, timeout=6000)
    traces = ctx.record(exe, [], shards=16, timeout=3000)
    ctx.validate('Trace_Raster', traces, timeout=6000)
    def k(ev):
        if ev['e'] == 'Line' and (ev['sx'], ev['sy']) != (ev['ex'], ev['ey']):
            return ('line', ev['sx'], ev['sy'], ev['ex'], ev['ey'])
        if ev['e'] == 'Circle':
            return (ev['kind'], ev['cx'], ev['cy'], ev['r'])
        if ev['e'] == 'Ellipse':
            return ('ellipse', ev['a'], ev['b'])
        return None
    ctx.scan(traces, k, trim=240)
    ctx.exhaustive = True
    ctx.rule = ('lines: every end point in the (2N+1)^2 window (N = 8 quick / 20 thorough) around three start points, all octants; circles: both rasterizers, every '
                'radius 0..16 / 0..64 at two centres; ellipses: every pair of semi-axes 0..8 / 0..14. One event per curve with point_count(), the emitted sequence '
                '(bounds-checked recorder) and the effect of apply_rasterizer on a view that just contains the bounding box, embedded in a canary image. '
                'Non-trivial = non-degenerate curve; distinct = distinct parameters. The windows are enumerated completely.')
    ctx.assumptions += ['the ellipse rasterizer has no point_count(); its trajectory and drawn pixel set are checked instead',
                        'closedness is checked as: every point has at least two 8-neighbours in the set']

def replay(ctx, path):
    ctx.validate('Trace_Raster', [path])
