"""X01 (extension beyond the listed properties): the numeric layer under the listed algorithms -- rounding helpers and point
arithmetic, channel / pixel numeric function objects, kernel generators, premultiply, and views over virtual locators --
recorded from harness/x01_numeric.cpp and validated by TLC against specs/Numeric.tla.  Not part of MANIFEST.json (the property
list is fixed); evidence goes to evidence_ext/."""
import vlib

def run(ctx):
    exe, = ctx.build(['x01_numeric.san'])
    ctx.mc('MC_Numeric', 'MC_Numeric_%s.cfg' % ctx.tier)
    traces = ctx.record(exe, [], shards=1)
    ctx.validate('Trace_Numeric', traces)
    def k(ev):
        e = ev['e']
        if e in ('End', 'Fault'):
            return None
        if e == 'Round': return (e, ev['f'], ev['t'], ev['k'])
        if e == 'Virt': return (e, str(ev['ops']), ev['w'], ev['h'])
        if e == 'Kernel': return (e, ev['name'], ev['n'], ev.get('sigma8', 0))
        return (e, str(sorted(ev.items()))[:200])
    ctx.scan(traces, k)
    ctx.rule = ('one event per evaluated call: iround/ifloor/iceil on k/8 for k in -40..40 (float, double, points); point arithmetic on a grid of operands; '
                'channel_*_t / pixel_*_t on int32 operands (rgb and bgr orders); every kernel generator for sides 1..7 and three sigmas; premultiply on 300 rgba8 pixels '
                'and a premultiply_view; virtual_2d_locator views under every chain of two view factories for base shapes 1..4 x 1..3.')
    ctx.exhaustive = False
    ctx.assumptions += ['kernel entries are compared after scaling by 2^24 and rounding', 'premultiplied values are required to be within one level of c*a/255 and exact for a in {0,255}']

def replay(ctx, path):
    ctx.validate('Trace_Numeric', [path])
