"""X02 (extension beyond the listed properties): histogram equalisation (image_processing/histogram_equalization.hpp) against
specs/HistEq.tla: the colour map and destination histogram of histogram_equalization(histogram), and the view overload on gray8 / rgb8."""
import vlib

def run(ctx):
    exe, = ctx.build(['x02_histeq.san'])
    ctx.mc('MC_HistEq', 'MC_HistEq_%s.cfg' % ctx.tier)
    traces = ctx.record(exe, [], shards=1)
    ctx.validate('Trace_HistEq', traces)
    ctx.scan(traces, lambda ev: (ev['e'], str(ev.get('src', ev.get('vals')))) if ev['e'] in ('EqMap', 'EqView') else None)
    ctx.rule = 'one EqMap and one EqView event per random small image (1..5 x 1..4, small value alphabets so that keys repeat); rgb8 images per channel'
    ctx.exhaustive = False
    ctx.assumptions += ['the view overload works on normalised floating-point cumulative sums: one level of slack against the exact map']

def replay(ctx, path):
    ctx.validate('Trace_HistEq', [path])
