"""X03 (extension beyond the listed properties): an image built or recreated with a fill value holds that value in every pixel
(specs/ImageValues.tla), for interleaved, planar, packed and bit-aligned images, on the allocating and the storage-reusing path."""
import vlib

def run(ctx):
    exe, = ctx.build(['x03_fill.san'])
    ctx.mc('MC_ImageValues', 'MC_ImageValues_%s.cfg' % ctx.tier)
    traces = ctx.record(exe, [], shards=2)
    ctx.validate('Trace_ImageValues', traces)
    ctx.scan(traces, lambda ev: (ev['type'], ev['how'], ev['w'], ev['h'], ev['al']) if ev['e'] == 'FillInit' and ev['w'] * ev['h'] > 0 else None)
    ctx.rule = ('one FillInit event per (16 image types: interleaved 8/16 bit, planar, packed 565/332, bit-aligned 565/332/1/4/7) x 10 shapes x 5 alignments x '
                '{constructor with fill value, recreate that must allocate, recreate into larger storage, recreate to the same dimensions (no-op), recreate to another alignment}; '
                'non-trivial = non-empty requested shape')
    ctx.exhaustive = False

def replay(ctx, path):
    ctx.validate('Trace_ImageValues', [path])
