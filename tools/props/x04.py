"""X04 (extension beyond the listed properties): a file produced by an INDEPENDENT encoder from known pixels decodes to those pixels
(C12 only round-trips GIL's own writers; C13 only compares the ways of reading among themselves).  Encoders: this driver (24/32 bpp BMP bottom-up and
top-down; raw TARGA 24/32 bpp with either screen origin) and libpng (plain and Adam7-interlaced gray8/rgb8/rgba8/rgb16).  Same driver and trace
specification as C13 (harness/c13_paths.cpp in mode "enc", Trace_IoPaths.tla clause X_DecodesAsEncoded)."""
import os, vlib

def run(ctx):
    exe, = ctx.build(['c13_paths.san'], timeout=3000)
    tmp = os.path.join(ctx.dir, 'files'); os.makedirs(tmp, exist_ok=True)
    traces = ctx.record(exe, [tmp, os.path.join(vlib.REPO, 'test/extension/io/images'), 'enc'], shards=8, timeout=3000)
    ctx.validate('Trace_IoPaths', traces, timeout=3000)
    st = {'f': None}
    def k(ev):
        if ev['e'] == 'File':
            st['f'] = (ev['fmt'], ev['variant'], ev['file'])
        return (st['f'], 'Truth') if ev['e'] == 'Truth' else ((st['f'], 'Region', ev['x'], ev['y'], ev['w'], ev['h']) if ev['e'] == 'Region' else None)
    ctx.scan(traces, k, trim=220)
    ctx.own = {'X_DecodesAsEncoded', 'X_RegionOutsideRejected', 'X_RegionInsideAccepted', 'UnknownEvent'}
    ctx.rule = 'one Truth event per encoded file (format x variant x shape) and one Region event per read region that does not lie inside the image (11 per file: sticking out on each side, starting outside, negative origin, full size at a non-zero origin, "whole image" dimensions at a non-zero origin); the other events of the file belong to C13'
    ctx.exhaustive = False

def replay(ctx, path):
    ctx.validate('Trace_IoPaths', [path])
    ctx.own = {'X_DecodesAsEncoded', 'X_RegionOutsideRejected', 'X_RegionInsideAccepted', 'UnknownEvent'}
