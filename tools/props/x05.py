"""X05 (extension beyond the listed properties): files written by GIL decode, with an independent decoder, to the written pixels
(PNG through libpng, TIFF through libtiff, constant JPEG through libjpeg; BMP / PNM / TARGA writes are already compared byte by byte with the
specification's encoders in C12: I_Encode of IoRoundTrip.tla)."""
import os, vlib

def run(ctx):
    exe, = ctx.build(['x05_written.san'], timeout=3000)
    tmp = os.path.join(ctx.dir, 'files'); os.makedirs(tmp, exist_ok=True)
    traces = ctx.record(exe, [tmp], shards=8, timeout=3000)
    ctx.validate('Trace_Written', traces, timeout=3000)
    ctx.scan(traces, lambda ev: (ev['fmt'], ev['type'], ev['variant'], ev['w'], ev['h']) if ev['e'] == 'Written' else None, trim=220)
    ctx.rule = ('one Written event per (format, pixel type, variant: strip / tile x compression, interleaved / planar / sub-view, shape 1x1..33x18 (thorough: more)); '
                'PNG gray8/16 rgb8/16 rgba8/16 bgr8 bgra8; TIFF gray8 rgb8 bgr8 (strip and tiled, none / LZW / deflate / packbits) and gray16 rgb16 (strip); JPEG constant images')
    ctx.exhaustive = False

def replay(ctx, path):
    ctx.validate('Trace_Written', [path])
