"""X06 (extension beyond the listed properties): histogram matching (image_processing/histogram_matching.hpp) against specs/HistMatch.tla:
every source key goes to a reference key of nearest scaled cumulative frequency, monotonically, and the destination histogram carries the mass."""
import vlib

def run(ctx):
    exe, = ctx.build(['x06_histmatch.san'])
    ctx.mc('MC_HistMatch', 'MC_HistMatch_%s.cfg' % ctx.tier, timeout=3000)
    traces = ctx.record(exe, [], shards=1)
    ctx.validate('Trace_HistMatch', traces, timeout=3000)
    ctx.scan(traces, lambda ev: (ev['e'], str(ev.get('src')), str(ev.get('ref'))) if ev['e'] in ('Match', 'MatchView') else None)
    ctx.rule = 'one Match event per random pair of small histograms (1..5 keys in -2..9, counts 0..4, non-zero totals) and one MatchView event per channel of random small gray8 / rgb8 image pairs'
    ctx.exhaustive = False
    ctx.assumptions += ['histograms with zero total and an empty reference histogram are outside the precondition and not generated']

def replay(ctx, path):
    ctx.validate('Trace_HistMatch', [path])
