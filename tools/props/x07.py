"""X07 (extension beyond the listed properties): the integer part of the Hough transforms against specs/Hough.tla: hough_parameter factories
(centred, within the neighbourhood) and hough_circle_transform_brute (votes = points of the translated rasterised circle that are edge pixels;
points outside the input are not)."""
import vlib

def run(ctx):
    exe, = ctx.build(['x07_hough.nsan'])
    ctx.mc('MC_Hough', 'MC_Hough_%s.cfg' % ctx.tier, timeout=3000)
    traces = ctx.record(exe, [], shards=1)
    ctx.validate('Trace_Hough', traces, timeout=3000)
    ctx.scan(traces, lambda ev: (ev['e'], ev.get('kind', ''), ev.get('mid', ev.get('w')), ev.get('n', ev.get('h')), ev.get('arg', ev.get('radius')), str(ev.get('set', ''))) if ev['e'] in ('Param', 'Circle') else None)
    ctx.rule = ('one Param event per (factory, middle 0..N, neighbourhood 0..N, step size / half step count 1..N), N = 8 / 14; one Circle event per radius of random edge maps up to 7x6 with '
                'radius 0..4 and centre ranges over the whole image (circles sticking out of it) or its interior')
    ctx.exhaustive = False
    ctx.assumptions += ['release-mode (NDEBUG) build so that the access is observed by ASan rather than stopped by an assertion', 'hough_line_transform (trigonometry) is not modelled']

def replay(ctx, path):
    ctx.validate('Trace_Hough', [path])
