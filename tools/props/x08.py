"""X08 (extension beyond the listed properties): chroma-subsampled images (toolbox subchroma_image) against specs/Subchroma.tla: chroma planes of the ceiling
size, pixel (x, y) = (Y[x,y], V[x div ssX, y div ssY], U[...]) for every J:a:b factor set."""
import vlib

def run(ctx):
    exe, = ctx.build(['x08_subchroma.nsan'])
    ctx.mc('MC_Subchroma', 'MC_Subchroma_%s.cfg' % ctx.tier, timeout=3000)
    traces = ctx.record(exe, [], shards=1)
    ctx.validate('Trace_Subchroma', traces, timeout=3000)
    ctx.scan(traces, lambda ev: (ev['a'], ev['b'], ev['w'], ev['h']) if ev['e'] == 'Sub' else None)
    ctx.rule = 'one Sub event per (factor set 4:4:4, 4:4:0, 4:2:2, 4:2:0, 4:1:1, 4:1:0) x shape 1..6 x 1..5 (thorough 9 x 9): plane dimensions and every pixel through xy_at and operator()'
    ctx.exhaustive = False
    ctx.assumptions += ['release-mode (NDEBUG) build so that an access outside a plane is observed by ASan rather than stopped by an assertion']

def replay(ctx, path):
    ctx.validate('Trace_Subchroma', [path])
