"""X09 (extension beyond the listed properties): view constructors over caller-provided raw data (interleaved_view, planar_rgb/rgba/cmyk_view,
planar_devicen_view for 2..5 channels) against specs/RawViews.tla.  Each constructor is first probed for instantiation (an observed Compiles event);
the driver is built from the ones that compile."""
import os, json, vlib

PROBES = {
    'planar_devicen_view/2': 'gil::planar_devicen_view(2, 2, p, p, 2)', 'planar_devicen_view/3': 'gil::planar_devicen_view(2, 2, p, p, p, 2)',
    'planar_devicen_view/4': 'gil::planar_devicen_view(2, 2, p, p, p, p, 2)', 'planar_devicen_view/5': 'gil::planar_devicen_view(2, 2, p, p, p, p, p, 2)',
    'planar_rgb_view': 'gil::planar_rgb_view(2, 2, p, p, p, 2)', 'planar_rgba_view': 'gil::planar_rgba_view(2, 2, p, p, p, p, 2)', 'planar_cmyk_view': 'gil::planar_cmyk_view(2, 2, p, p, p, p, 2)',
    'interleaved_view': 'gil::interleaved_view(2, 2, (gil::rgb8_pixel_t*)p, 6)',
}

def run(ctx):
    ptrace = os.path.join(ctx.dir, 'trace-probes.ndjson')
    allok = True
    with open(ptrace, 'w') as f:
        for name, expr in sorted(PROBES.items()):
            src = '#include <boost/gil.hpp>\nnamespace gil = boost::gil;\nlong probe(unsigned char* p) { auto v = %s; return (long)v(0, 0)[0]; }\n' % expr
            ok, out = ctx.try_compile('p_' + name.replace('/', '_'), src)
            allok = allok and ok
            errs = [l for l in out.split('\n') if 'error' in l]
            f.write(json.dumps({'e': 'Compiles', 'case': name, 'ok': ok, 'msg': '' if ok else (errs[0] if errs else out[-200:])[-220:]}) + '\n')
        f.write(json.dumps({'e': 'End', 'events': len(PROBES)}) + '\n')
    ctx.mc('MC_RawViews', 'MC_RawViews_%s.cfg' % ctx.tier, timeout=3000)
    traces = [ptrace]
    if allok:
        exe, = ctx.build(['x09_rawviews.san'])
        traces += ctx.record(exe, [], shards=1)
    ctx.validate('Trace_RawViews', traces, timeout=3000)
    ctx.scan(traces, lambda ev: (ev['e'], ev.get('kind', ev.get('case')), ev.get('w', 0), ev.get('h', 0), ev.get('rb', 0)) if ev['e'] in ('RawView', 'Compiles') else None)
    ctx.rule = 'one Compiles event per constructor; one RawView event per (constructor, shape 1..4 x 1..3 (thorough 7 x 5), row padding 0 / 1 / 3) over buffers flush against an inaccessible page'
    ctx.exhaustive = False

def replay(ctx, path):
    ctx.validate('Trace_RawViews', [path])
