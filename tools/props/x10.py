"""X10 (extension beyond the listed properties): container operations of gil::histogram against specs/HistOps.tla: equals is an equivalence on the bins
(both directions agree), operator==, nearest_key, min_key / max_key, sorted_keys."""
import vlib

def run(ctx):
    exe, = ctx.build(['x10_histops.san'])
    ctx.mc('MC_HistOps', 'MC_HistOps_%s.cfg' % ctx.tier, timeout=3000)
    traces = ctx.record(exe, [], shards=1)
    ctx.validate('Trace_HistOps', traces, timeout=3000)
    ctx.scan(traces, lambda ev: (str(ev['a']), str(ev['b']), ev['probe']) if ev['e'] == 'HistOps' else None)
    ctx.rule = 'one HistOps event per random pair of 1-D integer histograms (b = a / a plus one bin / a with one count changed / unrelated) and probe key'
    ctx.exhaustive = False

def replay(ctx, path):
    ctx.validate('Trace_HistOps', [path])
