#!/bin/sh
# TLC with a deep stack (quantification over 65536-entry tables) and the spec library path
exec java -Xss256m ${TLC_HEAP:--Xmx8g} -XX:+UseParallelGC -DTLA-Library=/verif/specs ${TLC_JAVA_OPTS} \
  -cp /opt/veriftools/tla/tla2tools.jar:/opt/veriftools/tla/CommunityModules-deps.jar tlc2.TLC "$@"
