"""Shared runner library: build harnesses, run TLC (model checking and trace validation),
classify verdicts against known_findings.json, write evidence.  Exit codes:
0 property held on everything explored (known findings printed), 1 VIOLATION, 2 infrastructure."""
import json, os, re, shutil, subprocess, sys, time, glob, hashlib
from concurrent.futures import ThreadPoolExecutor

VERIF = os.path.dirname(os.path.dirname(os.path.abspath(__file__)))
REPO = os.environ.get('VERIF_REPO', '/repo')
SPECS = os.path.join(VERIF, 'specs')
HARNESS = os.path.join(VERIF, 'harness')
BUILD = os.environ.get('VERIF_BUILD', 'build')          # build directory name under harness/ (seed testing uses its own)
RUNROOT = os.environ.get('VERIF_RUNROOT', os.path.join(VERIF, 'run'))
MEM_BUDGET_GB = int(os.environ.get('VERIF_MEM_GB', '40'))   # memory the parallel TLC trace validations may use together
SCRATCH = REPO != '/repo'                                # running against a scratch copy: never touch evidence/
NCPU = os.cpu_count() or 4
JAVA = ['java', '-Xss256m', '-XX:+UseParallelGC', '-DTLA-Library=' + SPECS, '-cp',
        '/opt/veriftools/tla/tla2tools.jar:/opt/veriftools/tla/CommunityModules-deps.jar']


class Infra(Exception):
    pass


class LibraryBroken(Infra):
    """A conformance driver that builds on the baseline tree no longer compiles, and the compiler's first error is INSIDE the library's
    headers: the library stopped instantiating for types the property quantifies over.  Reported as a violation (P_Instantiates), not as
    an infrastructure error; an error located in the driver itself stays an infrastructure error."""
    def __init__(self, targets, first_error, logpath):
        Infra.__init__(self, 'library headers no longer compile for ' + ' '.join(targets))
        self.targets, self.first_error, self.logpath = targets, first_error, logpath


def log(*a):
    print(*a, flush=True)


class Ctx:
    def __init__(self, pid, tier, seed, replay=None):
        self.id, self.tier, self.seed, self.replay = pid, tier, seed, replay
        self.t0 = time.time()
        self.dir = os.path.join(RUNROOT, '%s-%s' % (pid, tier))
        if not replay:
            shutil.rmtree(self.dir, ignore_errors=True)
        os.makedirs(self.dir, exist_ok=True)
        self.mc_states = 0
        self.mc_trans = 0
        self.mc_runs = []
        self.tr_states = 0
        self.tr_trans = 0
        self.traces = 0
        self.events = 0
        self.bad = []          # violation records (dicts) with 'trace'
        self.drift = []
        self.assumptions = []
        self.extra = {}
        self.samples = []
        self.nontrivial = set()
        self.exhaustive = None
        self.rule = ''
        self.own = None        # clauses decided by this property (None = all); others are reported as notes only

    @property
    def thorough(self):
        return self.tier == 'thorough'

    # ---------------------------------------------------------------- build
    def build(self, targets, timeout=1500):
        t = time.time()
        cmd = ['make', '-C', HARNESS, '-j%d' % NCPU, 'REPO=' + REPO, 'B=' + BUILD] + [BUILD + '/' + x for x in targets]
        p = subprocess.run(cmd, stdout=subprocess.PIPE, stderr=subprocess.STDOUT, text=True, timeout=timeout)
        if p.returncode != 0:
            log(p.stdout[-6000:])
            m = re.search(r'^(\S+?):\d+:\d+: (?:fatal )?error: .*$', p.stdout, re.M)
            if m and os.path.realpath(m.group(1)).startswith(os.path.realpath(REPO) + os.sep):
                os.makedirs(self.dir, exist_ok=True)
                lp = os.path.join(self.dir, 'build-failure.log')
                open(lp, 'w').write(p.stdout)
                raise LibraryBroken(targets, m.group(0)[-300:], lp)
            raise Infra('harness build failed: ' + ' '.join(targets))
        log('[build] %s in %.1fs' % (' '.join(targets), time.time() - t))
        return [os.path.join(HARNESS, BUILD, x) for x in targets]

    def try_compile(self, name, source, flags=(), timeout=600):
        """Compile probe: returns (ok, tail of compiler output)."""
        d = os.path.join(self.dir, 'probes')
        os.makedirs(d, exist_ok=True)
        src = os.path.join(d, name + '.cpp')
        open(src, 'w').write(source)
        cmd = ['g++', '-std=c++17', '-fsyntax-only', '-I' + REPO + '/include', '-I' + HARNESS, '-w'] + list(flags) + [src]
        p = subprocess.run(cmd, stdout=subprocess.PIPE, stderr=subprocess.STDOUT, text=True, timeout=timeout)
        return p.returncode == 0, p.stdout[-1500:]

    # ---------------------------------------------------------------- TLC
    def _tlc(self, args, env=None, timeout=3000, heap='8g', tag='tlc'):
        meta = os.path.join(self.dir, 'meta-%s-%s' % (tag, __import__('uuid').uuid4().hex[:12]))
        cmd = JAVA[:1] + ['-Xmx' + heap] + JAVA[1:] + ['tlc2.TLC', '-metadir', meta] + args
        e = dict(os.environ)
        if env:
            e.update(env)
        try:
            p = subprocess.run(cmd, stdout=subprocess.PIPE, stderr=subprocess.STDOUT, text=True, timeout=timeout, env=e, cwd=self.dir)
        finally:
            shutil.rmtree(meta, ignore_errors=True)
        return p.returncode, p.stdout

    @staticmethod
    def _stats(out):
        m = re.search(r'(\d+) states generated, (\d+) distinct states found', out)
        return (int(m.group(1)), int(m.group(2))) if m else (0, 0)

    def mc(self, module, cfg, workers=NCPU, timeout=3000, heap='16g', simulate=None, expect_violation=False):
        """Exhaustive (or simulated) TLC run of a model-checking configuration.  A counterexample here is a
        disagreement between the I_ model and the P_ layer, i.e. a specification-level error, never a verdict
        about the code: exit 2."""
        t = time.time()
        args = ['-workers', str(workers), '-config', os.path.join(SPECS, cfg), os.path.join(SPECS, module + '.tla')]
        if simulate:
            args = ['-simulate', simulate, '-seed', str(self.seed)] + args
        rc, out = self._tlc(args, timeout=timeout, heap=heap, tag='mc')
        gen, dist = self._stats(out)
        ok = 'No error has been found' in out or (simulate and rc == 0)
        if expect_violation:
            return (not ok), out
        if not ok:
            open(os.path.join(self.dir, 'mc-fail-%s.log' % cfg), 'w').write(out)
            log(out[-3000:])
            raise Infra('model checking of %s/%s did not pass (specification-level problem)' % (module, cfg))
        self.mc_states += dist
        self.mc_trans += gen
        self.mc_runs.append({'module': module, 'cfg': cfg, 'distinct_states': dist, 'states_generated': gen, 'wall_s': round(time.time() - t, 1),
                             'mode': 'simulate ' + simulate if simulate else 'bfs'})
        log('[mc] %s %s: %d distinct states, %d generated, %.1fs' % (module, cfg, dist, gen, time.time() - t))
        return out

    def validate_one(self, module, trace, timeout=3000, heap='6g', cfg=None):
        out_file = trace + '.verdict.json'
        if os.path.exists(out_file):
            os.remove(out_file)
        args = ['-workers', '1', '-config', os.path.join(SPECS, cfg or (module + '.cfg')), os.path.join(SPECS, module + '.tla')]
        rc, out = self._tlc(args, env={'TRACE': trace, 'OUT': out_file}, timeout=timeout, heap=heap, tag='tr')
        if not os.path.exists(out_file) or 'No error has been found' not in out:
            open(trace + '.tlc.log', 'w').write(out)
            raise Infra('trace validation did not complete for %s (see %s.tlc.log): %s' % (trace, trace, out[-1500:]))
        res = json.loads(open(out_file).readline())
        gen, dist = self._stats(out)
        res['_states'], res['_gen'], res['_trace'] = dist, gen, trace
        return res

    def validate(self, module, traces, timeout=3000, heap='6g', cfg=None, par=None):
        t = time.time()
        if par is None:
            # TLC holds the deserialised trace in memory (roughly 14x the file size, more for deeply nested events) and a JVM grows to
            # its -Xmx before it collects: the parallel validations together get MEM_BUDGET_GB, each a fixed share as its ceiling
            big = max([os.path.getsize(x) for x in traces] + [0]) / 1e9
            xmx = max(int(big * 14) + 4, 4)
            par = max(1, min(8, NCPU, int(MEM_BUDGET_GB // xmx)))
            heap = '%dg' % max(xmx, int(MEM_BUDGET_GB // par))
        with ThreadPoolExecutor(max_workers=par or NCPU) as ex:
            results = list(ex.map(lambda tr: self.validate_one(module, tr, timeout, heap, cfg), traces))
        for r in results:
            self.tr_states += r['_states']
            self.tr_trans += r['_gen']
            self.events += r['events']
            for b in r['bad']:
                b['trace'] = r['_trace']
                self.bad.append(b)
            for b in r['drift']:
                b['trace'] = r['_trace']
                self.drift.append(b)
        self.traces += len(traces)
        log('[validate] %s: %d traces, %d events, %d bad signatures, %d drift, %.1fs' %
            (module, len(traces), sum(r['events'] for r in results), sum(len(r['bad']) for r in results),
             sum(len(r['drift']) for r in results), time.time() - t))
        return results

    # ---------------------------------------------------------------- record
    def run_harness(self, exe, args, out, timeout=1200):
        env = dict(os.environ)
        env['ASAN_OPTIONS'] = 'detect_leaks=0:exitcode=77:abort_on_error=0:allocator_may_return_null=1:handle_segv=0:handle_sigfpe=0:handle_abort=0:handle_sigbus=0'
        env['UBSAN_OPTIONS'] = 'halt_on_error=1:exitcode=78:print_stacktrace=1'
        cmd = [exe, '--out=' + out, '--tier=' + self.tier, '--seed=%d' % self.seed] + list(args)
        try:
            p = subprocess.run(cmd, stdout=subprocess.PIPE, stderr=subprocess.STDOUT, text=True, timeout=timeout, env=env, errors='replace')
            rc, txt = p.returncode, p.stdout
        except subprocess.TimeoutExpired as e:
            rc, txt = -9, 'TIMEOUT'
        # a trace must end with an End event; otherwise the process outcome is itself an observed event
        last = b''
        if os.path.exists(out):
            with open(out, 'rb') as f:
                f.seek(0, 2)
                sz = f.tell()
                f.seek(max(0, sz - 4096))
                tail = f.read().split(b'\n')
                tail = [x for x in tail if x.strip()]
                last = tail[-1] if tail else b''
        if b'"e":"End"' not in last:
            kind = 'timeout' if rc == -9 else 'asan' if rc == 77 else 'ubsan' if rc == 78 else ('signal%d' % -rc if rc < 0 else 'exit%d' % rc)
            with open(out, 'ab') as f:
                if last and not open(out, 'rb').read()[-1:] == b'\n':
                    f.write(b'\n')
                f.write(json.dumps({'e': 'Fault', 'kind': kind, 'top': True}).encode() + b'\n')
            open(out + '.stderr', 'w').write(txt[-20000:])
        return rc

    def record(self, exe, args, shards=1, name='trace', timeout=1200):
        t = time.time()
        outs = [os.path.join(self.dir, '%s-%02d.ndjson' % (name, i)) for i in range(shards)]
        with ThreadPoolExecutor(max_workers=NCPU) as ex:
            list(ex.map(lambda i: self.run_harness(exe, list(args) + ['--shard=%d/%d' % (i, shards)], outs[i], timeout), range(shards)))
        log('[record] %s %s: %d shard(s), %.1f MB, %.1fs' % (os.path.basename(exe), ' '.join(args), shards,
                                                             sum(os.path.getsize(o) for o in outs) / 1e6, time.time() - t))
        return outs

    # ---------------------------------------------------------------- coverage helpers
    def scan(self, traces, keyfn, sample_every=0, max_samples=4, trim=240):
        """keyfn(ev) -> hashable key for a non-trivial case, or None.  Counts distinct keys."""
        n = 0
        for tr in traces:
            with open(tr) as f:
                for line in f:
                    if not line.strip():
                        continue
                    ev = json.loads(line)
                    n += 1
                    k = keyfn(ev)
                    if k is not None:
                        self.nontrivial.add(k if isinstance(k, (str, int, tuple)) else json.dumps(k, sort_keys=True))
                        if len(self.samples) < max_samples and (sample_every == 0 or n % sample_every == 1):
                            s = line.strip()
                            self.samples.append(s if len(s) <= trim else s[:trim] + '...')
        return n

    # ---------------------------------------------------------------- verdict
    def finish(self, level='model_checking'):
        findings = load_findings()
        unlisted, listed = [], {}
        if self.own is not None:
            other = [b for b in self.bad if b['clause'] not in self.own]
            for sig in sorted({(b['clause'], b['cause'], b['key']) for b in other})[:10]:
                log('NOTE: clause of another property rejected in this trace (not decided by %s): %s cause=%s key=%s' % ((self.id,) + sig))
            self.bad = [b for b in self.bad if b['clause'] in self.own]
        for b in self.bad:
            f = match_finding(findings, self.id, b)
            if f is None:
                unlisted.append(b)
            else:
                listed.setdefault(f['id'], [f, 0, b])
                listed[f['id']][1] += b['n']
        for fid, (f, n, b) in sorted(listed.items()):
            log('KNOWN-FINDING: property=%s %s [%s] %s (events=%d, e.g. %s cause=%s key=%s %s)' %
                (self.id, fid, f['clause'], f['what'], n, b['clause'], b['cause'], b['key'], b['info'][:120]))
        driftsig = sorted({(d['clause'], d['cause'], d['key']) for d in self.drift})
        for d in driftsig[:20]:
            log('MODEL-DRIFT: property=%s %s cause=%s key=%s (implementation differs from the I_ layer but satisfies P_)' % ((self.id,) + d))
        vdir = os.path.join(RUNROOT, 'violations')
        reported = 0
        if unlisted:
            os.makedirs(vdir, exist_ok=True)
            seen = {}
            for b in unlisted:
                seen.setdefault(b['trace'], []).append(b)
            for tr, bs in seen.items():
                dst = os.path.join(vdir, '%s-%s-%s' % (self.id, self.tier, os.path.basename(tr)))
                if os.path.abspath(tr) != os.path.abspath(dst):
                    shutil.copyfile(tr, dst)
                for b in bs[:10]:
                    log('  violated %s cause=%s key=%s first_event=%d n=%d info=%s' % (b['clause'], b['cause'], b['key'], b['first'], b['n'], b['info'][:300]))
                log('VIOLATION property=%s replay=%s' % (self.id, dst))
                reported += 1
        cov = {
            'states': self.mc_states + self.tr_states,
            'transitions': self.mc_trans + self.tr_trans,
            'traces_validated_against_impl': self.traces,
            'samples': self.samples or ['(no sample recorded)'],
            'evaluations': self.events,
            'distinct_nontrivial': len(self.nontrivial),
            'rule': self.rule,
            'model_checking_runs': self.mc_runs,
            'mc_distinct_states': self.mc_states,
            'trace_validation_states': self.tr_states,
            'known_findings_hit': sorted(listed.keys()),
            'model_drift': [list(d) for d in driftsig[:50]],
            'unlisted_violation_signatures': [[b['clause'], b['cause'], b['key']] for b in unlisted[:50]],
        }
        if self.exhaustive is not None:
            cov['exhaustive'] = self.exhaustive
        cov.update(self.extra)
        ev = {'property_id': self.id, 'tier': self.tier, 'seed': self.seed, 'level': level, 'coverage': cov,
              'assumptions': self.assumptions, 'wall_s': round(time.time() - self.t0, 1), 'violations': len(unlisted)}
        if not self.replay and not SCRATCH:
            # extension checks (ids X..: specification coverage beyond the listed properties) keep their records apart
            edir = os.path.join(VERIF, 'evidence_ext' if self.id.startswith('X') else 'evidence')
            os.makedirs(edir, exist_ok=True)
            tmp = os.path.join(edir, self.id + '.json.tmp')
            json.dump(ev, open(tmp, 'w'), indent=1)
            os.replace(tmp, os.path.join(edir, self.id + '.json'))
        log('[done] %s tier=%s: %d events, %d mc states, %d unlisted violation signature(s), %d known finding(s), %.1fs' %
            (self.id, self.tier, self.events, self.mc_states, len(unlisted), len(listed), time.time() - self.t0))
        return 1 if unlisted else 0


def load_findings():
    p = os.path.join(VERIF, 'known_findings.json')
    if not os.path.exists(p):
        return []
    return [f for f in json.load(open(p))['findings']]


def match_finding(findings, pid, b):
    """An open finding suppresses exactly the signatures it lists (regexes, fully anchored).  'fixed' entries
    suppress nothing."""
    for f in findings:
        if f.get('status') != 'open' or pid not in f['properties']:
            continue
        if all(re.fullmatch(f.get(k, '.*'), str(b.get(k, ''))) for k in ('clause', 'cause', 'key')) and \
                re.search(f.get('info', ''), b.get('info', '')):
            return f
    return None
